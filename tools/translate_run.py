#!/venv/bin/python
"""Statement-by-statement translation of the ORCHESTRATION of tealer's dataflow analysis into Gallina (Gen/RunGen.v).

Translated (read with `ast` only, never imported), all from analyses/dataflow/transaction_context/generic.py, class
DataflowTransactionContext:
  _postorder (staticmethod, with its nested recursive function dfs) -> postorder_dfs_gen (Fixpoint) + postorder_gen
  _update_gtxn_constraints                                          -> update_gtxn_constraints_gen
  run_analysis                                                      -> run_analysis_gen, and its SLICES
       gtx_keys = [] ; for key in self.KEYS_WITH_GTXN: ...          -> gtx_keys_gen
       postorder = [..] ; for subroutine in ...: postorder.append   -> postorders_gen
       worklist = [] ; for l in postorder: worklist += l[::-1]      -> forward_worklist_gen
       worklist = [] ; for l in postorder: worklist += [b for ..]   -> backward_worklist_gen
The hand-written counterparts are Model/Analysis.v (postorder_dfs, postorder, postorders, forward_worklist,
backward_worklist), Model/Keys.v (all_gtx_fams) and Model/Domains.v (init_constraints, solve, run_int, run_family with
its at-index refinement); Lemmas/RunGenLemmas.v proves generated = hand-written.

Reading of Python in Gallina.  The exception monad (py, ret, bind, ifE, notE, ..) is the fixed prelude of Gen/KeysGen.v;
the object graph is read through the fixed, fingerprinted glue table of Gen/GraphGen.v (attr_next, attr_entry,
leaf_block_global_gen, self_entry_block) and Gen/SolverGen.v (function_blocks, gdict / kdict_* / ddict_get / dict_set,
forward_analyis_gen, backward_analysis_gen); the constraint initialisation is Gen/ConstraintsGen.v.  All imported, not
repeated; the fingerprints of translate_graph / translate_solver are re-checked here.  In addition:
  * analysis keys are strings (as in Gen/SolverGen.v).  get_gtxn_at_index_key / get_absolute_index_key /
    get_relative_index_key are the f-strings of key_helpers.py (text fingerprinted by translate_keys.KEY_HELPER_TEXT),
    read by the glue functions of the same names: "GTXN_AT_INDEX_" ++ fmt_02d idx ++ "_" ++ base_key, ..; fmt_02d is
    Python's format spec `02d`.  The class attributes self.BASE_KEYS / self.KEYS_WITH_GTXN (List[str], assigned in the
    class bodies only: checked) are the Section variables BASE_KEYS / KEYS_WITH_GTXN.
  * Python ints are Z; MAX_GROUP_SIZE is Z.of_N Tables.MAX_GROUP_SIZE; range(a) / range(a, b) is py_range.
  * mutable state is threaded: self._block_contexts is the variable self_block_contexts : gdict T (an extra parameter
    and the result of every translated method that mutates it; run_analysis returns its final value: what the final
    abstract call self._store_results() reads).  `self._block_contexts[k][b] = v` on the defaultdict(dict) is ctx_store
    (the inner dictionary is created when missing; value semantics: the inner dictionaries of different keys are never
    aliased -- they are created by `{}` per key in forward_analyis / backward_analysis, or by the defaultdict).
    `x.append(e)` is `x := x ++ [e]`; `x += e` on a list is `x := x ++ e` (the list objects are local to the function
    and not aliased); `s.add(e)` on a set is set_add.  A `set` of BasicBlock objects whose elements are only added and
    tested (`in`) is the list of the added ids (never iterated: the order is not observable).
  * calls of the other regenerated methods:
      self._block_level_constraints(keys, block) : for every key of `keys`, block_level_constraints_gen (one key) stored
          into self_block_contexts (call_block_level_constraints);
      self._path_level_constraints(keys, block)  : for every key, path_level_constraints_gen (one key); the values
          written go to self._path_contexts, which Gen/GraphGen.v reads through its glue self_path_contexts
          (Lemmas/ConstraintsGenLemmas.v relates the two); only the exceptions are observable here
          (call_path_level_constraints);
      self.forward_analyis(keys, wl) / self.backward_analysis(keys, wl) : forward_analyis_gen / backward_analysis_gen;
          `Some None` (the iteration budget `fuel` of the while loop is exhausted) is passed on;
      self._function.transaction_context(block).group_indices : the list stored by GroupIndices._store_results
          (int_fields.py; _apply_transaction_context_analysis runs that analysis first: both fingerprinted): the
          Section variable `indices`, KeyError (None) for a block that is not a key of Function._transaction_contexts.
  * the nested function `dfs` of _postorder is a Fixpoint over a recursion budget `fuel` (O => None: Python's
    RecursionError); the variables of the enclosing function it mutates (visited, order: closure cells) are threaded
    as extra parameters and returned.
  * `for x in e: body` is `fold_left (fun acc x => bind acc (fun st => <body>)) <e> (ret <state>)` (state = the
    variables (re)assigned / mutated in the body and bound before the loop); `continue` ends the iteration.  Variables
    bound in a loop body are not visible after the loop (checked: they are not used there).
  * `[x for x in l if c]` is filterE (the elements for which c holds, in order; an exception of c is an exception).
  * logging (`logger_txn_ctx.debug(..)`, and `for` / `if` statements that contain nothing else) is skipped; the
    subscripts evaluated by its f-strings must be guarded by `debug_key in self.BASE_KEYS` (no KeyError).
  * the abstract methods and class attributes are the variables of a Coq Section; a translated function that uses one
    of `univ`/`null`, `union`/`inter`, `BASE_KEYS`/`KEYS_WITH_GTXN` takes BOTH as parameters (see TWINS below): otherwise
    writing one for the other in the source would only rename a parameter of the generated function.
  * SLICES.  A run of statements `v = <list literal>; for ..: <mutates v only>` of run_analysis that builds one of the
    lists gtx_keys / postorder / worklist is emitted as a definition of its own (parameters: the local variables it
    reads) and called from run_analysis_gen.  The slice of `worklist` is named after the method that consumes it
    (forward_analyis -> forward_worklist_gen, backward_analysis -> backward_worklist_gen); the occurrences of one
    slice must have the same text (run_analysis builds each worklist twice).

Fail-closed: every statement kind, expression kind, attribute name, call name and variable type that is not whitelisted
below raises TranslateError.
"""
import ast
import hashlib
import os
import sys

from tcommon import TranslateError, fail, parse, strip_doc, T
from translate_keys import check_imports, indent, same_text, KEY_HELPER_TEXT, KH_REL
from translate_asserted import (
    seq,
    as_monadic,
    projections,
    tuple_term,
    find_class,
    find_toplevel,
    bound_names,
    is_self_call,
    need_origin,
    check_methods,
    check_no_override,
    DOMAIN_METHODS,
)
import translate_graph as TG
import translate_solver as TS

GEN_REL = TG.GEN_REL
FN_REL = TG.FN_REL
UA_MODULE = TG.UA_MODULE
KH_MODULE = "tealer.analyses.dataflow.transaction_context.utils.key_helpers"
AC_MODULE = "tealer.utils.algorand_constants"
AC_REL = "utils/algorand_constants.py"
IF_REL = "analyses/dataflow/transaction_context/int_fields.py"
PF_REL = "teal/parse_functions.py"

# ----------------------------------------------------------------------------- types of the little typed language
BLK, SUB, FUNC, BOOL, DOM, KEY, INT, GDICT, SETBLK, UNIT = "block", "sub", "func", "bool", "T", "key", "int", "gdict", "set block", "unit"
LIST_ANY = "list ?"
BASE_COQ = {BLK: "nat", SUB: "string", BOOL: "bool", DOM: "T", KEY: "string", INT: "Z", GDICT: "gdict T", SETBLK: "list nat"}


def tlist(t):
    return "list " + t


LBLK, LLBLK, LKEY, LINT, LSUB = tlist(BLK), tlist(tlist(BLK)), tlist(KEY), tlist(INT), tlist(SUB)


def coq_type(t):
    if t in BASE_COQ:
        return BASE_COQ[t]
    if t.startswith("list ") and t != LIST_ANY:
        inner = coq_type(t[len("list "):])
        return "list " + (f"({inner})" if " " in inner else inner)
    raise TranslateError(f"translator: no Coq type for {t}")


def atom(ty):
    s = coq_type(ty)
    return f"({s})" if " " in s else s


ANNOTATIONS = {
    "List[str]": LKEY,
    "'BasicBlock'": BLK,
    "List['BasicBlock']": LBLK,
    "Set['BasicBlock']": SETBLK,
}
SELF_CTX = TS.SELF_CTX

# key helpers of key_helpers.py -> glue function of the prelude (same name); arguments (int, str) -> str
KEY_HELPERS = ("get_gtxn_at_index_key", "get_absolute_index_key", "get_relative_index_key")
# slices of run_analysis: variable -> generated name (worklist: by the consuming method)
SLICE_NAMES = {"gtx_keys": "gtx_keys_gen", "postorder": "postorders_gen"}
WORKLIST_SLICES = {"forward_analyis": "forward_worklist_gen", "backward_analysis": "backward_worklist_gen"}
# the regenerated methods called by run_analysis: python name -> (glue, kind)
CALLED = {
    "_block_level_constraints": "call_block_level_constraints",
    "_path_level_constraints": "call_path_level_constraints",
    "forward_analyis": "call_forward_analyis",
    "backward_analysis": "call_backward_analysis",
    "_update_gtxn_constraints": "update_gtxn_constraints_gen",
}

FINGERPRINTS = [
    (FN_REL, "Function", "transaction_context", "def transaction_context(self, block: 'BasicBlock') -> 'BlockTransactionContext':\n    return self._transaction_contexts[block]"),
    (IF_REL, "GroupIndices", "_store_results", "sha256:fd9d7c8f5aa7f979782d55f3a1e59d18381d2b0a79c1801bf140e6852942eefd"),
    (PF_REL, None, "_apply_transaction_context_analysis", "sha256:3fdf4529633f5dc10c028871746c96084f80dda1f747f69a29d6d7438394ca98"),
]
# module-level statements of generic.py the logging reading relies on
MODULE_STATEMENTS = ["logger_txn_ctx = logging.getLogger('TransactionCtxAnalysis')", "debug_keys = ['TransactionType']"]
# class-level statements of DataflowTransactionContext behind the Section variables
CLASS_STATEMENTS = ["BASE_KEYS: List[str] = []", "KEYS_WITH_GTXN: List[str] = []"]

RESERVED = {
    "f", "fuel", "afuel", "pfuel", "acc", "st", "acc2", "st2", "acc3", "st3", "k", "d", "T", "t_eqb", "univ", "null", "union", "inter", "single", "ret", "bind",
    "py", "ifE", "notE", "andE", "orE", "assertE", "opt_is_some", "dict_get", "fold_left", "fst", "snd", "negb", "andb", "orb", "true", "false",
    "nil", "cons", "app", "rev", "length", "Some", "None", "O", "S", "state", "lookup", "update", "func", "nat", "bool", "string", "list", "option",
    "fblock", "gdict", "dict_empty", "dict_set", "kdict_empty", "kdict_get", "kdict_set", "ddict_get", "ctx_store", "function_blocks",
    "py_range", "fmt_02d", "int_in", "subscript", "subscript_last", "set_empty", "set_add", "set_in", "filterE", "meth_subroutines_values", "call_group_indices", "indices",
    "BASE_KEYS", "KEYS_WITH_GTXN", "MAX_GROUP_SIZE", "tt", "unit", "Z", "N", SELF_CTX,
    "in", "at", "as", "fun", "let", "match", "end", "if", "then", "else", "return", "with", "forall", "exists", "fix", "cofix", "for",
    "where", "using", "Type", "Prop", "Set", "SProp", "struct", "self",
}  # fmt: skip
RESERVED |= set(KEY_HELPERS) | set(CALLED.values()) | set(SLICE_NAMES.values()) | set(WORKLIST_SLICES.values())
RESERVED |= {"postorder_dfs_gen", "postorder_gen", "run_analysis_gen"}
RESERVED |= {g for g, _, _ in TG.ATTRS.values()} | {g for g, _, _ in TG.GRAPH_FUNCS.values()}

PRELUDE = r"""
(* ====================================================================== *)
(* PRELUDE (fixed text).  The exception monad is the one of Gen/KeysGen.v, the glue table of the object graph the *)
(* one of Gen/GraphGen.v, dictionaries and the worklist solver those of Gen/SolverGen.v, the constraint           *)
(* initialisation the one of Gen/ConstraintsGen.v.                                                              *)
(* ====================================================================== *)
(* ---- Python ints are Z.  range(lo, hi) (range(hi) = range(0, hi)): the empty list when hi <= lo *)
Definition py_range (lo hi : Z) : list Z := map (fun i => (lo + Z.of_nat i)%Z) (seq 0 (Z.to_nat (hi - lo))).
(* `x in l` on a list of ints *)
Definition int_in (x : Z) (l : list Z) : bool := existsb (Z.eqb x) l.
(* the format spec `02d`: decimal, zero-padded to width 2; the sign counts for the width ("-1", "-15", "07", "12") *)
Definition fmt_02d (z : Z) : string :=
  let d := string_of_N (Z.abs_N z) in
  if (z <? 0)%Z then ("-" ++ d)%string else if Nat.ltb (String.length d) 2 then ("0" ++ d)%string else d.
(* key_helpers.py (the text of the three functions is fingerprinted by the translator):
   f"GTXN_AT_INDEX_{idx:02d}_{base_key}", f"GTXN_ABS_{idx:02d}_{base_key}", f"GTXN_RELATIVE_{offset:02d}_{base_key}" *)
Definition get_gtxn_at_index_key (idx : Z) (base_key : string) : string :=
  ("GTXN_AT_INDEX_" ++ fmt_02d idx ++ "_" ++ base_key)%string.
Definition get_absolute_index_key (idx : Z) (base_key : string) : string :=
  ("GTXN_ABS_" ++ fmt_02d idx ++ "_" ++ base_key)%string.
Definition get_relative_index_key (offset : Z) (base_key : string) : string :=
  ("GTXN_RELATIVE_" ++ fmt_02d offset ++ "_" ++ base_key)%string.
(* ---- a set of BasicBlock objects that is only extended (`s.add(x)`) and tested (`x in s`): the added ids; BasicBlock
   defines no __eq__/__hash__ (fingerprinted by translate_graph): membership is identity, i.e. equality of ids *)
Definition set_empty : list nat := [].
Definition set_add (s : list nat) (x : nat) : list nat := x :: s.
Definition set_in (x : nat) (s : list nat) : bool := existsb (Nat.eqb x) s.
(* [x for x in l if c(x)]: the elements for which the condition holds, in order; an exception of c is an exception *)
Fixpoint filterE {A : Type} (c : A -> py bool) (l : list A) : py (list A) :=
  match l with
  | [] => ret []
  | x :: t => bind (c x) (fun keep => bind (filterE c t) (fun r => ret (if keep then x :: r else r)))
  end.
(* function.subroutines.values(): Function.subroutines is the dictionary of the USED subroutines passed to
   Function(..) (Analysis.fn_subs, in dictionary order); a Subroutine object is its name (Gen/GraphGen.v) *)
Definition meth_subroutines_values (f : func) : list string := map s_name (fn_subs f).

(* the abstract methods of DataflowTransactionContext indexed by the analysis key, the function under analysis,
   Python's == on domain values, the class attributes BASE_KEYS / KEYS_WITH_GTXN and the group indices stored by the
   int-fields analysis (GroupIndices._store_results), which _apply_transaction_context_analysis runs first *)
Section RunGen.
  Variable T : Type.
  Variable t_eqb : T -> T -> bool.
  Variable univ null : string -> T.
  Variable union inter : string -> T -> T -> T.
  Variable single : string -> instr -> nat -> list sval -> T * T.
  Variable f : func.
  Variable BASE_KEYS KEYS_WITH_GTXN : list string.
  Variable indices : list (nat * list Z).

  (* self._block_contexts[k][b] = v on the defaultdict(dict): the inner dictionary is created when missing *)
  Definition ctx_store (d : gdict T) (k : string) (b : nat) (v : T) : gdict T :=
    kdict_set T d k (dict_set T (ddict_get T d k) b v).
  (* self._function.transaction_context(block).group_indices: Function._transaction_contexts[block] (KeyError = None),
     attribute group_indices as GroupIndices._store_results left it *)
  Definition call_group_indices (block : nat) : py (list Z) := lookup (list Z) indices block.
  (* self._block_level_constraints(keys, block): the one-key function of Gen/ConstraintsGen.v for every key, the
     value stored under [key][block]; afuel is the recursion budget of get_asserted_gen *)
  Definition call_block_level_constraints (afuel : nat) (keys : list string) (block : nat) (d : gdict T) : py (gdict T) :=
    fold_left (fun acc key => bind acc (fun st =>
      bind (block_level_constraints_gen T (univ key) (null key) (union key) (inter key) (single key) f afuel block) (fun v =>
      ret (ctx_store st key block v)))) keys (ret d).
  (* self._path_level_constraints(keys, block): the one-key function of Gen/ConstraintsGen.v for every key; the values
     go to self._path_contexts (read by Gen/GraphGen.v through self_path_contexts): only exceptions are observable *)
  Definition call_path_level_constraints (afuel : nat) (keys : list string) (block : nat) : py unit :=
    fold_left (fun acc key => bind acc (fun _ =>
      bind (path_level_constraints_gen T (univ key) (null key) (union key) (inter key) (single key) f afuel block) (fun _ =>
      ret tt))) keys (ret tt).
  (* self.forward_analyis / self.backward_analysis: Gen/SolverGen.v *)
  Definition call_forward_analyis (fuel : nat) (keys : list string) (worklist : list nat) (d : gdict T) : py (option (gdict T)) :=
    forward_analyis_gen T t_eqb univ null union inter single f fuel keys worklist d.
  Definition call_backward_analysis (fuel : nat) (keys : list string) (worklist : list nat) (d : gdict T) : py (option (gdict T)) :=
    backward_analysis_gen T t_eqb univ null union inter f fuel keys worklist d.
"""


# ----------------------------------------------------------------------------- environment
class Env:
    def __init__(self, path, imports, has_self):
        self.path = path
        self.imports = imports
        self.has_self = has_self
        self.vars = {}  # python name -> type (the Coq name is the Python name)
        self.counter = [0]
        self.depth = 0  # nesting depth of for loops
        self.on_continue = None
        self.closure = None  # inside / after the nested function: dict(name, gen, param, state)
        self.in_closure = False
        self.fuel_stmts = False  # statements that consume the iteration budget are accepted (top level of run_analysis)
        self.slices = None  # run_analysis: dict name -> (params, ast dump)
        self.aux = []

    def child(self, **new):
        e = Env(self.path, self.imports, self.has_self)
        e.vars = dict(self.vars)
        for a in ("counter", "depth", "on_continue", "closure", "in_closure", "fuel_stmts", "slices", "aux"):
            setattr(e, a, getattr(self, a))
        e.vars.update(new)
        return e

    def fresh(self):
        self.counter[0] += 1
        return f"tmp{self.counter[0]}"


def compatible(a, b):
    if a == b:
        return a
    if a == LIST_ANY and b.startswith("list "):
        return b
    if b == LIST_ANY and a.startswith("list "):
        return a
    return None


def is_self_attr(e, name=None):
    return isinstance(e, ast.Attribute) and isinstance(e.value, ast.Name) and e.value.id == "self" and (name is None or e.attr == name)


def int_const(e):
    if isinstance(e, ast.Constant) and isinstance(e.value, int) and not isinstance(e.value, bool):
        return e.value
    return None


def is_ctx_cell(e):
    """self._block_contexts[K][B] -> (K, B) else None"""
    if isinstance(e, ast.Subscript) and isinstance(e.value, ast.Subscript) and is_self_attr(e.value.value, "_block_contexts"):
        return e.value.slice, e.slice
    return None


def builtin(env, node, name):
    if name in env.vars or name in env.imports:
        fail(env.path, node, f"the builtin {name} is re-bound")


# ----------------------------------------------------------------------------- expressions
def expr(env, e):
    """-> (term, type, pure)"""
    p = env.path
    if isinstance(e, ast.Constant):
        if e.value is True:
            return "true", BOOL, True
        if e.value is False:
            return "false", BOOL, True
        n = int_const(e)
        if n is not None and n >= 0:
            return f"{n}%Z", INT, True
        fail(p, e, "constant " + ast.unparse(e))
    if isinstance(e, ast.Name):
        if e.id in env.vars and e.id != SELF_CTX:
            return e.id, env.vars[e.id], True
        if e.id == "MAX_GROUP_SIZE":
            need_origin(env, e, e.id, {AC_MODULE + ".MAX_GROUP_SIZE"})
            return "(Z.of_N MAX_GROUP_SIZE)", INT, True
        fail(p, e, f"unknown name {e.id}")
    if isinstance(e, ast.Attribute):
        if is_self_attr(e):
            if not env.has_self or "self" in env.vars:
                fail(p, e, "self is not the analysis object here")
            if e.attr in ("BASE_KEYS", "KEYS_WITH_GTXN"):
                return e.attr, LKEY, True
            if e.attr == "_function":
                return "f", FUNC, True
            if e.attr == "_entry_block":
                return "(self_entry_block f)", BLK, True
            fail(p, e, "attribute of self " + ast.unparse(e))
        # self._function.transaction_context(block).group_indices
        if e.attr == "group_indices" and isinstance(e.value, ast.Call) and isinstance(e.value.func, ast.Attribute) and e.value.func.attr == "transaction_context":
            c = e.value
            ft, fty, _ = expr(env, c.func.value)
            if fty != FUNC or c.keywords or len(c.args) != 1:
                fail(p, e, "call " + ast.unparse(c)[:60])
            b, bty, bp = expr(env, c.args[0])
            if bty != BLK:
                fail(p, e, f"transaction_context of a value of type {bty}")
            out, _ = seq(env, [(b, bp)], lambda a: f"(call_group_indices {a})", monadic_result=True)
            return out, LINT, False
        t, ty, pure = expr(env, e.value)
        if ty == FUNC and e.attr == "blocks":
            return "(function_blocks f)", LBLK, True
        if ty not in (BLK, SUB) or (e.attr, ty) not in TG.ATTRS:
            fail(p, e, f"attribute .{e.attr} of a value of type {ty}")
        g, rty, gpure = TG.ATTRS[(e.attr, ty)]
        rty = {"list block": LBLK}.get(rty, rty)
        if gpure or rty not in (LBLK, BLK):
            fail(p, e, f"attribute .{e.attr}")
        out, _ = seq(env, [(t, pure)], lambda a: f"({g} f {a})", monadic_result=True)
        return out, rty, False
    if isinstance(e, ast.Subscript):
        cell = is_ctx_cell(e)
        if cell is not None:
            if SELF_CTX not in env.vars or not env.has_self:
                fail(p, e, "self._block_contexts is not available here")
            k, kty, kp = expr(env, cell[0])
            b, bty, bp = expr(env, cell[1])
            if kty != KEY or bty != BLK:
                fail(p, e, f"self._block_contexts subscripted with values of types {kty}, {bty}")
            out, _ = seq(env, [(k, kp), (b, bp)], lambda x, y: f"(dict_get T (ddict_get T {SELF_CTX} {x}) {y})", monadic_result=True)
            return out, DOM, False
        s = e.slice
        v, vty, vp = expr(env, e.value)
        if (
            vty.startswith("list ")
            and vty != LIST_ANY
            and isinstance(s, ast.Slice)
            and s.lower is None
            and s.upper is None
            and isinstance(s.step, ast.UnaryOp)
            and isinstance(s.step.op, ast.USub)
            and int_const(s.step.operand) == 1
        ):
            # l[::-1]: a fresh list, the elements in reverse order
            out, pure = seq(env, [(v, vp)], lambda a: f"(rev {a})")
            return out, vty, pure
        k = int_const(s) if not isinstance(s, ast.UnaryOp) else (-int_const(s.operand) if isinstance(s.op, ast.USub) and int_const(s.operand) is not None else None)
        if vty.startswith("list ") and vty != LIST_ANY and k is not None and k >= -1:
            # l[k] (IndexError = None), l[-1]
            build = (lambda a: f"(subscript {a} {k})") if k >= 0 else (lambda a: f"(subscript_last {a})")
            out, _ = seq(env, [(v, vp)], build, monadic_result=True)
            return out, vty[len("list "):], False
        fail(p, e, "subscript " + ast.unparse(e)[:60])
    if isinstance(e, ast.BoolOp):
        parts = [expr(env, v) for v in e.values]
        for (_, ty, _), v in zip(parts, e.values):
            if ty != BOOL:
                fail(p, v, f"operand of and/or of type {ty}")
        allpure = all(pure for _, _, pure in parts)
        if isinstance(e.op, ast.And):
            fn = "andb" if allpure else "andE"
        elif isinstance(e.op, ast.Or):
            fn = "orb" if allpure else "orE"
        else:
            fail(p, e, "boolean operator")
        terms = [t if allpure else as_monadic(t, pure) for t, _, pure in parts]
        out = terms[-1]
        for t in reversed(terms[:-1]):
            out = f"({fn} {t} {out})"
        return out, BOOL, allpure
    if isinstance(e, ast.UnaryOp):
        t, ty, pure = expr(env, e.operand)
        if isinstance(e.op, ast.Not):
            if ty != BOOL:
                fail(p, e, f"`not` of a value of type {ty}")
            return (f"(negb {t})" if pure else f"(notE {t})"), BOOL, pure
        if isinstance(e.op, ast.USub):
            if ty != INT:
                fail(p, e, f"unary minus of a value of type {ty}")
            out, pure2 = seq(env, [(t, pure)], lambda a: f"(Z.opp {a})")
            return out, INT, pure2
        fail(p, e, "unary operator " + ast.unparse(e)[:40])
    if isinstance(e, ast.BinOp):
        l, lty, lp = expr(env, e.left)
        r, rty, rp = expr(env, e.right)
        if lty == rty == INT and isinstance(e.op, (ast.Add, ast.Sub)):
            fn = "Z.add" if isinstance(e.op, ast.Add) else "Z.sub"
            out, pure = seq(env, [(l, lp), (r, rp)], lambda a, b: f"({fn} {a} {b})")
            return out, INT, pure
        if isinstance(e.op, ast.Add):
            ty = compatible(lty, rty)
            if ty is None or not ty.startswith("list ") or ty == LIST_ANY:
                fail(p, e, f"`+` on values of types {lty}, {rty}")
            out, pure = seq(env, [(l, lp), (r, rp)], lambda a, b: f"({a} ++ {b})")
            return out, ty, pure
        fail(p, e, "binary operator " + ast.unparse(e)[:60])
    if isinstance(e, ast.Compare):
        if len(e.ops) != 1:
            fail(p, e, "comparison chain " + ast.unparse(e))
        op, rhs = e.ops[0], e.comparators[0]
        l, lty, lp = expr(env, e.left)
        r, rty, rp = expr(env, rhs)
        if isinstance(op, (ast.In, ast.NotIn)):
            fn = {(BLK, SETBLK): "set_in", (INT, LINT): "int_in"}.get((lty, rty))
            if fn is None:
                fail(p, e, f"`in` on values of types {lty}, {rty}")
            neg = isinstance(op, ast.NotIn)
            out, pure = seq(env, [(l, lp), (r, rp)], lambda a, b: (f"(negb ({fn} {a} {b}))" if neg else f"({fn} {a} {b})"))
            return out, BOOL, pure
        if isinstance(op, (ast.Eq, ast.NotEq)) and lty == rty == INT:
            neg = isinstance(op, ast.NotEq)
            out, pure = seq(env, [(l, lp), (r, rp)], lambda a, b: (f"(negb (Z.eqb {a} {b}))" if neg else f"(Z.eqb {a} {b})"))
            return out, BOOL, pure
        if lty == rty == INT and isinstance(op, (ast.Lt, ast.LtE, ast.Gt, ast.GtE)):
            build = {
                ast.Lt: lambda a, b: f"(Z.ltb {a} {b})",
                ast.LtE: lambda a, b: f"(Z.leb {a} {b})",
                ast.Gt: lambda a, b: f"(Z.ltb {b} {a})",
                ast.GtE: lambda a, b: f"(Z.leb {b} {a})",
            }[type(op)]
            out, pure = seq(env, [(l, lp), (r, rp)], build)
            return out, BOOL, pure
        fail(p, e, f"comparison {ast.unparse(e)[:60]} of values of types {lty}, {rty}")
    if isinstance(e, ast.List):
        if not e.elts:
            return "[]", LIST_ANY, True
        parts = [expr(env, x) for x in e.elts]
        tys = {ty for _, ty, _ in parts}
        if len(tys) != 1 or next(iter(tys)) in (LIST_ANY, FUNC, GDICT):
            fail(p, e, "list literal " + ast.unparse(e)[:60] + " with elements of types " + ", ".join(ty for _, ty, _ in parts))
        out, pure = seq(env, [(t, pu) for t, _, pu in parts], lambda *a: "[" + "; ".join(a) + "]")
        return out, tlist(parts[0][1]), pure
    if isinstance(e, ast.ListComp):
        # [x for x in l if c]
        if len(e.generators) != 1:
            fail(p, e, "list comprehension " + ast.unparse(e)[:60])
        g = e.generators[0]
        if g.is_async or not isinstance(g.target, ast.Name) or not isinstance(e.elt, ast.Name) or e.elt.id != g.target.id or not g.ifs:
            fail(p, e, "list comprehension " + ast.unparse(e)[:60] + " (expected: [x for x in l if c])")
        x = g.target.id
        check_name(env, x, e)
        if x in env.vars:
            fail(p, e, f"comprehension variable {x} shadows a variable")
        l, lty, lp = expr(env, g.iter)
        if not lty.startswith("list ") or lty == LIST_ANY:
            fail(p, e, f"comprehension over a value of type {lty}")
        cenv = env.child(**{x: lty[len("list "):]})
        conds = []
        for c in g.ifs:
            ct, cty, cp = expr(cenv, c)
            if cty != BOOL:
                fail(p, c, f"comprehension condition of type {cty}")
            conds.append(as_monadic(ct, cp))
        cond = conds[-1]
        for c in reversed(conds[:-1]):
            cond = f"(andE {c} {cond})"
        out, _ = seq(env, [(l, lp)], lambda a: f"(filterE (fun {x} => {cond}) {a})", monadic_result=True)
        return out, lty, False
    if isinstance(e, ast.Call):
        return call(env, e)
    fail(p, e, "expression " + ast.unparse(e)[:60])


def key_arg(env, e, what):
    if not isinstance(e, ast.Name) or env.vars.get(e.id) != KEY:
        fail(env.path, e, f"the key argument of {what} is not a key variable: " + ast.unparse(e)[:40])
    return e.id


def call(env, e):
    p = env.path
    if e.keywords:
        fail(p, e, "keyword arguments " + ast.unparse(e)[:60])
    if is_self_call(e):
        if not env.has_self or "self" in env.vars:
            fail(p, e, "self is not the analysis object here")
        m = e.func.attr
        if m in ("_universal_set", "_null_set", "_union", "_intersection"):
            coq, n = DOMAIN_METHODS[m]
            if len(e.args) != n + 1:
                fail(p, e, f"self.{m} with {len(e.args)} arguments")
            k = key_arg(env, e.args[0], "self." + m)
            parts = [expr(env, a) for a in e.args[1:]]
            for (_, ty, _), a in zip(parts, e.args[1:]):
                if ty != DOM:
                    fail(p, a, f"argument of self.{m} of type {ty}")
            if n == 0:
                return f"({coq} {k})", DOM, True
            out, pure = seq(env, [(t, pu) for t, _, pu in parts], lambda *a: f"({coq} {k} " + " ".join(a) + ")")
            return out, DOM, pure
        if m == "_postorder":
            if len(e.args) != 1:
                fail(p, e, f"self.{m} with {len(e.args)} arguments")
            b, bty, bp = expr(env, e.args[0])
            if bty != BLK:
                fail(p, e, f"self._postorder of a value of type {bty}")
            out, _ = seq(env, [(b, bp)], lambda a: f"(postorder_gen pfuel {a})", monadic_result=True)
            return out, LBLK, False
        fail(p, e, "method call " + ast.unparse(e)[:60] + " (only accepted as a statement)" * (m in CALLED))
    # self._function.subroutines.values()
    if isinstance(e.func, ast.Attribute) and e.func.attr == "values" and isinstance(e.func.value, ast.Attribute) and e.func.value.attr == "subroutines" and not e.args:
        _, fty, _ = expr(env, e.func.value.value)
        if fty != FUNC:
            fail(p, e, f".subroutines of a value of type {fty}")
        return "(meth_subroutines_values f)", LSUB, True
    if not isinstance(e.func, ast.Name):
        fail(p, e, "call " + ast.unparse(e)[:60])
    fn = e.func.id
    if fn in env.vars:
        fail(p, e, f"call of the local variable {fn}")
    if env.closure and fn == env.closure["name"]:
        fail(p, e, f"{fn}(..) is only accepted as a statement")
    if fn == "range":
        builtin(env, e, fn)
        parts = [expr(env, a) for a in e.args]
        if len(parts) not in (1, 2) or any(ty != INT for _, ty, _ in parts):
            fail(p, e, "range " + ast.unparse(e)[:60])
        if len(parts) == 1:
            parts = [("0%Z", INT, True)] + parts
        out, pure = seq(env, [(t, pu) for t, _, pu in parts], lambda a, b: f"(py_range {a} {b})")
        return out, LINT, pure
    if fn == "list":
        # list(l): a copy; lists are immutable values here
        builtin(env, e, fn)
        if len(e.args) != 1:
            fail(p, e, "list " + ast.unparse(e)[:60])
        t, ty, pure = expr(env, e.args[0])
        if not ty.startswith("list ") or ty == LIST_ANY:
            fail(p, e, f"list(..) of a value of type {ty}")
        return t, ty, pure
    if fn in KEY_HELPERS:
        need_origin(env, e, fn, {KH_MODULE + "." + fn})
        parts = [expr(env, a) for a in e.args]
        if [ty for _, ty, _ in parts] != [INT, KEY]:
            fail(p, e, f"{fn} with arguments of types " + ", ".join(ty for _, ty, _ in parts))
        out, pure = seq(env, [(t, pu) for t, _, pu in parts], lambda a, b: f"({fn} {a} {b})")
        return out, KEY, pure
    if fn in TG.GRAPH_FUNCS:
        need_origin(env, e, fn, {UA_MODULE + "." + fn})
        g, atys, rty = TG.GRAPH_FUNCS[fn]
        if len(e.args) != len(atys):
            fail(p, e, f"{fn} with {len(e.args)} arguments")
        parts = [expr(env, a) for a in e.args]
        for (_, ty, _), a, aty in zip(parts, e.args, atys):
            if ty != aty:
                fail(p, a, f"argument of {fn} of type {ty}, expected {aty}")
        rest = [(t, pu) for (t, ty, pu) in parts if ty != FUNC]
        out, _ = seq(env, rest, lambda *a: f"({g} f " + " ".join(a) + ")", monadic_result=True)
        return out, rty, False
    fail(p, e, "call " + ast.unparse(e)[:60])


# ----------------------------------------------------------------------------- logging
def is_log_call(st):
    v = st.value if isinstance(st, ast.Expr) else None
    return (
        isinstance(v, ast.Call)
        and isinstance(v.func, ast.Attribute)
        and v.func.attr == "debug"
        and isinstance(v.func.value, ast.Name)
        and v.func.value.id == "logger_txn_ctx"
    )


def logging_only(st):
    """a statement that does nothing but logging: logger_txn_ctx.debug(..), or a for / if over such statements"""
    if is_log_call(st):
        return True
    if isinstance(st, ast.For) and not st.orelse:
        return bool(st.body) and all(logging_only(s) for s in st.body)
    if isinstance(st, ast.If) and not st.orelse:
        return bool(st.body) and all(logging_only(s) for s in st.body)
    return False


GUARD = "debug_key in self.BASE_KEYS"
LOG_READS = ("self._block_contexts[debug_key][block]", "self._path_contexts[debug_key]")


def check_logging(env, st, guarded=False, bound=()):
    """the skipped statement evaluates nothing that can raise or mutate the analysis state"""
    p = env.path
    if isinstance(st, ast.For):
        it = ast.unparse(st.iter)
        if not isinstance(st.target, ast.Name) or it not in ("debug_keys", "self._function.blocks"):
            fail(p, st, "logging loop " + ast.unparse(st)[:60])
        if it == "debug_keys":
            if env.imports.get("debug_keys") != "<local>" or "debug_keys" in env.vars or st.target.id != "debug_key":
                fail(p, st, "logging loop over debug_keys")
        elif st.target.id != "block":
            fail(p, st, "logging loop over the blocks")
        if st.target.id in env.vars:
            fail(p, st, f"logging loop re-binds {st.target.id}")
        for s in st.body:
            check_logging(env, s, guarded, bound + (st.target.id,))
        return
    if isinstance(st, ast.If):
        if ast.unparse(st.test) != GUARD or "debug_key" not in bound:
            fail(p, st, "condition of a logging statement: " + ast.unparse(st.test)[:60])
        for s in st.body:
            check_logging(env, s, True, bound)
        return
    c = st.value
    if env.imports.get("logger_txn_ctx") != "<local>" or "logger_txn_ctx" in env.vars or c.keywords or len(c.args) != 1:
        fail(p, st, "logging call " + ast.unparse(st)[:60])
    a = c.args[0]
    if isinstance(a, ast.Constant) and isinstance(a.value, str):
        return
    if not isinstance(a, ast.JoinedStr):
        fail(p, st, "logging call " + ast.unparse(st)[:60])
    for v in a.values:
        if isinstance(v, ast.Constant):
            continue
        if not isinstance(v, ast.FormattedValue) or v.format_spec is not None or v.conversion != -1:
            fail(p, st, "logging call " + ast.unparse(st)[:60])
        txt = ast.unparse(v.value)
        if txt in ("debug_key", "block", "block.idx"):
            if txt.split(".")[0] not in bound and txt.split(".")[0] not in env.vars:
                fail(p, st, f"logging of the unbound name {txt}")
            continue
        if txt in LOG_READS and guarded and all(n in bound or n in env.vars for n in ("debug_key", "block") if n in txt):
            continue
        fail(p, st, f"logging evaluates {txt}" + ("" if guarded else f" outside `if {GUARD}`"))


# ----------------------------------------------------------------------------- statements
FORBIDDEN = (
    ast.Try, ast.With, ast.AsyncFunctionDef, ast.Lambda, ast.NamedExpr, ast.Delete, ast.Global, ast.Nonlocal, ast.GeneratorExp, ast.SetComp,
    ast.DictComp, ast.Yield, ast.YieldFrom, ast.Raise, ast.Break, ast.Await, ast.ClassDef, ast.Import, ast.ImportFrom, ast.Starred, ast.Assert,
    ast.While, ast.IfExp, ast.Dict, ast.Set, ast.Tuple,
)  # fmt: skip


def check_name(env, name, node):
    if name in RESERVED or name.startswith("tmp"):
        fail(env.path, node, f"variable name {name} is reserved by the translator")
    if not name.isidentifier() or not name.isascii():
        fail(env.path, node, f"variable name {name}")


def method_stmt(st):
    """`x.m(e)` as a statement on a local variable -> (x, m, e) else None"""
    v = st.value if isinstance(st, ast.Expr) else None
    if isinstance(v, ast.Call) and isinstance(v.func, ast.Attribute) and isinstance(v.func.value, ast.Name) and v.func.value.id != "self" and len(v.args) == 1 and not v.keywords:
        return v.func.value.id, v.func.attr, v.args[0]
    return None


def mutated_by(env, st):
    """names (re)bound / objects mutated by ONE statement (recursively), in order of first occurrence"""
    out = []

    def add(n):
        if n not in out:
            out.append(n)

    def visit(s):
        if logging_only(s):
            return
        if isinstance(s, (ast.Assign, ast.AnnAssign, ast.AugAssign)):
            tgs = s.targets if isinstance(s, ast.Assign) else [s.target]
            if len(tgs) != 1:
                fail(env.path, s, "chained assignment")
            tg = tgs[0]
            if isinstance(tg, ast.Name):
                add(tg.id)
            elif is_ctx_cell(tg) is not None:
                add(SELF_CTX)
            else:
                fail(env.path, s, "assignment target " + ast.unparse(tg)[:60])
        elif isinstance(s, ast.Expr):
            m = method_stmt(s)
            if m is not None and m[1] in ("append", "add"):
                add(m[0])
            elif is_self_call(s.value) and s.value.func.attr in CALLED:
                if s.value.func.attr != "_path_level_constraints":
                    add(SELF_CTX)
            elif isinstance(s.value, ast.Call) and isinstance(s.value.func, ast.Name) and env.closure and s.value.func.id == env.closure["name"]:
                for n in env.closure["state"]:
                    add(n)
            elif is_self_call(s.value, "_store_results"):
                pass
            else:
                fail(env.path, s, "expression statement " + ast.unparse(s)[:60])
        elif isinstance(s, ast.If):
            for x in s.body + s.orelse:
                visit(x)
        elif isinstance(s, ast.For):
            if s.orelse:
                fail(env.path, s, "for-else")
            for x in s.body:
                visit(x)
        elif isinstance(s, (ast.Return, ast.Pass, ast.Continue, ast.FunctionDef)):
            pass
        else:
            fail(env.path, s, "statement " + ast.unparse(s)[:60])

    visit(st)
    return out


def loop_locals(st):
    """names bound inside a for statement (loop variables, assignments, comprehension variables)"""
    out = set()
    for node in ast.walk(st):
        if isinstance(node, ast.Name) and isinstance(node.ctx, ast.Store):
            out.add(node.id)
    return out


def loads(node, name):
    return any(isinstance(n, ast.Name) and n.id == name and isinstance(n.ctx, ast.Load) for n in ast.walk(node))


def read_before_bind(name, stmts):
    """may `name` be read by the statements before they bind it themselves? (conservative: True when in doubt)"""
    for s in stmts:
        if isinstance(s, ast.For):
            if loads(s.iter, name):
                return True
            if isinstance(s.target, ast.Name) and s.target.id == name:
                return False  # re-bound by this loop; what follows is checked when this loop is translated
            if read_before_bind(name, s.body):
                return True
        elif isinstance(s, ast.Assign) and len(s.targets) == 1 and isinstance(s.targets[0], ast.Name) and s.targets[0].id == name:
            return loads(s.value, name)
        elif loads(s, name):
            return True
    return False


def names_loaded(stmts):
    out = set()
    for s in stmts:
        for node in ast.walk(s):
            if isinstance(node, ast.Name) and isinstance(node.ctx, ast.Load):
                out.add(node.id)
    return out


def bind_var(env, name, node, t, ty, pure, rest_of):
    """`name = <t>`; a re-assignment must keep the type of the variable"""
    if name != SELF_CTX:
        check_name(env, name, node)
    if ty in (FUNC, LIST_ANY, UNIT):
        fail(env.path, node, f"assignment of a value of type {ty} to {name}")
    if name in env.vars and env.vars[name] != ty:
        fail(env.path, node, f"re-assignment of {name} changes its type from {env.vars[name]} to {ty}")
    rest = rest_of(env.child(**{name: ty}))
    if pure:
        return f"(let {name} := {t} in\n{rest})"
    return f"(bind {t} (fun {name} =>\n{rest}))"


def slice_at(env, stmts):
    """stmts[0] starts a slice of run_analysis -> (variable, number of statements, generated name) else None"""
    if env.slices is None or env.depth:
        return None
    st = stmts[0]
    if not (isinstance(st, ast.Assign) and len(st.targets) == 1 and isinstance(st.targets[0], ast.Name) and isinstance(st.value, ast.List)):
        return None
    v = st.targets[0].id
    if v not in SLICE_NAMES and v != "worklist":
        return None
    n = 1
    while n < len(stmts) and isinstance(stmts[n], ast.For) and not logging_only(stmts[n]):
        bound = loop_locals(stmts[n])
        if any(m != v and m not in bound for m in mutated_by(env, stmts[n])) or v in {x.id for x in ast.walk(stmts[n].target) if isinstance(x, ast.Name)}:
            break
        n += 1
    if n == 1:
        return None
    if v == "worklist":
        rest = [s for s in stmts[n:] if not logging_only(s)]
        c = rest[0].value if rest and isinstance(rest[0], ast.Expr) else None
        if not (is_self_call(c) and c.func.attr in WORKLIST_SLICES and len(c.args) == 2 and isinstance(c.args[1], ast.Name) and c.args[1].id == v):
            fail(env.path, st, "the list `worklist` is built but not passed to forward_analyis / backward_analysis by the next statement")
        return v, n, WORKLIST_SLICES[c.func.attr]
    return v, n, SLICE_NAMES[v]


def block(env, stmts, fall):
    """stmts: statement list; fall: function env -> term for what follows the block.  Returns a term of type py R."""
    p = env.path
    stmts = strip_doc(stmts)
    while stmts and logging_only(stmts[0]):
        check_logging(env, stmts[0])
        stmts = stmts[1:]
    if not stmts:
        return fall(env)
    st, rest = stmts[0], stmts[1:]
    rest_of = lambda env2: block(env2, rest, fall)  # noqa: E731
    for node in ast.walk(st) if not isinstance(st, ast.FunctionDef) else []:
        if isinstance(node, FORBIDDEN) or (isinstance(node, ast.FunctionDef) and node is not st):
            fail(p, node, "statement/expression not accepted: " + type(node).__name__)
    sl = slice_at(env, stmts)
    if sl is not None:
        return slice_term(env, stmts, sl, fall)
    if isinstance(st, ast.Pass):
        return rest_of(env)
    if isinstance(st, ast.Continue):
        if rest:
            fail(p, rest[0], "statement after continue")
        if env.on_continue is None:
            fail(p, st, "continue outside a loop")
        return env.on_continue(env)
    if isinstance(st, ast.Return):
        fail(p, st, "return " + ast.unparse(st)[:40] + " (only accepted as the last statement of _postorder)")
    if isinstance(st, ast.AnnAssign):
        # x: Set['BasicBlock'] = set()  /  x: List['BasicBlock'] = []
        ty = ANNOTATIONS.get(ast.unparse(st.annotation))
        if not isinstance(st.target, ast.Name) or st.value is None or ty is None or st.target.id in env.vars or env.depth:
            fail(p, st, "annotated assignment " + ast.unparse(st)[:60])
        v = st.value
        if ty == SETBLK and isinstance(v, ast.Call) and isinstance(v.func, ast.Name) and v.func.id == "set" and not v.args and not v.keywords:
            builtin(env, st, "set")
            return bind_var(env, st.target.id, st, "set_empty", SETBLK, True, rest_of)
        if ty.startswith("list ") and isinstance(v, ast.List) and not v.elts:
            return bind_var(env, st.target.id, st, "[]", ty, True, rest_of)
        fail(p, st, "annotated assignment " + ast.unparse(st)[:60])
    if isinstance(st, ast.Assign):
        if len(st.targets) != 1:
            fail(p, st, "chained assignment")
        tg = st.targets[0]
        cell = is_ctx_cell(tg)
        if cell is not None:
            # self._block_contexts[k][b] = v: the value first, then the target (Python's order)
            if SELF_CTX not in env.vars or not env.has_self:
                fail(p, st, "self._block_contexts is not available here")
            v, vty, vp = expr(env, st.value)
            k, kty, kp = expr(env, cell[0])
            b, bty, bp = expr(env, cell[1])
            if vty != DOM or kty != KEY or bty != BLK or not kp or not bp:
                fail(p, st, f"store self._block_contexts[{kty}][{bty}] = {vty}")
            out, pure = seq(env, [(v, vp)], lambda a: f"(ctx_store {SELF_CTX} {k} {b} {a})")
            return bind_var(env, SELF_CTX, st, out, GDICT, pure, rest_of)
        if not isinstance(tg, ast.Name):
            fail(p, st, "assignment target " + ast.unparse(tg)[:60])
        t, ty, pure = expr(env, st.value)
        if ty == LIST_ANY:
            if tg.id not in env.vars or not env.vars[tg.id].startswith("list "):
                hint = first_use_type(tg.id, rest)
                if hint is None:
                    fail(p, st, f"the element type of the empty list assigned to {tg.id} is not determined by the next statements")
                ty = hint
            else:
                ty = env.vars[tg.id]
        return bind_var(env, tg.id, st, t, ty, pure, rest_of)
    if isinstance(st, ast.AugAssign):
        if not isinstance(st.op, ast.Add) or not isinstance(st.target, ast.Name):
            fail(p, st, "augmented assignment " + ast.unparse(st)[:60])
        x = st.target.id
        xty = env.vars.get(x, "")
        if not xty.startswith("list ") or x == SELF_CTX:
            fail(p, st, f"`+=` on {x} of type {xty or '?'}")
        t, ty, pure = expr(env, st.value)
        if compatible(xty, ty) != xty:
            fail(p, st, f"`+=` of a value of type {ty} to {x} of type {xty}")
        out, pure2 = seq(env, [(t, pure)], lambda a: f"({x} ++ {a})")
        return bind_var(env, x, st, out, xty, pure2, rest_of)
    if isinstance(st, ast.Expr):
        m = method_stmt(st)
        if m is not None:
            x, meth, arg = m
            xty = env.vars.get(x)
            t, ty, pure = expr(env, arg)
            if meth == "append" and xty is not None and xty.startswith("list ") and xty == tlist(ty):
                out, pure2 = seq(env, [(t, pure)], lambda a: f"({x} ++ [{a}])")
                return bind_var(env, x, st, out, xty, pure2, rest_of)
            if meth == "add" and xty == SETBLK and ty == BLK:
                out, pure2 = seq(env, [(t, pure)], lambda a: f"(set_add {x} {a})")
                return bind_var(env, x, st, out, xty, pure2, rest_of)
            fail(p, st, f".{meth} of a value of type {ty} on {x} of type {xty}")
        c = st.value
        if isinstance(c, ast.Call) and isinstance(c.func, ast.Name) and env.closure and c.func.id == env.closure["name"]:
            # dfs(e): the closure variables are threaded
            cl = env.closure
            if c.keywords or len(c.args) != 1 or c.func.id in env.vars:
                fail(p, st, "call " + ast.unparse(c)[:60])
            t, ty, pure = expr(env, c.args[0])
            if ty != cl["param"][1]:
                fail(p, st, f"{cl['name']} of a value of type {ty}")
            for n in cl["state"]:
                if env.vars.get(n) != cl["types"][n]:
                    fail(p, st, f"the variable {n} of the enclosing function is not bound at the call of {cl['name']}")
            out, _ = seq(env, [(t, pure)], lambda a: f"({cl['gen']} fuel {a} " + " ".join(cl["state"]) + ")", monadic_result=True)
            tmp = env.fresh()
            after = rest_of(env)
            for n, pr in reversed(list(zip(cl["state"], projections(len(cl["state"]), tmp)))):
                after = f"(let {n} := {pr} in\n{after})"
            return f"(bind {out} (fun {tmp} =>\n{after}))"
        if is_self_call(c) and env.has_self and "self" not in env.vars:
            return self_stmt(env, st, c, rest, rest_of)
        fail(p, st, "expression statement " + ast.unparse(st)[:60])
    if isinstance(st, ast.If):
        t, ty, pure = expr(env, st.test)
        if ty != BOOL:
            fail(p, st, f"if-condition of type {ty}")
        cont = lambda env2: block(env2, rest, fall)  # noqa: E731
        outer = dict(env.vars)

        def join(env2):
            # variables first bound in a branch are not visible after the if
            env3 = env2.child()
            env3.vars = {n: ty2 for n, ty2 in env2.vars.items() if n in outer}
            return cont(env3)

        then_t = block(env, st.body, join)
        else_t = block(env, st.orelse, join) if st.orelse else cont(env)
        if pure:
            return f"(if {t}\n then\n{indent(then_t)}\n else\n{indent(else_t)})"
        return f"(ifE {t}\n{indent(then_t)}\n{indent(else_t)})"
    if isinstance(st, ast.For):
        return for_term(env, st, rest, fall)
    if isinstance(st, ast.FunctionDef):
        return closure_def(env, st, rest, fall)
    fail(p, st, "statement " + ast.unparse(st)[:60])


def first_use_type(name, rest):
    """the element type of `name = []` from the first statement that extends it"""
    for s in rest:
        for node in ast.walk(s):
            if isinstance(node, ast.Expr):
                m = method_stmt(node)
                if m and m[0] == name and m[1] == "append" and isinstance(m[2], ast.Call) and isinstance(m[2].func, ast.Name) and m[2].func.id in KEY_HELPERS:
                    return LKEY
            if isinstance(node, ast.AugAssign) and isinstance(node.target, ast.Name) and node.target.id == name:
                v = node.value
                if isinstance(v, ast.ListComp):
                    v = v.generators[0].iter
                if isinstance(v, ast.Subscript):
                    v = v.value
                if isinstance(v, ast.Name) and v.id == "l":
                    return LBLK
    return None


def self_stmt(env, st, c, rest, rest_of):
    """a statement `self.m(..)` of run_analysis"""
    p = env.path
    m = c.func.attr
    if c.keywords:
        fail(p, st, "keyword arguments " + ast.unparse(c)[:60])
    if m == "_store_results":
        # the abstract method that reads self._block_contexts: the translated function returns that dictionary
        if rest or c.args or not env.fuel_stmts or env.depth:
            fail(p, st, "self._store_results() must be the last statement of run_analysis")
        return f"(ret (Some {SELF_CTX}))"
    if m not in CALLED or SELF_CTX not in env.vars:
        fail(p, st, "method call " + ast.unparse(c)[:60])
    if len(c.args) != 2:
        fail(p, st, f"self.{m} with {len(c.args)} arguments")
    a, aty, ap = expr(env, c.args[0])
    b, bty, bp = expr(env, c.args[1])
    if m in ("forward_analyis", "backward_analysis"):
        if not env.fuel_stmts or env.depth:
            fail(p, st, f"self.{m} in a loop")
        if aty != LKEY or bty != LBLK:
            fail(p, st, f"arguments of self.{m} of types {aty}, {bty}")
        out, _ = seq(env, [(a, ap), (b, bp)], lambda x, y: f"({CALLED[m]} fuel {x} {y} {SELF_CTX})", monadic_result=True)
        tmp = env.fresh()
        after = rest_of(env)
        return f"(bind {out} (fun {tmp} =>\n(match {tmp} with\n | None => (ret None) (* the iteration budget is exhausted *)\n | Some {SELF_CTX} =>\n{indent(after)}\n end)))"
    if aty != LKEY or bty != BLK:
        fail(p, st, f"arguments of self.{m} of types {aty}, {bty}")
    if m == "_path_level_constraints":
        out, _ = seq(env, [(a, ap), (b, bp)], lambda x, y: f"({CALLED[m]} afuel {x} {y})", monadic_result=True)
        tmp = env.fresh()
        return f"(bind {out} (fun {tmp} =>\n{rest_of(env)}))"
    extra = "afuel " if m == "_block_level_constraints" else ""
    out, _ = seq(env, [(a, ap), (b, bp)], lambda x, y: f"({CALLED[m]} {extra}{x} {y} {SELF_CTX})", monadic_result=True)
    return bind_var(env, SELF_CTX, st, out, GDICT, False, rest_of)


def for_term(env, st, rest, fall):
    p = env.path
    if st.orelse or getattr(st, "type_comment", None) or env.depth >= 3:
        fail(p, st, "for-else / loops nested too deeply")
    if not isinstance(st.target, ast.Name):
        fail(p, st, "loop header " + ast.unparse(st)[:60])
    x = st.target.id
    check_name(env, x, st)
    if x in env.vars:
        fail(p, st, f"loop variable {x} shadows a variable")
    it, lty, ipure = expr(env, st.iter)  # the iterated list is evaluated once, before the loop
    if not lty.startswith("list ") or lty == LIST_ANY:
        fail(p, st, f"iteration over a value of type {lty}")
    body = strip_doc(st.body)
    assigned = mutated_by(env, st)
    if x in assigned:
        fail(p, st, "loop body assigns the loop variable")
    state = [n for n in assigned if n in env.vars]
    if not state:
        fail(p, st, "loop without carried variable")
    if isinstance(st.iter, ast.Name) and st.iter.id in state:
        fail(p, st, "loop body mutates the list it iterates over")
    # variables bound in the loop are not visible after it
    leaked = {n for n in loop_locals(st) - set(env.vars) if read_before_bind(n, rest)}
    if leaked:
        fail(p, st, f"variables bound in the loop are used after it: {sorted(leaked)}")
    stys = [env.vars[n] for n in state]
    benv = env.child(**{x: lty[len("list "):]})
    benv.depth = env.depth + 1

    def body_end(env2):
        for n, ty in zip(state, stys):
            if env2.vars[n] != ty:
                fail(p, st, f"loop body changes the type of {n} from {ty} to {env2.vars[n]}")
        return f"(ret {tuple_term(state)})"

    benv.on_continue = body_end
    sfx = "" if env.depth == 0 else str(env.depth + 1)
    stv, accv = "st" + sfx, "acc" + sfx
    lst = it if ipure else env.fresh()
    body_t = block(benv, body, body_end)
    for n, pr in reversed(list(zip(state, projections(len(state), stv)))):
        body_t = f"(let {n} := {pr} in\n{body_t})"
    loop = f"(fold_left (fun {accv} {x} => (bind {accv} (fun {stv} =>\n{indent(body_t, 2)})))\n  {lst} (ret {tuple_term(state)}))"
    tmp = env.fresh()
    after = block(env, rest, fall)
    for n, pr in reversed(list(zip(state, projections(len(state), tmp)))):
        after = f"(let {n} := {pr} in\n{after})"
    out = f"(bind {loop} (fun {tmp} =>\n{after}))"
    if not ipure:
        out = f"(bind {it} (fun {lst} =>\n{out}))"
    return out


def closure_def(env, fn, rest, fall):
    """the nested recursive function of _postorder: a Fixpoint over the recursion budget (env.aux)"""
    p = env.path
    if env.closure is not None or env.depth or env.in_closure or env.slices is not None:
        fail(p, fn, "nested function definition")
    TG.signature(p, fn, [("block", "'BasicBlock'")], "None")
    name = fn.name
    check_name(env, name, fn)
    if name in env.vars:
        fail(p, fn, f"{name} shadows a variable")
    # the function is bound once and only called
    for s in rest:
        for node in ast.walk(s):
            if isinstance(node, ast.Name) and node.id == name and not isinstance(node.ctx, ast.Load):
                fail(p, node, f"{name} is re-bound")
    for node in ast.walk(fn):
        if isinstance(node, FORBIDDEN) or (isinstance(node, (ast.FunctionDef, ast.Return)) and node is not fn):
            fail(p, node, "statement/expression not accepted in the nested function: " + type(node).__name__)
    cl = {"name": name, "gen": "postorder_dfs_gen", "param": ("block", BLK), "state": [], "types": {}}
    probe = env.child()
    probe.closure = dict(cl)
    probe.closure["state"] = []
    muts = []
    for s in fn.body:
        for n in mutated_by(probe, s):
            if n not in muts:
                muts.append(n)
    state = [n for n in env.vars if n in muts]  # in order of binding in the enclosing function
    local = [n for n in muts if n not in env.vars]
    if not state:
        fail(p, fn, "the nested function mutates no variable of the enclosing function")
    for node in ast.walk(fn):
        if isinstance(node, (ast.Assign, ast.AugAssign, ast.AnnAssign)):
            for tg in node.targets if isinstance(node, ast.Assign) else [node.target]:
                if isinstance(tg, ast.Name) and tg.id in env.vars:
                    fail(p, node, f"the nested function assigns {tg.id}: a local variable that shadows the one of the enclosing function")
    del local
    cl["state"] = state
    cl["types"] = {n: env.vars[n] for n in state}
    benv = env.child(block=BLK)
    benv.closure = cl
    benv.in_closure = True
    # the free variables of the body are the parameter and the mutated closure variables only
    free = names_loaded(fn.body) - {"block", name} - set(state) - loop_locals(fn)
    if free:
        fail(p, fn, f"the nested function reads {sorted(free)}")
    benv.vars = {"block": BLK, **{n: env.vars[n] for n in state}}
    body_t = block(benv, fn.body, lambda env2: f"(ret {tuple_term(state)})")
    ptxt = " ".join(f"({n} : {coq_type(env.vars[n])})" for n in state)
    rty = " * ".join(atom(env.vars[n]) for n in state)
    env.aux.append(
        (
            fn.lineno,
            f"Fixpoint {cl['gen']} (fuel : nat) (block : nat) {ptxt} {{struct fuel}} : py ({rty}) :=\n"
            f"  match fuel with\n"
            f"  | O => None (* the recursion budget is exhausted: RecursionError *)\n"
            f"  | S fuel =>\n{indent(body_t, 6)}\n"
            f"  end.",
        )
    )
    env2 = env.child()
    env2.closure = cl
    return block(env2, rest, fall)


def slice_term(env, stmts, sl, fall):
    """emit (once) the definition of a slice of run_analysis and call it"""
    p = env.path
    v, n, gen = sl
    seg, rest = stmts[:n], stmts[n:]
    dump = "\n".join(ast.dump(s) for s in seg)
    bound = set()
    for s in seg:
        bound |= loop_locals(s)
    params = [x for x in env.vars if x in names_loaded(seg) and x not in bound and x != SELF_CTX]
    if SELF_CTX in mutated_by(env, ast.If(test=ast.Constant(value=True), body=seg, orelse=[])):
        fail(p, seg[0], f"the construction of {v} mutates self._block_contexts")
    if gen in env.slices:
        if env.slices[gen]["dump"] != dump or env.slices[gen]["params"] != [(x, env.vars[x]) for x in params]:
            fail(p, seg[0], f"the constructions of `{v}` ({gen}) in run_analysis differ from each other (first one at line {env.slices[gen]['line']})")
        ty = env.slices[gen]["type"]
    else:
        senv = Env(p, env.imports, env.has_self)
        senv.vars = {x: env.vars[x] for x in params}
        senv.aux = env.aux
        result = {}

        def done(env2):
            result["type"] = env2.vars[v]
            return f"(ret {v})"

        body_t = pin(block(senv, seg, done))
        ty = result["type"]
        fuel = "(pfuel : nat) " if "postorder_gen pfuel" in body_t else ""
        ptxt = "".join(f"({x} : {coq_type(env.vars[x])}) " for x in params)
        env.slices[gen] = {
            "dump": dump,
            "params": [(x, env.vars[x]) for x in params],
            "type": ty,
            "line": seg[0].lineno,
            "fuel": bool(fuel),
            "text": f"Definition {gen} {fuel}{ptxt}: py ({coq_type(ty)}) :=\n{indent(body_t, 2)}.",
            "var": v,
        }
    info = env.slices[gen]
    callt = f"({gen} " + ("pfuel " if info["fuel"] else "") + " ".join(params) + ")"
    callt = callt.replace(" )", ")")
    return bind_var(env, v, seg[0], callt, ty, False, lambda env2: block(env2, rest, fall))


# ----------------------------------------------------------------------------- source checks
def member_text(node):
    return TG.member_text(node)


def check_fingerprints():
    trees = {}
    for rel, cname, mname, text in FINGERPRINTS:
        path = os.path.join(T, rel)
        if rel not in trees:
            trees[rel] = parse(path)
        if cname is None:
            node = find_toplevel(trees[rel], mname, path)
        else:
            node = TG.member(path, find_class(trees[rel], cname, path), mname)
        got = member_text(node)
        if text.startswith("sha256:"):
            same = hashlib.sha256(got.encode()).hexdigest() == text[len("sha256:"):]
        else:
            same = same_text(ast.parse(got), text)
        if not same:
            shown = got if len(got) < 700 else got[:700] + "\n..."
            raise TranslateError(
                f"translator: {path}: {(cname + '.') if cname else ''}{mname} changed (its entry in the glue table of Gen/RunGen.v is no longer justified):\n{shown}"
            )
    # the f-strings of the key helpers
    kp = os.path.join(T, KH_REL)
    ktree = parse(kp)
    for name in KEY_HELPERS:
        got = member_text(find_toplevel(ktree, name, kp))
        if not same_text(ast.parse(got), KEY_HELPER_TEXT[name]):
            raise TranslateError(f"translator: {kp}: {name} changed (the glue function of Gen/RunGen.v is no longer justified):\n{got}")
    TG.check_single_binding(kp, ktree, list(KEY_HELPERS))
    # MAX_GROUP_SIZE: one int literal (read into Gen/Tables.v by translate.py)
    ap = os.path.join(T, AC_REL)
    hits = [n for n in parse(ap).body if isinstance(n, ast.Assign) and any(isinstance(t, ast.Name) and t.id == "MAX_GROUP_SIZE" for t in n.targets)]
    if len(hits) != 1 or int_const(hits[0].value) is None or int_const(hits[0].value) <= 0:
        raise TranslateError(f"translator: {ap}: MAX_GROUP_SIZE must be assigned once, a positive int literal")


def check_class_attributes(path, tree, cls):
    """BASE_KEYS / KEYS_WITH_GTXN are class attributes, assigned in class bodies only; the module-level logging objects"""
    texts = [ast.unparse(s) for s in cls.body if isinstance(s, (ast.Assign, ast.AnnAssign))]
    for want in CLASS_STATEMENTS:
        if sum(1 for t in texts if same_text(ast.parse(t), want)) != 1:
            fail(path, cls, f"class {cls.name} no longer contains exactly once: {want}")
    mtexts = [ast.unparse(s) for s in tree.body if isinstance(s, (ast.Assign, ast.AnnAssign))]
    for want in MODULE_STATEMENTS:
        if sum(1 for t in mtexts if same_text(ast.parse(t), want)) != 1:
            raise TranslateError(f"translator: {path}: the module no longer contains exactly once: {want}")
    TG.check_single_binding(path, tree, ["logger_txn_ctx", "debug_keys", "MAX_GROUP_SIZE"] + list(KEY_HELPERS))
    tc = os.path.join(T, os.path.dirname(GEN_REL))
    for root, _, files in os.walk(tc):
        for fn in sorted(files):
            if fn.endswith(".py"):
                fp = os.path.join(root, fn)
                for node in ast.walk(parse(fp)):
                    tgs = node.targets if isinstance(node, (ast.Assign, ast.Delete)) else [node.target] if isinstance(node, (ast.AnnAssign, ast.AugAssign)) else []
                    for tg in tgs:
                        for n in ast.walk(tg):
                            if isinstance(n, ast.Attribute) and n.attr in ("BASE_KEYS", "KEYS_WITH_GTXN", "subroutines", "_transaction_contexts"):
                                fail(fp, node, f"assignment to the attribute .{n.attr}")
                    if isinstance(node, ast.Call) and isinstance(node.func, ast.Attribute) and isinstance(node.func.value, ast.Attribute) and node.func.value.attr in ("BASE_KEYS", "KEYS_WITH_GTXN") and node.func.attr in ("append", "extend", "insert", "remove", "pop", "clear", "sort", "reverse"):
                        fail(fp, node, f"the class attribute .{node.func.value.attr} is mutated")


def check_abstract(path, cls, name):
    fn = TG.find_method(path, cls, name)
    if [ast.unparse(d) for d in fn.decorator_list] != ["abstractmethod"] or strip_doc(fn.body):
        fail(path, fn, f"{name} is no longer an abstract method without body")


# ----------------------------------------------------------------------------- emission
# Section variables of the same type that could be written for each other in the Python source.  The discharge of a Coq
# Section generalises a definition over the variables it USES only: if a translated function used `inter` alone, a
# source that calls self._union instead would merely rename that parameter and every statement about the function would
# still hold.  A definition that uses one member of a group therefore takes the whole group (a dead `let`).
TWINS = [("univ", "null"), ("union", "inter"), ("BASE_KEYS", "KEYS_WITH_GTXN")]


def pin(term):
    import re

    toks = set(re.findall(r"[A-Za-z_][A-Za-z_0-9']*", term))
    for grp in TWINS:
        if toks & set(grp):
            term = f"(let _ := ({', '.join(grp)}) in (* takes the whole group of parameters *)\n{term})"
    return term


def emit_postorder(w, gp, cls, gbound):
    fn = TG.find_method(gp, cls, "_postorder")
    check_no_override("_postorder")
    TG.signature(gp, fn, [("entry", "'BasicBlock'")], "List['BasicBlock']", decorators=("staticmethod",))
    body = strip_doc(fn.body)
    if not body or not isinstance(body[-1], ast.Return) or not isinstance(body[-1].value, ast.Name):
        fail(gp, fn, "_postorder must end with `return <variable>`")
    rv = body[-1].value.id
    for node in ast.walk(fn):
        if isinstance(node, ast.Name) and node.id in ("entry", "self") and isinstance(node.ctx, (ast.Store, ast.Del)):
            fail(gp, node, f"{node.id} is re-bound")
    env = Env(gp, gbound, False)
    env.vars = {"entry": BLK}

    def done(env2):
        if env2.vars.get(rv) != LBLK:
            fail(gp, body[-1], f"return of a value of type {env2.vars.get(rv)}")
        return f"(ret {rv})"

    term = block(env, body[:-1], done)
    if len(env.aux) != 1:
        fail(gp, fn, "_postorder no longer contains the nested recursive function")
    line, fix = env.aux[0]
    w(f"  (* {GEN_REL}: DataflowTransactionContext._postorder (line {fn.lineno}), the nested function dfs (line {line});")
    w("     returns the final values of the variables of _postorder it mutates; f is the object graph the blocks live in *)")
    w(indent(fix, 2))
    w("")
    w(f"  (* {GEN_REL}: DataflowTransactionContext._postorder (line {fn.lineno}); fuel is the recursion budget of dfs *)")
    w(f"  Definition postorder_gen (fuel : nat) (entry : nat) : py (list nat) :=\n{indent(term, 4)}.")
    w("")


def emit_update(w, gp, cls, gbound):
    name = "_update_gtxn_constraints"
    fn = TG.find_method(gp, cls, name)
    check_no_override(name)
    TG.signature(gp, fn, [("self", None), ("keys_with_gtxn", "List[str]"), ("block", "'BasicBlock'")], "None")
    for node in ast.walk(fn):
        if isinstance(node, ast.Name) and node.id in ("self", "keys_with_gtxn", "block") and isinstance(node.ctx, (ast.Store, ast.Del)):
            fail(gp, node, f"{node.id} is re-bound")
    env = Env(gp, gbound, True)
    env.vars = {"keys_with_gtxn": LKEY, "block": BLK, SELF_CTX: GDICT}
    term = pin(block(env, fn.body, lambda env2: f"(ret {SELF_CTX})"))
    w(f"  (* {GEN_REL}: DataflowTransactionContext.{name} (line {fn.lineno}); returns the final state of self._block_contexts *)")
    w(f"  Definition update_gtxn_constraints_gen (keys_with_gtxn : list string) (block : nat) ({SELF_CTX} : gdict T) : py (gdict T) :=\n{indent(term, 4)}.")
    w("")


def emit_run(w, gp, cls, gbound):
    name = "run_analysis"
    fn = TG.find_method(gp, cls, name)
    check_no_override(name)
    TG.signature(gp, fn, [("self", None)], "None")
    for node in ast.walk(fn):
        if isinstance(node, ast.Name) and node.id == "self" and isinstance(node.ctx, (ast.Store, ast.Del)):
            fail(gp, node, "self is re-bound")
        if isinstance(node, ast.Return):
            fail(gp, node, "return in run_analysis")
    body = strip_doc(fn.body)
    last = body[-1] if body else None
    if not (isinstance(last, ast.Expr) and is_self_call(last.value, "_store_results")):
        fail(gp, fn, "run_analysis no longer ends with self._store_results()")
    env = Env(gp, gbound, True)
    env.vars = {SELF_CTX: GDICT}
    env.fuel_stmts = True
    env.slices = {}
    term = block(env, body, lambda env2: fail(gp, fn, "control reaches the end of run_analysis without self._store_results()"))
    want = set(SLICE_NAMES.values()) | set(WORKLIST_SLICES.values())
    if set(env.slices) != want:
        fail(gp, fn, f"run_analysis no longer contains the constructions {sorted(want - set(env.slices))}")
    for gen, info in env.slices.items():
        w(f"  (* {GEN_REL}: DataflowTransactionContext.{name}, the construction of `{info['var']}` (line {info['line']}) *)")
        w(indent(info["text"], 2))
        w("")
    w(f"  (* {GEN_REL}: DataflowTransactionContext.{name} (line {fn.lineno}); self._block_contexts is empty at the start")
    w("     (created by __init__) and returned at the end (what the final self._store_results() reads); Some None: the iteration")
    w("     budget `fuel` of a while loop is exhausted; pfuel is the recursion budget of _postorder, afuel the one of _get_asserted *)")
    w(f"  Definition run_analysis_gen (fuel pfuel afuel : nat) : py (option (gdict T)) :=\n    (let {SELF_CTX} := (kdict_empty T) in\n{indent(term, 4)}).")
    w("")


def emit_run_gen(outdir):
    gp = os.path.join(T, GEN_REL)
    gtree = parse(gp)
    TG.check_fingerprints()  # the glue table of Gen/GraphGen.v (BasicBlock / Subroutine / Function), used here as well
    TS.check_fingerprints()  # Function.blocks
    check_fingerprints()
    check_imports(
        gp, gtree,
        {
            **{n: KH_MODULE + "." + n for n in KEY_HELPERS},
            "MAX_GROUP_SIZE": AC_MODULE + ".MAX_GROUP_SIZE",
            "leaf_block_global": UA_MODULE + ".leaf_block_global",
            "defaultdict": "collections.defaultdict",
        },
    )
    cls = find_class(gtree, "DataflowTransactionContext", gp)
    check_methods(gp, cls)
    TG.check_init(gp, cls)  # self._function, self._entry_block
    TS.check_block_contexts(gp, cls)
    check_class_attributes(gp, gtree, cls)
    check_abstract(gp, cls, "_store_results")
    for m in CALLED:
        check_no_override(m)

    L = []
    w = L.append
    w("(* GENERATED by tools/translate.py (translate_run) from /repo/tealer -- do not edit *)")
    w("(* transaction_context/generic.py: DataflowTransactionContext._postorder, _update_gtxn_constraints and run_analysis (with the")
    w("   constructions of its key list and worklists as separate definitions), statement by statement.")
    w("   See tools/translate_run.py for the reading. *)")
    w("From Coq Require Import String List NArith ZArith Bool Arith.")
    w("From Tealer Require Import Tables Syntax Cfg StackAst Keys KeysGen Analysis AssertedGen GraphGen SolverGen ConstraintsGen.")
    w("Import ListNotations.")
    w("Open Scope list_scope.")
    w(PRELUDE.rstrip("\n"))
    w("")
    w("  (* ====================================================================== *)")
    w("  (* TRANSLATED functions                                                     *)")
    w("  (* ====================================================================== *)")
    gbound = bound_names(gtree)
    emit_postorder(w, gp, cls, gbound)
    emit_update(w, gp, cls, gbound)
    emit_run(w, gp, cls, gbound)
    w("End RunGen.")
    text = "\n".join(L) + "\n"
    os.makedirs(outdir, exist_ok=True)
    with open(os.path.join(outdir, "RunGen.v"), "w") as fh:
        fh.write(text)
    return 8


def main():
    outdir = sys.argv[1] if len(sys.argv) > 1 else os.path.join(os.path.dirname(os.path.abspath(__file__)), "..", "coq", "Gen")
    try:
        n = emit_run_gen(outdir)
    except TranslateError as e:
        print(str(e))
        sys.exit(2)
    print(f"translate_run: {n} orchestration functions -> {outdir}/RunGen.v")


if __name__ == "__main__":
    main()
