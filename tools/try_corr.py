import sys, random, json, time
sys.path.insert(0, '/verif/tools')
import gen, corr
seed=int(sys.argv[1]) if len(sys.argv)>1 else 1
n=int(sys.argv[2]) if len(sys.argv)>2 else 200
which=sys.argv[3] if len(sys.argv)>3 else "random"
rng=random.Random(seed)
reqs=[]
if which=="random":
    for k in range(n):
        text,feats=gen.random_program(rng)
        reqs.append(("analyze",f"r{k}",text,[]))
elif which=="micro":
    for k,(name,text) in enumerate(gen.micro_programs()):
        reqs.append(("analyze",f"m{k}",text,[]))
    reqs=reqs[:n] if n>0 else reqs
elif which=="adv":
    for k,(name,text) in enumerate(gen.adversarial_programs()):
        reqs.append(("analyze",name,text,[]))
t0=time.time()
m,i=corr.run_both(reqs)
bad=0
for kind,rid,text,_ in reqs:
    d=corr.cmp_cfg(m[rid],i[rid])+corr.cmp_ctx(m[rid],i[rid])+corr.cmp_paths(m[rid],i[rid])
    if d:
        bad+=1
        if bad<=int(sys.argv[4]) if len(sys.argv)>4 else 6:
            print("=====",rid); print(text); 
            for x in d[:8]: print("   ",x[:300])
print(len(reqs),"programs",bad,"bad",round(time.time()-t0,1),"s")
