#!/venv/bin/python
"""Statement-by-statement translation of the GROUP-MODE verdict into Gallina (Gen/GroupGen.v).

Translated (read with `ast` only, never imported):
  execution_context/transactions.py : fill_group_relative_indexes            -> fill_group_relative_indexes_gen
  detectors/utils.py                : contract_checks_its_field              -> contract_checks_its_field_gen
                                      contract_checks_txn_at_absolute_index  -> contract_checks_txn_at_absolute_index_gen
                                      contract_checks_using_relative_index   -> contract_checks_using_relative_index_gen
                                      detect_missing_tx_field_validations_group_complete
                                          the decision part of the `for txn` loop -> txn_vulnerable_gen
                                          the whole function                      -> detect_missing_tx_field_validations_group_complete_gen
  and the fixed reading of the harness (`[t.transacton_id for o in outputs for t in o.transactions]`, one group)
                                                                                  -> group_verdict_gen
The hand-written counterpart is Model/Group.v (gtxn, rel_dict, relative_accessors, Section Verdict);
Lemmas/GroupGenLemmas.v relates the generated functions to it.

Reading of Python in Gallina.  The exception monad (`py A := option A`, ret, bind, ifE, andE, notE, opt_is_some) is the
one of the fixed prelude of Gen/KeysGen.v; validated_in_block is the ALREADY TRANSLATED validated_in_block_gen of
Gen/SearchGen.v.  In addition:
  * values.  A Transaction object is the model's record `gtxn` (identity of Transaction objects = equality of their
    `transacton_id`: the class defines no __eq__/__hash__ (fingerprinted) and common.py refuses a group with a repeated
    id); a GroupTransaction is the list of its transactions (`list gtxn`); a Function is its index in the table
    `funcs : list (func * fn_result)` (`nat`, a dangling index is an exception); a BasicBlock is the model's record
    `Cfg.block`; Optional[X] is `option X`; a python int is `Z`; DetectorType / TransactionType members are their
    NAMES (`string`; ComparableEnum compares values, the members have distinct values: fingerprinted).
  * dictionaries (Dict[Transaction, ..], Dict[int, Transaction]) are ASSOCIATION LISTS in insertion order:
    `d[k] = v` is dict_set (the value of an existing key is replaced IN PLACE, a new key is appended), `d[k]` is
    dict_get (KeyError = None), iteration / `.items()` go through the list in order, `{}` is [], `{k: v}` is
    dict_set k v [].  `d[k1][k2] = v` reads d[k1] (KeyError), updates it and stores it back (the inner dict object is
    mutated in place: the translator only accepts dict/list LITERALS as stored values, so no two keys share an object).
  * mutable state.  fill_group_relative_indexes returns None and mutates the attribute `group.group_relative_indexes`:
    that attribute is threaded as state (parameter `group_relative_indexes` = its value at the call; the translated
    function RETURNS its final value).  In the verdict `group_txn.group_relative_indexes` is
    `fill_group_relative_indexes_gen group_txn []`: GroupTransaction.__init__ sets it to {} and init_tealer_from_config
    calls fill_group_relative_indexes once on every group (both fingerprinted).
  * `for x in e: body` is a fold over `e` (a list, the keys of a dict, or `.items()` with a tuple target) whose state
    is the tuple of the variables (re)assigned in the body and bound before the loop.  `break` adds a first boolean
    component (once true the remaining iterations do nothing), an early `return v` a first `option` component (as in
    translate_search.py); `continue` ends the iteration with the current state.  A variable first assigned inside a
    branch or a loop body is NOT visible after it (reading it there is "unknown name": fail-closed).
  * the `for txn in group_txn.transactions` loop is split at the last statement from which `continue` is reachable:
    the DECISION part before it becomes `txn_vulnerable_gen group_txn txn` (every `continue` is `ret false`, reaching
    its end is `ret true`), the RECORD part after it is executed iff the decision is true.  Loop-carried variables
    assigned in the decision part (none in the clean source) become extra parameters AND results of txn_vulnerable_gen.
  * `x is not None and e`, `if x is not None:` narrow the (side-effect free) expression `x : option A` to `A`
    (a `match`); the narrowing is dropped when a variable of `x` is re-assigned.
  * an `if` followed by more statements is translated with a join point (let kN := fun .. => rest) when the
    continuation is needed more than once.
  * the object graph is read through the FIXED glue tables of the prelude (PRELUDE_A, PRELUDE_B below); the Python
    text of everything they stand for is fingerprinted.  Which attribute is consulted when, the order of the tests,
    what is assigned to which key and when `checked` is reset comes from the Python text.

Fail-closed: every statement kind, expression kind, attribute name, call name and variable type that is not
whitelisted below raises TranslateError.
"""
import ast
import os
import sys

from tcommon import TranslateError, fail, parse, strip_doc, T
from translate_keys import indent
from translate_search import bound_names, count_bindings, unparse_nodoc, find_def, find_toplevel, signature, seq, as_monadic, projections, tuple_term

UTILS_REL = "detectors/utils.py"
TX_REL = "execution_context/transactions.py"
AN_REL = "utils/analyses.py"
BB_REL = "teal/basic_blocks.py"
FN_REL = "teal/functions.py"
CTX_REL = "teal/context/block_transaction_context.py"
OUT_REL = "utils/output.py"
DET_REL = "detectors/abstract_detector.py"
ENUM_REL = "utils/teal_enums.py"
CMP_REL = "utils/comparable_enum.py"
COMMON_REL = "utils/command_line/common.py"

# ----------------------------------------------------------------------------- types of the little typed language
BOOL = ("bool",)
INT = ("Z",)
CTX = ("bctx",)
DETT = ("dettype",)
TTYPE = ("ttype",)
FUNC = ("func",)
GROUP = ("group",)


def TXN(owner):
    return ("txn", owner)


def BLOCK(owner):
    return ("block", owner)


def tlist(t):
    return ("list", t)


def topt(t):
    return ("option", t)


def tprod(a, b):
    return ("prod", a, b)


def tdict(k, v):
    return ("dict", k, v)


def coqty(t, top=True):
    if t is None:
        raise TranslateError("translator: a list/dict/None literal whose type is not determined")
    simple = {"bool": "bool", "Z": "Z", "bctx": "bctx", "dettype": "string", "ttype": "string", "func": "nat", "txn": "gtxn", "block": "Cfg.block"}
    if t[0] in simple:
        return simple[t[0]]
    if t[0] == "group":
        return "list gtxn" if top else "(list gtxn)"
    if t[0] in ("list", "option"):
        s = f"{t[0]} {coqty(t[1], False)}"
        return s if top else f"({s})"
    if t[0] == "prod":
        return f"({coqty(t[1], False)} * {coqty(t[2], False)})"
    if t[0] == "dict":
        s = f"list ({coqty(t[1], False)} * {coqty(t[2], False)})"
        return s if top else f"({s})"
    raise TranslateError(f"translator: type {t}")


def unify(a, b):
    """most specific common type (None components are undetermined), or None"""
    if a is None:
        return b
    if b is None:
        return a
    if a == b:
        return a
    if a[0] != b[0] or len(a) != len(b):
        return None
    if a[0] in ("txn", "block"):
        return None  # different owners
    parts = [unify(x, y) for x, y in zip(a[1:], b[1:])]
    if any(p is None and not (x is None and y is None) for p, x, y in zip(parts, a[1:], b[1:])):
        return None
    return (a[0],) + tuple(parts)


def determined(t):
    if t is None:
        return False
    if t[0] in ("txn", "block"):
        return True
    return all(determined(x) for x in t[1:])


RESERVED = {
    "fuel", "acc", "st", "funcs", "checks", "dtype", "vtypes", "ret", "bind", "py", "ifE", "notE", "andE", "orE", "opt_is_some",
    "dict_set", "dict_get", "dict_keys", "dict_items", "txn_eqb", "txn_dict_set", "txn_dict_get", "int_dict_set", "int_dict_get",
    "filterE", "mapE", "in_types", "resolve_txn", "attr_relative_indexes", "attr_absoulte_index", "attr_group_relative_indexes",
    "attr_blocks", "call_leaf_block_global", "call_validated_in_block", "transaction_context", "absolute_context",
    "relative_context", "fill_group_relative_indexes_gen", "contract_checks_its_field_gen",
    "contract_checks_txn_at_absolute_index_gen", "contract_checks_using_relative_index_gen", "txn_vulnerable_gen",
    "detect_missing_tx_field_validations_group_complete_gen", "group_verdict_gen", "validated_in_block_gen",
    "fold_left", "map", "filter", "rev", "fst", "snd", "negb", "andb", "orb", "true", "false", "nil", "cons", "app", "Some", "None",
    "O", "S", "nat", "string", "bool", "list", "option", "Z", "N", "bctx", "gtxn", "func", "fn_result", "unit", "tt",
    "in", "at", "as", "fun", "let", "match", "end", "if", "then", "else", "return", "with", "forall", "exists", "fix", "cofix", "for",
    "where", "using", "Type", "Prop", "Set", "SProp", "struct", "left", "right", "inl", "inr", "pair", "eq_refl",
    "checks_field", "detector", "tealer", "tealer_groups", "DetectorType", "GroupTransactionOutput", "leaf_block_global", "validated_in_block",
    "contract_checks_its_field", "contract_checks_txn_at_absolute_index", "contract_checks_using_relative_index", "_",
    "g_id", "g_type", "g_has_logic_sig", "g_logic_sig", "g_application", "g_abs", "g_rel", "rel_dict", "fn_blocks", "leaf_global", "ctx_of",
}  # fmt: skip

# ----------------------------------------------------------------------------- fixed prelude (glue tables)
PRELUDE_A = r"""
(* ====================================================================== *)
(* PRELUDE A (fixed text); the exception monad is that of Gen/KeysGen.v    *)
(* ====================================================================== *)
(* ---- dictionaries = association lists in insertion order *)
(* d[k] = v : the value of an existing key is replaced in place (the key object stays), a new key is appended *)
Fixpoint dict_set {K V : Type} (eqb : K -> K -> bool) (k : K) (v : V) (d : list (K * V)) : list (K * V) :=
  match d with
  | [] => [(k, v)]
  | (k', v') :: t => if eqb k' k then (k', v) :: t else (k', v') :: dict_set eqb k v t
  end.
(* d[k] : KeyError when k is not a key *)
Definition dict_get {K V : Type} (eqb : K -> K -> bool) (k : K) (d : list (K * V)) : py V :=
  option_map snd (find (fun kv => eqb (fst kv) k) d).
(* `for k in d` / `d.items()` *)
Definition dict_keys {K V : Type} (d : list (K * V)) : list K := map fst d.
Definition dict_items {K V : Type} (d : list (K * V)) : list (K * V) := d.
(* [x for x in l if p x] where p may raise: left to right, the first exception wins *)
Fixpoint filterE {A : Type} (p : A -> py bool) (l : list A) : py (list A) :=
  match l with
  | [] => ret []
  | a :: t => bind (p a) (fun b => bind (filterE p t) (fun r => ret (if b then a :: r else r)))
  end.
Fixpoint mapE {A B : Type} (g : A -> py B) (l : list A) : py (list B) :=
  match l with
  | [] => ret []
  | a :: t => bind (g a) (fun b => bind (mapE g t) (fun r => ret (b :: r)))
  end.

(* ---- GLUE TABLE 1: execution_context/transactions.py objects on the model's record gtxn (Model/Group.v).
   Transaction = gtxn, GroupTransaction = list gtxn (group.transactions = the list itself).
     txn.transacton_id     g_id txn                  txn.type              g_type txn  (name of the TransactionType member)
     txn.has_logic_sig     g_has_logic_sig txn       txn.logic_sig         g_logic_sig txn   (index in funcs)
     txn.application       g_application txn         txn.absoulte_index    option_map Z.of_N (g_abs txn)
     txn.relative_indexes  Dict[int, Transaction]: common.py fills it with `txn_obj.relative_indexes[offset] = ..` in
                           the order of the configuration = rel_dict txn (Model/Group.v: dict_set fold over g_rel),
                           every transaction id resolved to the FIRST member of the group with that id
                           (txn_id_to_obj[other_txn_id]); an id that is not in the group is an exception (common.py
                           raises TealerException for it).
   Transaction objects as dictionary keys / `is` / `==`: identity = equality of ids (txn_eqb). *)
Definition txn_eqb (a b : gtxn) : bool := String.eqb (g_id a) (g_id b).
Definition txn_dict_set {V : Type} (k : gtxn) (v : V) (d : list (gtxn * V)) : list (gtxn * V) := dict_set txn_eqb k v d.
Definition txn_dict_get {V : Type} (k : gtxn) (d : list (gtxn * V)) : py V := dict_get txn_eqb k d.
Definition int_dict_set {V : Type} (k : Z) (v : V) (d : list (Z * V)) : list (Z * V) := dict_set Z.eqb k v d.
Definition int_dict_get {V : Type} (k : Z) (d : list (Z * V)) : py V := dict_get Z.eqb k d.
Definition resolve_txn (group : list gtxn) (id : string) : py gtxn := find (fun o => String.eqb (g_id o) id) group.
Definition attr_relative_indexes (group : list gtxn) (txn : gtxn) : py (list (Z * gtxn)) :=
  mapE (fun kv => bind (resolve_txn group (snd kv)) (fun o => ret (fst kv, o))) (rel_dict txn).
Definition attr_absoulte_index (txn : gtxn) : option Z := option_map Z.of_N (g_abs txn).
(* x in l / x not in l for TransactionType members *)
Definition in_types (x : string) (l : list string) : bool := existsb (String.eqb x) l.
"""

PRELUDE_B = r"""
(* ---- GLUE TABLE 2: the analysed functions and the detector (Section parameters as in Model/Group.v Section Verdict).
   Function = index k in funcs, (f, r) = the function's graph and its analysis result; BasicBlock = Cfg.block.
     function.blocks                                   fn_blocks f              (Function.blocks = self._blocks)
     leaf_block_global(block)                          leaf_global f block      (utils/analyses.py, fingerprinted;
                                                       f = the function whose .blocks the block was taken from)
     validated_in_block(block, function, checks_field, ai)
                                                       validated_in_block_gen r checks (b_idx block) ai
                                                       (Gen/SearchGen.v: translated from the same file)
     function.transaction_context(block)               ctx_of r (b_idx block) KSelf
     function.transaction_context(block).absolute_context(i)
                                                       ctx_of r (b_idx block) (KAbs i) for 0 <= i < MAX_GROUP_SIZE;
                                                       TealerException for i >= MAX_GROUP_SIZE, a negative i indexes
                                                       the python list from its end (IndexError below -MAX_GROUP_SIZE)
     function.transaction_context(block).relative_context(off)
                                                       ctx_of r (b_idx block) (KRel off) for off in
                                                       range(-(MAX_GROUP_SIZE - 1), MAX_GROUP_SIZE), off != 0;
                                                       TealerException otherwise         (all fingerprinted)
     checks_field(ctx)                                 checks ctx
     detector.TYPE                                     dtype  (name of the DetectorType member)
     DetectorType.X                                    "X"
     vulnerable_transaction_types                      vtypes (names of the TransactionType members)
     group_txn.group_relative_indexes                  fill_group_relative_indexes_gen group_txn []  (see the header of
                                                       tools/translate_group.py)
     tealer.groups                                     tealer_groups (parameter)
     GroupTransactionOutput(detector, g, d)            (g, d)    (.group_transaction = g, .transactions = d) *)
Section GroupGen.
  Variable funcs : list (func * fn_result).
  Variable checks : bctx -> bool.
  Variable dtype : string.
  Variable vtypes : option (list string).

  Definition attr_blocks (function : nat) : py (list Cfg.block) :=
    bind (nth_error funcs function) (fun fr => ret (fn_blocks (fst fr))).
  Definition call_leaf_block_global (function : nat) (b : Cfg.block) : py bool :=
    bind (nth_error funcs function) (fun fr => ret (leaf_global (fst fr) b)).
  Definition call_validated_in_block (function : nat) (b : Cfg.block) (absolute_index : option Z) : py bool :=
    bind (nth_error funcs function) (fun fr => validated_in_block_gen (snd fr) checks (b_idx b) absolute_index).
  Definition transaction_context (function : nat) (b : Cfg.block) : py bctx :=
    bind (nth_error funcs function) (fun fr => ret (ctx_of (snd fr) (b_idx b) KSelf)).
  Definition absolute_context (function : nat) (b : Cfg.block) (i : Z) : py bctx :=
    bind (nth_error funcs function) (fun fr =>
      let m := Z.of_N MAX_GROUP_SIZE in
      if (m <=? i)%Z then None
      else if (0 <=? i)%Z then Some (ctx_of (snd fr) (b_idx b) (KAbs (Z.to_N i)))
      else if (- m <=? i)%Z then Some (ctx_of (snd fr) (b_idx b) (KAbs (Z.to_N (m + i))))
      else None).
  Definition relative_context (function : nat) (b : Cfg.block) (off : Z) : py bctx :=
    bind (nth_error funcs function) (fun fr =>
      let m := Z.of_N MAX_GROUP_SIZE in
      if ((- (m - 1) <=? off)%Z && (off <? m)%Z && negb (off =? 0)%Z)%bool
      then Some (ctx_of (snd fr) (b_idx b) (KRel off)) else None).
"""

POSTLUDE = r"""
  (* ---- the ids the harness reads off the detector's output (tools/implrun.py handle_group, one group per Tealer):
         ids = []; for o in outputs: ids += [t.transacton_id for t in o.transactions]            (fixed text) *)
  Definition group_verdict_gen (group_txn : list gtxn) : py (list string) :=
    bind (detect_missing_tx_field_validations_group_complete_gen [group_txn]) (fun outputs =>
    ret (flat_map (fun o => map (fun kv => g_id (fst kv)) (dict_items (snd o))) outputs)).
End GroupGen.
"""

# ----------------------------------------------------------------------------- fingerprints
# source text (ast.unparse, docstrings removed) of everything the glue tables stand for
FINGERPRINTS = [
    (AN_REL, None, "leaf_block_global", "def leaf_block_global(block: 'BasicBlock') -> bool:\n    return len(block.next) == 0 and (not block.is_retsub_block) and (not block.is_callsub_block)"),
    (BB_REL, "BasicBlock", "next", "@property\ndef next(self) -> List['BasicBlock']:\n    return self._next"),
    (BB_REL, "BasicBlock", "is_callsub_block", "@property\ndef is_callsub_block(self) -> bool:\n    return isinstance(self.exit_instr, Callsub)"),
    (BB_REL, "BasicBlock", "is_retsub_block", "@property\ndef is_retsub_block(self) -> bool:\n    return isinstance(self.exit_instr, Retsub)"),
    (FN_REL, "Function", "blocks", "@property\ndef blocks(self) -> List['BasicBlock']:\n    return self._blocks"),
    (FN_REL, "Function", "transaction_context", "def transaction_context(self, block: 'BasicBlock') -> 'BlockTransactionContext':\n    return self._transaction_contexts[block]"),
    (
        CTX_REL, "BlockTransactionContext", "absolute_context",
        "def absolute_context(self, txn_index: int) -> 'BlockTransactionContext':\n    if self._abs_context is None:\n        raise TealerException()\n"
        "    if txn_index >= MAX_GROUP_SIZE:\n        raise TealerException()\n    return self._abs_context[txn_index]",
    ),
    (
        CTX_REL, "BlockTransactionContext", "relative_context",
        "def relative_context(self, offset: int) -> 'BlockTransactionContext':\n    if self._relative_context is None:\n        raise TealerException()\n"
        "    if offset not in self._relative_context:\n        raise TealerException()\n    return self._relative_context[offset]",
    ),
    (
        OUT_REL, "GroupTransactionOutput", "__init__",
        "def __init__(self, detector: 'AbstractDetector', group: 'GroupTransaction', transactions: Dict['Transaction', List['Function']]) -> None:\n"
        "    self._detector = detector\n    self._group = group\n    self._transactions = transactions",
    ),
    (OUT_REL, "GroupTransactionOutput", "transactions", "@property\ndef transactions(self) -> Dict['Transaction', List['Function']]:\n    return self._transactions"),
    (OUT_REL, "GroupTransactionOutput", "group_transaction", "@property\ndef group_transaction(self) -> 'GroupTransaction':\n    return self._group"),
    (
        CMP_REL, "ComparableEnum", "__eq__",
        "def __eq__(self, other: Any) -> bool:\n    if isinstance(other, ComparableEnum):\n        return self.value == other.value\n    return False",
    ),
    (CMP_REL, "ComparableEnum", "__hash__", "def __hash__(self) -> int:\n    return hash(self.value)"),
]
# whole classes (docstrings removed)
CLASS_FINGERPRINTS = [
    (
        TX_REL, "Transaction",
        "class Transaction:\n\n    def __init__(self) -> None:\n        self.type: TransactionType = TransactionType.Any\n        self.has_logic_sig: bool = False\n"
        "        self.logic_sig: Optional['Function'] = None\n        self.application: Optional['Function'] = None\n        self.absoulte_index: Optional[int] = None\n"
        "        self.relative_indexes: Dict[int, Transaction] = {}\n        self.group_transaction: Optional[GroupTransaction] = None\n        self.transacton_id: str = ''",
    ),
    (
        TX_REL, "GroupTransaction",
        "class GroupTransaction:\n\n    def __init__(self) -> None:\n        self.transactions: List[Transaction] = []\n        self.absolute_indexes: Dict[int, Transaction] = {}\n"
        "        self.group_relative_indexes: Dict[Transaction, Dict[Transaction, int]] = {}\n        self.operation_name: str = ''",
    ),
    (
        DET_REL, "DetectorType",
        "class DetectorType(ComparableEnum):\n    STATEFULL = 0\n    STATELESS_AND_STATEFULL = 1\n    STATELESS = 2\n    STATEFULLGROUP = 3\n    UNDEFINED = 255",
    ),
    (
        ENUM_REL, "TransactionType",
        "class TransactionType(ComparableEnum):\n    Invalid = 0\n    Pay = 1\n    KeyReg = 2\n    Acfg = 3\n    Axfer = 4\n    Afrz = 5\n    Appl = 6\n    Any = 7\n    Unknown = 8",
    ),
]
DETECTOR_TYPES = ["STATEFULL", "STATELESS_AND_STATEFULL", "STATELESS", "STATEFULLGROUP", "UNDEFINED"]
# statements of other functions the glue relies on: (file, function, statement text that must occur exactly once in it)
CONTEXT_STATEMENTS = [
    (COMMON_REL, "init_tealer_from_config", "fill_group_relative_indexes(group_obj)"),
    (COMMON_REL, "init_tealer_from_config", "txn_obj.relative_indexes[offset] = txn_id_to_obj[other_txn_id]"),
    (COMMON_REL, "init_tealer_from_config", "group_obj.transactions = list(txn_id_to_obj.values())"),
    (COMMON_REL, "init_tealer_from_config", "if txn.txn_id in txn_id_to_obj:\n    raise TealerException(f'{txn.txn_id} is repeated in the same group.')"),
    (CTX_REL, "BlockTransactionContext.__init__", "self._abs_context = [BlockTransactionContext(True) for _ in range(MAX_GROUP_SIZE)]"),
    (
        CTX_REL, "BlockTransactionContext.__init__",
        "self._relative_context = {offset: BlockTransactionContext(True) for offset in range(-(MAX_GROUP_SIZE - 1), MAX_GROUP_SIZE) if offset != 0}",
    ),
]

EXPECTED_BINDINGS_UTILS = {
    "leaf_block_global": "tealer.utils.analyses.leaf_block_global",
    "DetectorType": "tealer.detectors.abstract_detector.DetectorType",
    "GroupTransactionOutput": "tealer.utils.output.GroupTransactionOutput",
    "validated_in_block": "<local>",
    "contract_checks_its_field": "<local>",
    "contract_checks_txn_at_absolute_index": "<local>",
    "contract_checks_using_relative_index": "<local>",
    "detect_missing_tx_field_validations_group_complete": "<local>",
}


def class_text(cls):
    import copy

    g = copy.deepcopy(cls)
    g.body = strip_doc(g.body) or [ast.Pass()]
    for n in g.body:
        if isinstance(n, ast.FunctionDef):
            n.body = strip_doc(n.body) or [ast.Pass()]
    return ast.unparse(g)


def find_class(path, tree, name):
    cs = [n for n in tree.body if isinstance(n, ast.ClassDef) and n.name == name]
    if len(cs) != 1:
        raise TranslateError(f"translator: {path}: expected exactly one class {name}")
    return cs[0]


def check_fingerprints():
    trees = {}

    def tree_of(rel):
        if rel not in trees:
            trees[rel] = parse(os.path.join(T, rel))
        return trees[rel]

    for rel, cls, name, text in FINGERPRINTS:
        path = os.path.join(T, rel)
        fn = find_def(path, tree_of(rel), cls, name)
        got = unparse_nodoc(fn)
        if got != text:
            fail(path, fn, f"{(cls + '.') if cls else ''}{name} is no longer the function the glue table stands for:\n{got}")
    for rel, cls, text in CLASS_FINGERPRINTS:
        path = os.path.join(T, rel)
        c = find_class(path, tree_of(rel), cls)
        got = class_text(c)
        if got != text:
            fail(path, c, f"class {cls} is no longer the class the glue table stands for:\n{got}")
    for rel, fname, text in CONTEXT_STATEMENTS:
        path = os.path.join(T, rel)
        tree = tree_of(rel)
        if "." in fname:
            cls, name = fname.split(".")
            fn = find_def(path, tree, cls, name)
        else:
            fn = find_toplevel(tree, fname, path)
        want = ast.dump(ast.parse(text).body[0])
        n = sum(1 for node in ast.walk(fn) if isinstance(node, ast.stmt) and ast.dump(node) == want)
        if n != 1:
            fail(path, fn, f"{fname} contains the statement `{text.splitlines()[0]}` {n} times, expected once")
    # MAX_GROUP_SIZE of the context module is the constant of utils/algorand_constants.py (its value is in Gen/Tables.v)
    ctree = tree_of(CTX_REL)
    if bound_names(ctree).get("MAX_GROUP_SIZE") != "tealer.utils.algorand_constants.MAX_GROUP_SIZE" or count_bindings(ctree, "MAX_GROUP_SIZE") != 1:
        raise TranslateError(f"translator: {os.path.join(T, CTX_REL)}: MAX_GROUP_SIZE is not the constant of utils/algorand_constants.py")
    # the class attributes the two readers test against None
    bc = find_class(os.path.join(T, CTX_REL), ctree, "BlockTransactionContext")
    if bc.bases or bc.decorator_list or bc.keywords:
        fail(os.path.join(T, CTX_REL), bc, "class BlockTransactionContext has bases/decorators")


# ----------------------------------------------------------------------------- environment
class Env:
    def __init__(self, path, kind, imports):
        self.path = path
        self.kind = kind  # "fill" | "leaf" | "verdict"
        self.imports = imports
        self.vars = {}  # python name -> (coq term, type)
        self.narrow = {}  # ast.dump(expr) -> (coq term, type)
        self.counter = [0, 0]  # temporaries, join points
        self.frames = []  # enclosing loops, innermost last: dict(kind=, state=, brk=, early=, end=, on_break=, on_continue=)
        self.on_return = None  # function (term, pure) -> term : `return e`
        self.end = None  # function env -> term : control reaches the end of the function
        self.locals = {}  # declared types of local variables (used for [], {} literals)
        self.aux = []  # auxiliary definitions emitted before the function (txn_vulnerable_gen)
        self.split = None  # name of the loop variable whose loop is split into decision / record part
        self.loopvars = set()  # variables of the enclosing loops that the decision function may read (its parameters)
        self.section = set()  # python names that stand for Section variables

    def child(self):
        e = Env(self.path, self.kind, self.imports)
        e.vars = dict(self.vars)
        e.narrow = dict(self.narrow)
        e.counter = self.counter
        e.frames = list(self.frames)
        e.on_return = self.on_return
        e.end = self.end
        e.locals = self.locals
        e.aux = self.aux
        e.split = self.split
        e.loopvars = self.loopvars
        e.section = self.section
        return e

    def bind(self, name, term, ty):
        e = self.child()
        e.vars[name] = (term, ty)
        # a narrowing that mentions the re-assigned variable is stale
        tag = f"id='{name}'"
        e.narrow = {k: v for k, v in e.narrow.items() if tag not in k}
        return e

    def narrowed(self, node, term, ty):
        e = self.child()
        e.narrow[ast.dump(node)] = (term, ty)
        return e

    def fresh(self):
        self.counter[0] += 1
        return f"tmp{self.counter[0]}"

    def fresh_join(self):
        self.counter[1] += 1
        return f"k{self.counter[1]}"


def is_name(e, n):
    return isinstance(e, ast.Name) and e.id == n


def unbound(env, name):
    """`name` is not a local variable (it denotes the parameter / module-level binding)"""
    return name not in env.vars


def need_origin(env, node, name):
    if not unbound(env, name):
        fail(env.path, node, f"{name} is shadowed by a local variable")
    if env.imports.get(name) != EXPECTED_BINDINGS_UTILS[name]:
        fail(env.path, node, f"name {name} is bound to {env.imports.get(name)}, expected {EXPECTED_BINDINGS_UTILS[name]}")


def coerce(env, node, t, ty, want):
    """use of a value of type ty where `want` is expected: equal, or A used as Optional[A]"""
    if want is None:
        return t, ty
    u = unify(ty, want)
    if u is not None:
        return t, u
    if want[0] == "option" and ty[0] != "option":
        u = unify(ty, want[1])
        if u is not None:
            return f"(Some {t})", topt(u)
    fail(env.path, node, f"value of type {ty} where {want} is expected")


def expr(env, e, want=None):
    """-> (term, type, pure); `want` is the expected type (used for [], {}, None and Optional coercion)"""
    t, ty, pure = expr0(env, e, want)
    if pure:
        t, ty = coerce(env, e, t, ty, want)
    else:
        u = unify(ty, want)
        if u is None:
            fail(env.path, e, f"value of type {ty} where {want} is expected")
        ty = u
    return t, ty, pure


def none_test(e):
    """`x is not None` -> (x, True), `x is None` -> (x, False), else None"""
    if isinstance(e, ast.Compare) and len(e.ops) == 1 and isinstance(e.ops[0], (ast.Is, ast.IsNot)) and isinstance(e.comparators[0], ast.Constant) and e.comparators[0].value is None:
        return e.left, isinstance(e.ops[0], ast.IsNot)
    return None


def narrowable(env, x):
    """the tested expression is side-effect free and of Optional type -> (term, type) else failure"""
    t, ty, pure = expr(env, x)
    if not pure or ty[0] != "option" or not determined(ty):
        fail(env.path, x, f"`is (not) None` test of a value of type {ty}" + ("" if pure else " that can raise"))
    return t, ty


def bool_and(env, values):
    first, rest = values[0], values[1:]
    if not rest:
        return expr(env, first, BOOL)
    nt = none_test(first)
    if nt is not None and nt[1]:
        t, ty = narrowable(env, nt[0])
        tmp = env.fresh()
        rt, _, rp = bool_and(env.narrowed(nt[0], tmp, ty[1]), rest)
        if rp:
            return f"(match {t} with Some {tmp} => {rt} | None => false end)", BOOL, True
        return f"(match {t} with Some {tmp} => {rt} | None => (ret false) end)", BOOL, False
    ft, _, fp = expr(env, first, BOOL)
    rt, _, rp = bool_and(env, rest)
    if fp and rp:
        return f"({ft} && {rt})%bool", BOOL, True
    if fp:
        return f"(if {ft} then {rt} else (ret false))", BOOL, False
    return f"(andE {ft} {as_monadic(rt, rp)})", BOOL, False


TXN_ATTRS = {
    "has_logic_sig": ("(g_has_logic_sig {t})", BOOL),
    "logic_sig": ("(g_logic_sig {t})", topt(FUNC)),
    "application": ("(g_application {t})", topt(FUNC)),
    "absoulte_index": ("(attr_absoulte_index {t})", topt(INT)),
    "type": ("(g_type {t})", TTYPE),
}


def state_attr(env, e):
    """fill_group_relative_indexes: the expression `group.group_relative_indexes` (the threaded state)"""
    return env.kind == "fill" and isinstance(e, ast.Attribute) and e.attr == "group_relative_indexes" and is_name(e.value, "group") and "group" in env.vars


def is_transaction_context_call(env, e):
    """function.transaction_context(<block>) -> (function term, block term) else None"""
    if isinstance(e, ast.Call) and isinstance(e.func, ast.Attribute) and e.func.attr == "transaction_context" and len(e.args) == 1 and not e.keywords:
        f, fty, fp = expr(env, e.func.value)
        if fty != FUNC or not fp:
            fail(env.path, e, f".transaction_context of a value of type {fty}")
        b, bty, bp = expr(env, e.args[0])
        if bty != BLOCK(f) or not bp:
            fail(env.path, e, f"transaction_context({ast.unparse(e.args[0])}): a value of type {bty}, not a block of {f}")
        return f, b
    return None


def expr0(env, e, want):
    p = env.path
    key = ast.dump(e)
    if key in env.narrow:
        t, ty = env.narrow[key]
        return t, ty, True
    if isinstance(e, ast.Constant):
        if e.value is True:
            return "true", BOOL, True
        if e.value is False:
            return "false", BOOL, True
        if e.value is None:
            return "None", unify(topt(None), want) if want and want[0] == "option" else topt(None), True
        fail(p, e, "constant " + ast.unparse(e))
    if isinstance(e, ast.Name):
        if e.id in env.vars:
            t, ty = env.vars[e.id]
            return t, ty, True
        fail(p, e, f"unknown name {e.id}")
    if isinstance(e, ast.List):
        ew = want[1] if want and want[0] == "list" else None
        if not e.elts:
            return "[]", tlist(ew), True
        parts = [expr(env, x, ew) for x in e.elts]
        ty = None
        for (_, t1, _), x in zip(parts, e.elts):
            ty2 = unify(ty, t1) if ty is not None else t1
            if ty2 is None:
                fail(p, x, "list literal with elements of different types")
            ty = ty2
        out, pure = seq(env, [(t, pu) for t, _, pu in parts], lambda *a: "[" + "; ".join(a) + "]")
        return out, tlist(ty), pure
    if isinstance(e, ast.Dict):
        kw, vw = (want[1], want[2]) if want and want[0] == "dict" else (None, None)
        if not e.keys:
            return "[]", tdict(kw, vw), True
        out, kty, vty = "[]", kw, vw
        for k, v in zip(e.keys, e.values):
            if k is None:
                fail(p, e, "dict literal with ** unpacking")
            kt, kty1, kp = expr(env, k, kty)
            vt, vty1, vp = expr(env, v, vty)
            if not (kp and vp):
                fail(p, e, "dict literal whose keys/values can raise")
            kty, vty = kty1, vty1
            out = f"({dict_fn(env, e, kty, 'set')} {kt} {vt} {out})"
        return out, tdict(kty, vty), True
    if isinstance(e, ast.Tuple):
        if len(e.elts) != 2:
            fail(p, e, "tuple " + ast.unparse(e))
        ws = (want[1], want[2]) if want and want[0] == "prod" else (None, None)
        parts = [expr(env, x, w) for x, w in zip(e.elts, ws)]
        out, pure = seq(env, [(t, pu) for t, _, pu in parts], lambda a, b: f"({a}, {b})")
        return out, tprod(parts[0][1], parts[1][1]), pure
    if isinstance(e, ast.BoolOp):
        if isinstance(e.op, ast.And):
            return bool_and(env, e.values)
        fail(p, e, "boolean operator " + ast.unparse(e)[:60])
    if isinstance(e, ast.UnaryOp):
        if isinstance(e.op, ast.Not):
            t, ty, pure = expr(env, e.operand, BOOL)
            return (f"(negb {t})" if pure else f"(notE {t})"), BOOL, pure
        fail(p, e, "unary operator " + ast.unparse(e))
    if isinstance(e, ast.Compare):
        if len(e.ops) != 1:
            fail(p, e, "chained comparison " + ast.unparse(e))
        nt = none_test(e)
        if nt is not None:
            t, _ = narrowable(env, nt[0])
            return (f"(opt_is_some {t})" if nt[1] else f"(negb (opt_is_some {t}))"), BOOL, True
        op = e.ops[0]
        l, lty, lp = expr(env, e.left)
        if isinstance(op, (ast.In, ast.NotIn)):
            r, rty, rp = expr(env, e.comparators[0], tlist(lty))
            if lty != TTYPE or rty != tlist(TTYPE):
                fail(p, e, f"`in` on values of types {lty}, {rty}")
            neg = isinstance(op, ast.NotIn)
            out, pure = seq(env, [(l, lp), (r, rp)], lambda a, b: f"(negb (in_types {a} {b}))" if neg else f"(in_types {a} {b})")
            return out, BOOL, pure
        r, rty, rp = expr(env, e.comparators[0])
        if isinstance(op, (ast.Eq, ast.NotEq)) and lty == DETT and rty == DETT:
            neg = isinstance(op, ast.NotEq)
            out, pure = seq(env, [(l, lp), (r, rp)], lambda a, b: f"(negb (String.eqb {a} {b}))" if neg else f"(String.eqb {a} {b})")
            return out, BOOL, pure
        if isinstance(op, (ast.Eq, ast.NotEq, ast.Is, ast.IsNot)) and lty[0] == "txn" and rty == lty:
            # Transaction defines no __eq__: `==` is identity
            neg = isinstance(op, (ast.NotEq, ast.IsNot))
            out, pure = seq(env, [(l, lp), (r, rp)], lambda a, b: f"(negb (txn_eqb {a} {b}))" if neg else f"(txn_eqb {a} {b})")
            return out, BOOL, pure
        fail(p, e, f"comparison {ast.unparse(e)} on values of types {lty}, {rty}")
    if isinstance(e, ast.ListComp):
        if len(e.generators) != 1:
            fail(p, e, "comprehension " + ast.unparse(e))
        g = e.generators[0]
        if g.is_async or not isinstance(g.target, ast.Name) or len(g.ifs) > 1 or not is_name(e.elt, g.target.id):
            fail(p, e, "comprehension " + ast.unparse(e))
        x = g.target.id
        l, lty, lp = expr(env, g.iter)
        if lty[0] != "list" or not determined(lty):
            fail(p, e, f"comprehension over a value of type {lty}")
        check_name(env, x, e)
        if x in env.vars:
            fail(p, e, f"comprehension variable {x} shadows a variable")
        if not g.ifs:
            return l, lty, lp
        c, _, cp = expr(env.bind(x, x, lty[1]), g.ifs[0], BOOL)
        if cp:
            out, pure = seq(env, [(l, lp)], lambda a: f"(filter (fun {x} => {c}) {a})")
            return out, lty, pure
        out, _ = seq(env, [(l, lp)], lambda a: f"(filterE (fun {x} => {c}) {a})", monadic_result=True)
        return out, lty, False
    if isinstance(e, ast.Subscript):
        if isinstance(e.slice, (ast.Slice, ast.Tuple)):
            fail(p, e, "subscript " + ast.unparse(e))
        d, dty, dp = expr(env, e.value)
        if dty[0] != "dict" or not determined(dty):
            fail(p, e, f"subscript of a value of type {dty}")
        k, _, kp = expr(env, e.slice, dty[1])
        out, _ = seq(env, [(d, dp), (k, kp)], lambda a, b: f"({dict_fn(env, e, dty[1], 'get')} {b} {a})", monadic_result=True)
        return out, dty[2], False
    if isinstance(e, ast.Attribute):
        return attribute(env, e)
    if isinstance(e, ast.Call):
        return call(env, e)
    fail(p, e, "expression " + ast.unparse(e)[:60])


def dict_fn(env, node, kty, op):
    if kty is not None and kty[0] == "txn":
        return f"txn_dict_{op}"
    if kty == INT:
        return f"int_dict_{op}"
    fail(env.path, node, f"dictionary with keys of type {kty}")


def attribute(env, e):
    p = env.path
    if state_attr(env, e):
        t, ty = env.vars["group_relative_indexes"]
        return t, ty, True
    if isinstance(e.value, ast.Name) and unbound(env, e.value.id) and env.kind == "verdict":
        n = e.value.id
        if n == "detector" and e.attr == "TYPE":
            return "dtype", DETT, True
        if n == "DetectorType":
            need_origin(env, e, "DetectorType")
            if e.attr not in DETECTOR_TYPES:
                fail(p, e, "unknown DetectorType member " + e.attr)
            return f'"{e.attr}"', DETT, True
        if n == "tealer" and e.attr == "groups":
            return "tealer_groups", tlist(GROUP), True
        fail(p, e, "attribute " + ast.unparse(e))
    v, vty, vp = expr(env, e.value)
    if vty[0] == "txn":
        if e.attr in TXN_ATTRS:
            tpl, rty = TXN_ATTRS[e.attr]
            out, pure = seq(env, [(v, vp)], lambda a: tpl.format(t=a))
            return out, rty, pure
        if e.attr == "relative_indexes":
            out, _ = seq(env, [(v, vp)], lambda a: f"(attr_relative_indexes {vty[1]} {a})", monadic_result=True)
            return out, tdict(INT, TXN(vty[1])), False
        fail(p, e, "attribute " + ast.unparse(e))
    if vty == GROUP:
        if not vp:
            fail(p, e, "attribute of a group expression that can raise")
        if e.attr == "transactions":
            return v, tlist(TXN(v)), True
        if e.attr == "group_relative_indexes" and env.kind == "verdict":
            return f"(attr_group_relative_indexes {v})", tdict(TXN(v), tdict(TXN(v), INT)), False
        fail(p, e, "attribute " + ast.unparse(e))
    if vty == FUNC and env.kind == "leaf":
        if not vp:
            fail(p, e, "attribute of a function expression that can raise")
        if e.attr == "blocks":
            return f"(attr_blocks {v})", tlist(BLOCK(v)), False
        fail(p, e, "attribute " + ast.unparse(e))
    fail(p, e, f"attribute .{e.attr} of a value of type {vty}")


LEAF_HELPERS = {
    "contract_checks_its_field": ("contract_checks_its_field_gen", topt(INT)),
    "contract_checks_txn_at_absolute_index": ("contract_checks_txn_at_absolute_index_gen", INT),
    "contract_checks_using_relative_index": ("contract_checks_using_relative_index_gen", INT),
}


def call(env, e):
    p = env.path
    if e.keywords:
        fail(p, e, "call with keyword arguments " + ast.unparse(e)[:60])
    f = e.func
    if isinstance(f, ast.Attribute):
        if f.attr == "items" and not e.args:
            d, dty, dp = expr(env, f.value)
            if dty[0] != "dict" or not determined(dty):
                fail(p, e, f".items() of a value of type {dty}")
            out, pure = seq(env, [(d, dp)], lambda a: f"(dict_items {a})")
            return out, tlist(tprod(dty[1], dty[2])), pure
        if env.kind == "leaf":
            tc = is_transaction_context_call(env, e)
            if tc is not None:
                return f"(transaction_context {tc[0]} {tc[1]})", CTX, False
            if f.attr in ("absolute_context", "relative_context") and len(e.args) == 1:
                tc = is_transaction_context_call(env, f.value)
                if tc is None:
                    fail(p, e, f"{f.attr} of something that is not function.transaction_context(..): " + ast.unparse(e)[:60])
                i, _, ip = expr(env, e.args[0], INT)
                out, _ = seq(env, [(i, ip)], lambda a: f"({f.attr} {tc[0]} {tc[1]} {a})", monadic_result=True)
                return out, CTX, False
        fail(p, e, "call " + ast.unparse(e)[:60])
    if not isinstance(f, ast.Name):
        fail(p, e, "call " + ast.unparse(e)[:60])
    fn = f.id
    if not unbound(env, fn):
        fail(p, e, f"call of the local variable {fn}")
    if fn == "checks_field" and env.kind == "leaf" and len(e.args) == 1:
        c, _, cp = expr(env, e.args[0], CTX)
        out, pure = seq(env, [(c, cp)], lambda a: f"(checks {a})")
        return out, BOOL, pure
    if fn == "leaf_block_global" and env.kind == "leaf" and len(e.args) == 1:
        need_origin(env, e, fn)
        b, bty, bp = expr(env, e.args[0])
        if bty[0] != "block" or not bp:
            fail(p, e, f"leaf_block_global of a value of type {bty}")
        return f"(call_leaf_block_global {bty[1]} {b})", BOOL, False
    if fn == "validated_in_block" and env.kind == "leaf" and len(e.args) == 4 and is_name(e.args[2], "checks_field") and unbound(env, "checks_field"):
        need_origin(env, e, fn)
        fu, futy, fup = expr(env, e.args[1], FUNC)
        b, bty, bp = expr(env, e.args[0])
        if not (fup and bp) or bty != BLOCK(fu):
            fail(p, e, f"validated_in_block({ast.unparse(e.args[0])}, {ast.unparse(e.args[1])}, ..): the block (type {bty}) is not a block of the function")
        ai, _, aip = expr(env, e.args[3], topt(INT))
        out, _ = seq(env, [(ai, aip)], lambda a: f"(call_validated_in_block {fu} {b} {a})", monadic_result=True)
        return out, BOOL, False
    if fn in LEAF_HELPERS and env.kind == "verdict" and len(e.args) == 3 and is_name(e.args[1], "checks_field") and unbound(env, "checks_field"):
        need_origin(env, e, fn)
        gen, ity = LEAF_HELPERS[fn]
        fu, _, fup = expr(env, e.args[0], FUNC)
        i, _, ip = expr(env, e.args[2], ity)
        out, _ = seq(env, [(fu, fup), (i, ip)], lambda a, b: f"({gen} {a} {b})", monadic_result=True)
        return out, BOOL, False
    if fn == "GroupTransactionOutput" and env.kind == "verdict" and len(e.args) == 3 and is_name(e.args[0], "detector") and unbound(env, "detector"):
        need_origin(env, e, fn)
        g, gty, gp = expr(env, e.args[1], GROUP)
        if not isinstance(e.args[2], ast.Name):
            fail(p, e, "the dictionary stored in the output must be a variable")
        d, dty, dp = expr(env, e.args[2], tdict(TXN(g), tlist(FUNC)))
        # the stored dict object must not be mutated later: it is created afresh inside the iteration that stores it
        for fr in env.frames:
            if e.args[2].id in fr["state"]:
                fail(p, e, f"the dictionary {e.args[2].id} stored in the output is carried across iterations (the stored object would be mutated later)")
        if not (gp and dp):
            fail(p, e, "GroupTransactionOutput arguments")
        return f"({g}, {d})", tprod(GROUP, dty), True
    fail(p, e, "call " + ast.unparse(e)[:60])


# ----------------------------------------------------------------------------- statements
def check_name(env, name, node):
    if name in RESERVED or name.startswith("tmp") or (name.startswith("k") and name[1:].isdigit()):
        fail(env.path, node, f"variable name {name} is reserved by the translator")
    if not name.isidentifier() or not name.isascii():
        fail(env.path, node, f"variable name {name}")


def bind_var(env, name, node, t, ty, pure, rest_of):
    """`name = <t>`; a re-assignment must keep the type of the variable"""
    check_name(env, name, node)
    if name in env.vars:
        ty2 = unify(env.vars[name][1], ty)
        if ty2 is None:
            fail(env.path, node, f"re-assignment of {name} changes its type from {env.vars[name][1]} to {ty}")
        ty = ty2
    if not determined(ty):
        fail(env.path, node, f"the type of {name} is not determined: {ty}")
    rest = rest_of(env.bind(name, name, ty))
    if pure:
        return f"(let {name} := {t} in\n{rest})"
    return f"(bind {t} (fun {name} =>\n{rest}))"


FORBIDDEN = (ast.While, ast.Try, ast.With, ast.FunctionDef, ast.AsyncFunctionDef, ast.Lambda, ast.NamedExpr, ast.AugAssign, ast.Delete, ast.Global, ast.Nonlocal, ast.GeneratorExp, ast.SetComp, ast.DictComp, ast.Yield, ast.YieldFrom, ast.Raise, ast.Await, ast.ClassDef, ast.Import, ast.ImportFrom, ast.Starred, ast.Assert, ast.IfExp)


def place_base(env, tg):
    """assignment target d[k] / d[k1][k2]: -> (base variable name, [key nodes]) or None"""
    keys = []
    while isinstance(tg, ast.Subscript):
        keys.insert(0, tg.slice)
        tg = tg.value
    if not keys:
        return None
    if isinstance(tg, ast.Name):
        return tg.id, keys
    if state_attr(env, tg):
        return "group_relative_indexes", keys
    return None


def is_append(st):
    v = st.value
    return isinstance(v, ast.Call) and isinstance(v.func, ast.Attribute) and v.func.attr == "append" and isinstance(v.func.value, ast.Name) and len(v.args) == 1 and not v.keywords


def assigned_in(env, stmts):
    """names (re)bound or mutated by the statements, in order of first occurrence"""
    out = []

    def add(n):
        if n not in out:
            out.append(n)

    for st in stmts:
        for node in ast.walk(st):
            if isinstance(node, FORBIDDEN):
                fail(env.path, node, "statement/expression not accepted: " + type(node).__name__)
            if isinstance(node, (ast.Assign, ast.AnnAssign)):
                for tg in node.targets if isinstance(node, ast.Assign) else [node.target]:
                    pb = place_base(env, tg)
                    if pb is not None:
                        add(pb[0])
                        continue
                    if isinstance(tg, (ast.Attribute, ast.Subscript)):
                        fail(env.path, node, "assignment target " + ast.unparse(tg))
                    for n in ast.walk(tg):
                        if isinstance(n, ast.Name) and n.id != "_":
                            add(n.id)
            if isinstance(node, ast.For):
                for n in ast.walk(node.target):
                    if isinstance(n, ast.Name):
                        add(n.id)
            if isinstance(node, ast.Expr) and is_append(node):
                add(node.value.func.value.id)
    return out


def at_level(stmts, kinds):
    """nodes of the given kinds that belong to THIS loop level (not to a nested for)"""
    found = []

    def walk(node):
        if isinstance(node, kinds):
            found.append(node)
        if isinstance(node, ast.For):
            return
        for c in ast.iter_child_nodes(node):
            walk(c)

    for st in stmts:
        if isinstance(st, ast.For):
            if isinstance(st, kinds):
                found.append(st)
            continue
        walk(st)
    return found


def block(env, stmts, fall):
    """stmts: statement list; fall: function env -> term for what follows the block.  Returns a term of type py R."""
    p = env.path
    stmts = strip_doc(stmts)
    if not stmts:
        return fall(env)
    st, rest = stmts[0], stmts[1:]
    rest_of = lambda env2: block(env2, rest, fall)  # noqa: E731
    if isinstance(st, ast.Return):
        if rest:
            fail(p, rest[0], "statement after return")
        if env.on_return is None:
            fail(p, st, "return statement")
        if st.value is None:
            fail(p, st, "bare return")
        return env.on_return(env, st)
    if isinstance(st, (ast.Continue, ast.Break)):
        if rest:
            fail(p, rest[0], "statement after continue/break")
        if not env.frames:
            fail(p, st, "continue/break outside a loop")
        fr = env.frames[-1]
        h = fr["on_continue"] if isinstance(st, ast.Continue) else fr["on_break"]
        if h is None:
            fail(p, st, type(st).__name__.lower() + " is not accepted here")
        return h(env)
    if isinstance(st, ast.Pass):
        return rest_of(env)
    if isinstance(st, (ast.Assign, ast.AnnAssign)):
        if isinstance(st, ast.Assign):
            if len(st.targets) != 1:
                fail(p, st, "chained assignment")
            tg, value = st.targets[0], st.value
        else:
            tg, value = st.target, st.value
            if value is None or not isinstance(tg, ast.Name):
                fail(p, st, "annotated assignment " + ast.unparse(st)[:60])
        if isinstance(tg, ast.Name):
            want = env.vars[tg.id][1] if tg.id in env.vars else env.locals.get(tg.id)
            t, ty, pure = expr(env, value, want)
            if ty[0] in ("dict", "list") and not isinstance(value, (ast.Dict, ast.List, ast.ListComp)):
                fail(p, st, f"{tg.id} = {ast.unparse(value)[:40]}: a second name for a mutable object (only literals / comprehensions are accepted)")
            return bind_var(env, tg.id, st, t, ty, pure, rest_of)
        pb = place_base(env, tg)
        if pb is not None:
            return subscript_assign(env, st, pb[0], pb[1], value, rest_of)
        fail(p, st, "assignment target " + ast.unparse(tg))
    if isinstance(st, ast.Expr):
        if is_append(st):
            x = st.value.func.value.id
            if x not in env.vars or env.vars[x][1][0] != "list" or x != "output":
                fail(p, st, f".append on {x}: only the list `output` may be mutated")
            ety = env.vars[x][1][1]
            t, ty, pure = expr(env, st.value.args[0], ety)
            out, pure2 = seq(env, [(t, pure)], lambda a: f"({x} ++ [{a}])")
            return bind_var(env, x, st, out, tlist(ty), pure2, rest_of)
        fail(p, st, "expression statement " + ast.unparse(st)[:60])
    if isinstance(st, ast.If):
        if not rest:
            return if_term(env, st, fall)
        uses = [0]

        def probe(_env):
            uses[0] += 1
            return "K"

        saved = (list(env.counter), list(env.aux))
        if_term(env, st, probe)
        env.counter[:] = saved[0]
        env.aux[:] = saved[1]
        if uses[0] == 0:
            fail(p, rest[0], "unreachable statement")
        if uses[0] == 1:
            return if_term(env, st, rest_of)
        join = [v for v in assigned_in(env, [st]) if v in env.vars]
        kn = env.fresh_join()
        body = block(env, rest, fall)
        params = " ".join(f"({env.vars[v][0]} : {coqty(env.vars[v][1])})" for v in join) or "(_ : unit)"

        def callk(env2):
            for v in join:
                if env2.vars[v][1] != env.vars[v][1]:
                    fail(p, st, f"the type of {v} differs at the join point: {env2.vars[v][1]} / {env.vars[v][1]}")
            return f"({kn} {' '.join(env2.vars[v][0] for v in join) or 'tt'})"

        return f"(let {kn} := (fun {params} =>\n{indent(body, 2)}) in\n{if_term(env, st, callk)})"
    if isinstance(st, ast.For):
        return for_term(env, st, rest_of)
    fail(p, st, "statement " + ast.unparse(st)[:60])


def fresh_value(env, st, value, ty):
    """a dict / list stored inside a dictionary must be a fresh object (a literal)"""
    if ty[0] in ("dict", "list") and not isinstance(value, (ast.Dict, ast.List)):
        fail(env.path, st, f"the {ty[0]} stored by `{ast.unparse(st)[:60]}` is not a literal: two keys could share one mutable object")


def subscript_assign(env, st, base, keys, value, rest_of):
    p = env.path
    if base not in env.vars:
        fail(p, st, f"unknown name {base}")
    bt, bty = env.vars[base]
    if bty[0] != "dict" or not determined(bty):
        fail(p, st, f"item assignment on {base} of type {bty}")
    if len(keys) == 1:
        k, _, kp = expr(env, keys[0], bty[1])
        v, vty, vp = expr(env, value, bty[2])
        fresh_value(env, st, value, vty)
        if not kp:
            fail(p, st, "item assignment whose key can raise")
        out, pure = seq(env, [(v, vp)], lambda a: f"({dict_fn(env, st, bty[1], 'set')} {k} {a} {bt})")
        return bind_var(env, base, st, out, bty, pure, rest_of)
    if len(keys) == 2:
        inner = bty[2]
        if inner[0] != "dict":
            fail(p, st, f"nested item assignment on {base} of type {bty}")
        k1, _, k1p = expr(env, keys[0], bty[1])
        k2, _, k2p = expr(env, keys[1], inner[1])
        v, vty, vp = expr(env, value, inner[2])
        fresh_value(env, st, value, vty)
        if not (k1p and k2p and vp):
            fail(p, st, "nested item assignment whose keys/value can raise")
        tmp = env.fresh()
        get = f"({dict_fn(env, st, bty[1], 'get')} {k1} {bt})"
        upd = f"({dict_fn(env, st, bty[1], 'set')} {k1} ({dict_fn(env, st, inner[1], 'set')} {k2} {v} {tmp}) {bt})"
        inner_t = bind_var(env, base, st, upd, bty, True, rest_of)
        return f"(bind {get} (fun {tmp} =>\n{inner_t}))"
    fail(p, st, "item assignment " + ast.unparse(st)[:60])


def if_term(env, st, k):
    """k: env -> term for what follows the if"""
    p = env.path
    nt = none_test(st.test)
    if nt is not None:
        t, ty = narrowable(env, nt[0])
        tmp = env.fresh()
        some_env = env.narrowed(nt[0], tmp, ty[1])
        some_body, none_body = (st.body, st.orelse) if nt[1] else (st.orelse, st.body)
        some_t = block(some_env, some_body, k) if some_body else k(some_env)
        none_t = block(env, none_body, k) if none_body else k(env)
        return f"(match {t} with\n | Some {tmp} =>\n{indent(some_t)}\n | None =>\n{indent(none_t)}\n end)"
    t, ty, pure = expr(env, st.test, BOOL)
    then_t = block(env, st.body, k)
    else_t = block(env, st.orelse, k) if st.orelse else k(env)
    if pure:
        return f"(if {t}\n then\n{indent(then_t)}\n else\n{else_t})"
    return f"(ifE {t}\n{indent(then_t)}\n{else_t})"


def for_term(env, st, rest_of):
    p = env.path
    if st.orelse or getattr(st, "type_comment", None):
        fail(p, st, "for-else")
    # --- the iterable (evaluated once, before the loop)
    l, lty, lpure = expr(env, st.iter)
    if lty[0] == "dict" and determined(lty):
        l, elty, lwrap = l, lty[1], "dict_keys"
    elif lty[0] == "list" and determined(lty):
        elty, lwrap = lty[1], None
    else:
        fail(p, st, f"iteration over a value of type {lty}")
    # --- the target
    if isinstance(st.target, ast.Name):
        names = [st.target.id]
    elif isinstance(st.target, ast.Tuple) and len(st.target.elts) == 2 and all(isinstance(x, ast.Name) for x in st.target.elts) and elty[0] == "prod":
        names = [x.id for x in st.target.elts]
        if names[0] == names[1]:
            fail(p, st, "loop header " + ast.unparse(st.target))
    else:
        fail(p, st, "loop header " + ast.unparse(st.target))
    for x in names:
        check_name(env, x, st)
        if x in env.vars:
            fail(p, st, f"loop variable {x} shadows a variable")
    body = strip_doc(st.body)
    assigned = assigned_in(env, body)
    if any(x in assigned for x in names):
        fail(p, st, "loop body assigns the loop variable")
    early = any(isinstance(n, ast.Return) for b in body for n in ast.walk(b))
    brk = bool(at_level(body, (ast.Break,)))
    if early and (brk or env.frames or env.kind != "leaf"):
        fail(p, st, "return inside this loop")
    state = [n for n in assigned if n in env.vars]
    flag = "early" if early else ("brk" if brk else None)
    comps = ([flag] if flag else []) + state
    if not comps:
        fail(p, st, "loop without carried variable")
    rty = "bool"  # the only functions with an early return are the bool-valued leaf helpers
    stv = "st"
    projs = projections(len(comps), stv)
    xv = names[0] if len(names) == 1 else env.fresh()
    benv = env
    if len(names) == 1:
        benv = benv.bind(names[0], names[0], elty)
    else:
        benv = benv.bind(names[0], names[0], elty[1]).bind(names[1], names[1], elty[2])

    def pack(env2, first):
        for n in state:
            if env2.vars[n][1] != env.vars[n][1]:
                fail(p, st, f"loop body changes the type of {n}")
        return tuple_term(([first] if flag else []) + [env2.vars[n][0] for n in state])

    none_t = f"(@None {rty})"

    def body_end(env2):
        return f"(ret {pack(env2, none_t if early else 'false')})"

    def on_break(env2):
        return f"(ret {pack(env2, 'true')})"

    def on_return(env2, rst):
        t, _, pure = expr(env2, rst.value, BOOL)
        if pure:
            return f"(ret {pack(env2, f'(Some {t})')})"
        v = env.fresh()
        return f"(bind {t} (fun {v} => (ret {pack(env2, f'(Some {v})')})))"

    benv = benv.child()
    frame = {"kind": "loop", "state": state, "on_continue": body_end, "on_break": on_break if brk else None}
    benv.frames = env.frames + [frame]
    benv.on_return = on_return if early else None
    split = env.split is not None and names == [env.split]
    if split:
        body_t = split_body(env, benv, st, body, state, body_end)
    else:
        body_t = block(benv, body, body_end)
    if early:
        body_t = f"(match {projs[0]} with\n | Some _ => (ret {stv})\n | None =>\n{indent(body_t)}\n end)"
    elif brk:
        body_t = f"(if {projs[0]}\n then (ret {stv})\n else\n{body_t})"
    if len(names) == 2:
        body_t = f"(let {names[0]} := (fst {xv}) in\n(let {names[1]} := (snd {xv}) in\n{body_t}))"
    for n, pr in reversed(list(zip(state, projs[1:] if flag else projs))):
        body_t = f"(let {env.vars[n][0]} := {pr} in\n{body_t})"
    lv = env.fresh() if not lpure else None
    lterm = lv if lv else l
    if lwrap:
        lterm = f"({lwrap} {lterm})"
    init = pack(env, none_t if early else "false")
    ctys = (["option bool" if early else "bool"] if flag else []) + [coqty(env.vars[n][1], False) for n in state]
    sty = "(" + " * ".join(ctys) + ")" if len(ctys) > 1 or (" " in ctys[0] and not ctys[0].startswith("(")) else ctys[0]
    loop = f"(fold_left (fun (acc : py {sty}) ({xv} : {coqty(elty)}) => (bind acc (fun {stv} =>\n{indent(body_t, 2)})))\n  {lterm} (ret {init}))"
    tmp = env.fresh()
    after = rest_of(env)
    aprojs = projections(len(comps), tmp)
    if early:
        v = env.fresh()
        after = f"(match {aprojs[0]} with\n | Some {v} => (ret {v})\n | None =>\n{indent(after)}\n end)"
    for n, pr in reversed(list(zip(state, aprojs[1:] if flag else aprojs))):
        after = f"(let {env.vars[n][0]} := {pr} in\n{after})"
    out = f"(bind {loop} (fun {tmp} =>\n{after}))"
    if lv:
        out = f"(bind {l} (fun {lv} =>\n{out}))"
    return out


def split_body(env, benv, st, body, state, body_end):
    """the `for txn in group_txn.transactions` loop: decision part -> txn_vulnerable_gen, record part stays"""
    p = env.path
    x = env.split
    if env.aux:
        fail(p, st, f"a second loop over {x}")
    conts = [i for i, s in enumerate(body) if at_level([s], (ast.Continue,))]
    if not conts:
        fail(p, st, f"the loop over {x} has no continue: no decision part")
    cut = conts[-1] + 1
    D, R = body[:cut], body[cut:]
    if at_level(body, (ast.Break,)):
        fail(p, st, f"break in the loop over {x}")
    if not R:
        fail(p, st, f"the loop over {x} has no record part")
    dvars = [n for n in assigned_in(env, D) if n in env.vars]
    # the decision function: parameters = the enclosing loop variables, the loop variable, the carried variables it assigns
    denv = Env(env.path, env.kind, env.imports)
    denv.counter = [0, 0]
    denv.locals = env.locals
    params = []
    for n, (t, ty) in benv.vars.items():
        if n == x or n in dvars or n in env.loopvars or n in env.section:
            denv.vars[n] = (t, ty)
            if n not in env.section:
                params.append((t, ty))

    def dpack(env2, verdict):
        for n in dvars:
            if env2.vars[n][1] != env.vars[n][1]:
                fail(p, st, f"the decision part changes the type of {n}")
        return tuple_term([verdict] + [env2.vars[n][0] for n in dvars])

    denv.frames = [{"kind": "decision", "state": dvars, "on_continue": lambda e2: f"(ret {dpack(e2, 'false')})", "on_break": None}]
    denv.loopvars = env.loopvars
    denv.section = env.section
    body_t = block(denv, D, lambda e2: f"(ret {dpack(e2, 'true')})")
    rty = "bool" if not dvars else "(" + " * ".join(["bool"] + [coqty(env.vars[n][1], False) for n in dvars]) + ")"
    ptxt = " ".join(f"({t} : {coqty(ty)})" for t, ty in params)
    env.aux.append(
        f"(* {UTILS_REL}: detect_missing_tx_field_validations_group_complete, the body of `for {x} in ..` (line {st.lineno}) up to its last\n"
        f"   `continue` (line {at_level([D[-1]], (ast.Continue,))[-1].lineno}): false = the iteration ends with `continue`, true = it goes on to record {x}"
        + (f";\n   the loop-carried variables {', '.join(dvars)} are assigned in this part: they are parameters and results" if dvars else "")
        + f" *)\nDefinition txn_vulnerable_gen {ptxt} : py {rty} :=\n{indent(body_t, 2)}."
    )
    callt = "(txn_vulnerable_gen " + " ".join(t for t, _ in params) + ")"
    rec_t = block(benv, R, body_end)
    skip_t = body_end(benv)
    if not dvars:
        return f"(ifE {callt}\n{indent(rec_t)}\n{skip_t})"
    tmp = env.fresh()
    projs = projections(1 + len(dvars), tmp)
    inner = f"(if {projs[0]}\n then\n{indent(rec_t)}\n else\n{skip_t})"
    for n, pr in reversed(list(zip(dvars, projs[1:]))):
        inner = f"(let {env.vars[n][0]} := {pr} in\n{inner})"
    return f"(bind {callt} (fun {tmp} =>\n{inner}))"


# ----------------------------------------------------------------------------- source checks
def check_no_rebinding(path, fn, names):
    """the parameters standing for Section variables / glue are never re-bound in the function"""
    for node in ast.walk(fn):
        tgs = []
        if isinstance(node, ast.Assign):
            tgs = node.targets
        elif isinstance(node, (ast.AnnAssign, ast.AugAssign, ast.For, ast.NamedExpr, ast.comprehension)):
            tgs = [node.target]
        for tg in tgs:
            for n in ast.walk(tg):
                if isinstance(n, ast.Name) and isinstance(n.ctx, ast.Store) and n.id in names:
                    fail(path, node, f"{n.id} is re-bound")
        if isinstance(node, (ast.Global, ast.Nonlocal)):
            fail(path, node, "global/nonlocal")
        if isinstance(node, (ast.FunctionDef, ast.Lambda)) and node is not fn:
            fail(path, node, "nested function")


def check_module(path, tree, expected):
    imports = bound_names(tree)
    for name, origin in expected.items():
        if imports.get(name) != origin:
            raise TranslateError(f"translator: {path}: name {name} is bound to {imports.get(name)}, expected {origin}")
        if count_bindings(tree, name) != 1:
            raise TranslateError(f"translator: {path}: name {name} is bound {count_bindings(tree, name)} times in the module")
    return imports


def new_env(path, kind, imports, vars_, locals_=None, section=()):
    env = Env(path, kind, imports)
    env.vars = dict(vars_)
    env.locals = dict(locals_ or {})
    env.section = set(section)
    return env


# ----------------------------------------------------------------------------- emission
def emit_fill(w):
    path = os.path.join(T, TX_REL)
    tree = parse(path)
    imports = check_module(path, tree, {"fill_group_relative_indexes": "<local>", "Transaction": "<local>", "GroupTransaction": "<local>"})
    fn = find_toplevel(tree, "fill_group_relative_indexes", path)
    signature(path, fn, [("group", "'GroupTransaction'")], returns="None")
    check_no_rebinding(path, fn, {"group"})
    for node in ast.walk(fn):
        if isinstance(node, ast.Return):
            fail(path, node, "return in fill_group_relative_indexes")
    state_ty = tdict(TXN("group"), tdict(TXN("group"), INT))
    env = new_env(path, "fill", imports, {"group": ("group", GROUP), "group_relative_indexes": ("group_relative_indexes", state_ty)})
    env.loopvars = set()
    end = lambda e: f"(ret {e.vars['group_relative_indexes'][0]})"  # noqa: E731
    body = block(env, fn.body, end)
    w(f"(* {TX_REL}: fill_group_relative_indexes (line {fn.lineno}); the attribute group.group_relative_indexes is threaded:")
    w("   parameter = its value at the call, result = its final value *)")
    w(f"Definition fill_group_relative_indexes_gen (group : list gtxn) (group_relative_indexes : {coqty(state_ty)}) : py ({coqty(state_ty)}) :=\n" + indent(body, 2) + ".")
    w("")
    w("(* group_txn.group_relative_indexes as the detectors find it: {} (GroupTransaction.__init__) filled once by")
    w("   init_tealer_from_config *)")
    w(f"Definition attr_group_relative_indexes (group_txn : list gtxn) : py ({coqty(state_ty)}) :=")
    w("  fill_group_relative_indexes_gen group_txn [].")
    return 1


LEAF_SIGS = {
    "contract_checks_its_field": ("absolute_index", "Optional[int]", topt(INT)),
    "contract_checks_txn_at_absolute_index": ("absolute_index", "int", INT),
    "contract_checks_using_relative_index": ("offset", "int", INT),
}


def emit_leaf(w, path, tree, imports, name):
    pname, pann, pty = LEAF_SIGS[name]
    fn = find_toplevel(tree, name, path)
    signature(path, fn, [("function", "'Function'"), ("checks_field", "Callable[['BlockTransactionContext'], bool]"), (pname, pann)], returns="bool")
    check_no_rebinding(path, fn, {"function", "checks_field", pname})
    env = new_env(path, "leaf", imports, {"function": ("function", FUNC), pname: (pname, pty)})

    def on_return(env2, rst):
        t, _, pure = expr(env2, rst.value, BOOL)
        return as_monadic(t, pure)

    env.on_return = on_return

    def end(_e):
        raise TranslateError(f"translator: {path}:{fn.lineno}: control reaches the end of {name} without return")

    body = block(env, fn.body, end)
    w(f"  (* {UTILS_REL}: {name} (line {fn.lineno}); checks_field = checks *)")
    w(f"  Definition {name}_gen (function : nat) ({pname} : {coqty(pty)}) : py bool :=\n" + indent(body, 4) + ".")
    w("")


def emit_verdict(w, path, tree, imports):
    name = "detect_missing_tx_field_validations_group_complete"
    fn = find_toplevel(tree, name, path)
    signature(
        path, fn,
        [
            ("tealer", "'Tealer'"),
            ("detector", "'AbstractDetector'"),
            ("checks_field", "Callable[['BlockTransactionContext'], bool]"),
            ("vulnerable_transaction_types", "Optional[List[TransactionType]]"),
        ],
        defaults=["None"],
        returns="List[GroupTransactionOutput]",
    )
    check_no_rebinding(path, fn, {"tealer", "detector", "checks_field", "vulnerable_transaction_types"})
    locals_ = {
        "output": tlist(tprod(GROUP, tdict(TXN("group_txn"), tlist(FUNC)))),
        "vulnerable_transactions": tdict(TXN("group_txn"), tlist(FUNC)),
    }
    env = new_env(path, "verdict", imports, {"vulnerable_transaction_types": ("vtypes", topt(tlist(TTYPE)))}, locals_, section={"vulnerable_transaction_types"})
    env.split = "txn"
    env.loopvars = {"group_txn"}
    body = strip_doc(fn.body)
    if not body or not isinstance(body[-1], ast.Return) or not is_name(body[-1].value, "output"):
        fail(path, fn, f"the last statement of {name} is not `return output`")
    for node in ast.walk(fn):
        if isinstance(node, ast.Return) and node is not body[-1]:
            fail(path, node, "return inside " + name)

    def on_return(env2, rst):
        t, ty, pure = expr(env2, rst.value, locals_["output"])
        if env2.frames:
            fail(path, rst, "return inside a loop")
        return as_monadic(t, pure)

    env.on_return = on_return

    def end(_e):
        raise TranslateError(f"translator: {path}:{fn.lineno}: control reaches the end of {name} without return")

    term = block(env, body, end)
    if len(env.aux) != 1:
        fail(path, fn, "the loop `for txn in group_txn.transactions` was not found")
    w(indent(env.aux[0], 2))
    w("")
    w(f"  (* {UTILS_REL}: {name} (line {fn.lineno}); tealer.groups = tealer_groups *)")
    w(f"  Definition {name}_gen (tealer_groups : list (list gtxn)) : py ({coqty(locals_['output'])}) :=\n" + indent(term, 4) + ".")


def check_verdict_loops(path, fn):
    """the outer loop runs over tealer.groups with variable group_txn, the split loop over group_txn.transactions"""
    fors = [n for n in ast.walk(fn) if isinstance(n, ast.For)]
    outer = [n for n in fors if is_name(n.target, "group_txn")]
    if len(outer) != 1 or ast.unparse(outer[0].iter) != "tealer.groups" or outer[0] not in fn.body:
        fail(path, fn, "expected exactly one top-level loop `for group_txn in tealer.groups`")
    inner = [n for n in fors if is_name(n.target, "txn")]
    if len(inner) != 1 or ast.unparse(inner[0].iter) != "group_txn.transactions" or inner[0] not in outer[0].body:
        fail(path, fn, "expected exactly one loop `for txn in group_txn.transactions`, directly in the loop over the groups")


def emit_group(outdir):
    check_fingerprints()
    up = os.path.join(T, UTILS_REL)
    tree = parse(up)
    imports = check_module(up, tree, EXPECTED_BINDINGS_UTILS)
    L = []
    w = L.append
    w("(* GENERATED by tools/translate.py (translate_group) from /repo/tealer -- do not edit *)")
    w("(* execution_context/transactions.py: fill_group_relative_indexes; detectors/utils.py: contract_checks_its_field,")
    w("   contract_checks_txn_at_absolute_index, contract_checks_using_relative_index,")
    w("   detect_missing_tx_field_validations_group_complete, statement by statement.  See tools/translate_group.py. *)")
    w("From Coq Require Import String List NArith ZArith Bool Arith.")
    w("From Tealer Require Import Tables LeafPrelude Syntax Cfg Keys KeysGen Analysis Domains Detect SearchGen Group.")
    w("Import ListNotations.")
    w("Open Scope string_scope.")
    w("Open Scope list_scope.")
    w(PRELUDE_A.rstrip("\n"))
    w("")
    w("(* ====================================================================== *)")
    w("(* TRANSLATED: fill_group_relative_indexes                                *)")
    w("(* ====================================================================== *)")
    n = emit_fill(w)
    w(PRELUDE_B.rstrip("\n"))
    w("")
    w("  (* ====================================================================== *)")
    w("  (* TRANSLATED functions of detectors/utils.py                              *)")
    w("  (* ====================================================================== *)")
    for name in LEAF_SIGS:
        emit_leaf(w, up, tree, imports, name)
        n += 1
    vf = find_toplevel(tree, "detect_missing_tx_field_validations_group_complete", up)
    check_verdict_loops(up, vf)
    emit_verdict(w, up, tree, imports)
    n += 2
    w(POSTLUDE.rstrip("\n"))
    os.makedirs(outdir, exist_ok=True)
    with open(os.path.join(outdir, "GroupGen.v"), "w") as fh:
        fh.write("\n".join(L) + "\n")
    return n


def main():
    outdir = sys.argv[1] if len(sys.argv) > 1 else os.path.join(os.path.dirname(os.path.abspath(__file__)), "..", "coq", "Gen")
    try:
        n = emit_group(outdir)
    except TranslateError as e:
        print(str(e))
        sys.exit(2)
    print(f"translate_group: {n} group-verdict functions -> {outdir}/GroupGen.v")


if __name__ == "__main__":
    main()
