#!/venv/bin/python
"""Statement-by-statement translation of the STRUCTURE of what tealer's exporters draw into Gallina (Gen/OutputGen.v).

Translated (read with `ast` only, never imported):
  utils/output.py         : _bb_to_dot                          -> bb_to_dot_gen
                            full_cfg_to_dot                     -> full_cfg_to_dot_gen
                            subroutine_to_dot                   -> subroutine_to_dot_gen
                            detector_ouptut_dir                 -> detector_ouptut_dir_gen
                            ExecutionPaths._filename            -> filename_gen
                            ExecutionPaths._short_notation      -> short_notation_gen
                            ExecutionPaths.filter_paths         -> filter_paths_gen
                            ExecutionPaths.generate_output      -> generate_output_gen
  printers/call_graph.py  : PrinterCallGraph._construct_call_graph -> construct_call_graph_gen
                            PrinterCallGraph.print                 -> print_gen
The hand-written counterpart is Model/Output.v; Lemmas/OutputGenLemmas.v proves generated = hand-written.

What is translated is WHICH nodes, edges, clusters and call boxes are emitted, in emission order, not the DOT text.
  * A DOT text fragment (Python `str`) is read as the LIST OF STRUCTURAL ITEMS it contains (type STR = `list item`).
    The only ways to build such a value are
      - an f-string whose template (literal text, holes numbered {0} {1} ..) is an entry of ITEM_TEMPLATES: the entry
        fixes the types of the holes and the item list the template denotes (e.g. '{0}:s -> {1}:{2}:n [color="{3}"];\n'
        with holes int, int, int, colour is [IEdge {0} {1} {2} {3}]); the hole expressions are translated and evaluated
        left to right, as Python does.  The table is the fingerprint: any edit of a template stops the translator;
      - a string constant of STR_CONSTANTS (they contain no item: []);
      - `"".join(l)` / `"\n".join(l)` of a list of fragments (concat), `a += b` on fragments (++), a call of another
        translated function.
    Any other string-building expression has no STR reading and is rejected (or has type TEXT, below, which is not
    accepted where a fragment is expected).
  * Real strings (type TEXT = `string`): names of subroutines, node names of the call boxes, file names, the short
    notation of a path.  f-strings of TEXT_TEMPLATES only (concatenation; an int hole is printed in decimal), the constant
    "none", html.escape(x, quote=True) (html_escape of the prelude), str(i).  `sep.join(str(e) for ..)` and
    `sep.join(map(str, l))` are read as the list of the numbers (type nums(sep) = `list nat`); where a TEXT is expected
    (the return value of _short_notation) it is join sep (map py_str_int l).
  * The label of a node (the TABLE of _bb_to_dot) is not modelled except for its border colour: the statements that build
    the rows are recognised by their exact text (LABEL_STATEMENTS, variables of type OPAQUE that may only flow into the
    rows hole of the TABLE template); of what they evaluate only bb.entry_instr.line of the PORT is kept (IndexError on an
    empty block); the text formatting of the rows (_instruction_to_dot, html.escape of comments) is taken to be total.
    Colours: a read of config.jump_branch_color / default_branch_color / callsub_edge_color / remaining_edges_color IS
    the colour class EJump / EDefault / ECall / EPlain (no code assigns these fields: checked).  The border strings
    "BLACK", "#000066", "RED" are BBlack, BSub, BRed.
  * CFGDotConfig is the record dotconfig (ignore_edge, color_edges, bb_border_color); `config.f = v` re-binds the local
    variable (the config objects are never aliased inside a translated function: a config variable can only be bound to
    CFGDotConfig() or to a parameter).  The callee's assignment to config.ignore_edge is not propagated back to the
    caller; this is sound because the only read of ignore_edge (graph_edge_str of _bb_to_dot) is preceded, in every
    translated caller of _bb_to_dot, by an assignment of the field (checked).
    A lambda is a Gallina closure over the CURRENT values of the local variables it mentions; this is Python's meaning
    when none of them is re-assigned while the closure is live (checked; the loop of generate_output re-assigns path_ids
    and immediately replaces the closure before config is used again: checked by check_captures).
  * Files.  `with open(f, "w", encoding="utf-8") as f: f.write(x)` is "the file f now holds x"; a function of type
    OUTCOME returns Returned x (`return x`), Written f x (`return None` / end of the function after the write) or
    Nothing.  generate_output collects the outcomes of its calls of full_cfg_to_dot, in order (second component of its
    result).  A Path is the list of its components.  print(..) and os.makedirs(..) have no structural effect.
  * Object graph: the contract is `t : Cfg.teal` (every expression of type Teal is `t`); a BasicBlock is its idx (nat);
    a Subroutine is the model record; an Instruction is its position in t_prog t.  Attribute reads go through the FIXED
    glue table of the prelude; the Python text of every property behind it is fingerprinted.
  * control flow as in tools/translate_search.py / translate_regex.py: exception monad of Gen/KeysGen.v, `for` = fold
    over the list (state = the variables re-assigned in the body that are bound before the loop; loops nest; `continue`
    ends the body), early `return` through the continuation, join points `let kN := fun .. => .. in` for an `if` that is
    followed by more statements and falls through more than once, `if x is None` / `is not None` / `not x` on an Optional
    is a match (narrowing).  A set of str is the list of its elements in order of first insertion (Python's iteration
    order over such a set is unspecified); a dict is an association list in insertion order.

Fail-closed: every statement kind, expression kind, attribute, call, template and variable type that is not
whitelisted below raises TranslateError.
"""
import ast
import os
import re
import sys

from tcommon import TranslateError, fail, parse, strip_doc, T, coq_str
from translate_keys import indent, same_text, check_no_subclasses
from translate_asserted import find_toplevel, find_class, bound_names, need_origin
from translate_graph import member, member_text, check_single_binding

OUT_REL = "utils/output.py"
CG_REL = "printers/call_graph.py"
BB_REL = "teal/basic_blocks.py"
SUB_REL = "teal/subroutine.py"
TEAL_REL = "teal/teal.py"
INS_REL = "teal/instructions/instructions.py"
AP_REL = "printers/abstract_printer.py"
INS_MODULE = "tealer.teal.instructions.instructions"
OUT_MODULE = "tealer.utils.output"

# ----------------------------------------------------------------------------- types of the little typed language
INT, BOOL, BLK, SUB, TEXT, STR, BORDER, COLOR, CONFIG, TEAL, OPAQUE, INSOBJ, PATH, OUTCOME, DETECTOR, NONE, ANYLIST = (
    "int", "bool", "block", "sub", "text", "str", "border", "color", "config", "teal", "opaque", "insobj", "path", "outcome", "detector", "none", "list ?",
)  # fmt: skip


def tlist(x):
    return ("list", x)


def topt(x):
    return ("opt", x)


def tset(x):
    return ("set", x)


def tprod(a, b):
    return ("prod", a, b)


def tnums(sep):
    return ("nums", sep)


def tdict(k, v):
    return ("dict", k, v)


ATOM_COQ = {
    INT: "nat", BOOL: "bool", BLK: "nat", SUB: "Cfg.subroutine", TEXT: "string", STR: "list item", BORDER: "border",
    COLOR: "ecolor", CONFIG: "dotconfig", INSOBJ: "nat", PATH: "list string", OUTCOME: "dotout",
}  # fmt: skip


def coqty(ty, top=False):
    if isinstance(ty, str):
        if ty not in ATOM_COQ:
            raise TranslateError(f"translator: a value of type {ty} has no Gallina representation")
        s = ATOM_COQ[ty]
        return s if top or " " not in s else f"({s})"
    k = ty[0]
    if k in ("list", "set"):
        s = f"list {coqty(ty[1])}"
    elif k == "opt":
        s = f"option {coqty(ty[1])}"
    elif k == "prod":
        s = f"{coqty(ty[1])} * {coqty(ty[2])}"
    elif k == "nums":
        s = "list nat"
    elif k == "dict":
        s = f"list ({coqty(ty[1])} * {coqty(ty[2])})"
    else:
        raise TranslateError(f"translator: type {ty}")
    return s if top else f"({s})"


def unify(a, b):
    """the common type of two branch ends (None: incompatible)"""
    if a == b:
        return a
    if a == ANYLIST and isinstance(b, tuple) and b[0] == "list":
        return b
    if b == ANYLIST and isinstance(a, tuple) and a[0] == "list":
        return a
    if a == NONE and isinstance(b, tuple) and b[0] == "opt":
        return b
    if b == NONE and isinstance(a, tuple) and a[0] == "opt":
        return a
    if a == NONE and isinstance(b, str):
        return topt(b)
    if b == NONE and isinstance(a, str):
        return topt(a)
    if isinstance(a, tuple) and a[0] == "opt" and a[1] == b:
        return a
    if isinstance(b, tuple) and b[0] == "opt" and b[1] == a:
        return b
    return None


def coerce(t, ty, want):
    """pure term t : ty used where `want` is expected (Some-wrapping of Optionals, nums -> text)"""
    if ty == want or want is None:
        return t
    if ty == ANYLIST and isinstance(want, tuple) and want[0] == "list":
        return t
    if ty == NONE and isinstance(want, tuple) and want[0] == "opt":
        return "None"
    if isinstance(want, tuple) and want[0] == "opt" and want[1] == ty:
        return f"(Some {t})"
    if isinstance(ty, tuple) and ty[0] == "nums" and want == TEXT:
        return f"(nums_text {coq_str(ty[1])} {t})"
    return None


# ----------------------------------------------------------------------------- the fixed tables
# f-string templates that denote structural items: template -> (name, hole types, builder of the item list)
ITEM_TEMPLATES = {
    '{0}:s -> {1}:{2}:n [color="{3}"];\n': ("EDGE", [INT, INT, INT, COLOR], lambda a: f"[IEdge {a[0]} {a[1]} {a[2]} {a[3]}]"),
    "{0}[label={1}] {2}": ("NODE", [INT, BORDER, STR], lambda a: f"([INode {a[0]} {a[1]}] ++ {a[2]})"),
    "digraph g{{\n ranksep = 1 \n overlap = scale \n{0}\n{1}\n}}": ("DIGRAPH2", [STR, STR], lambda a: f"({a[0]} ++ {a[1]})"),
    "digraph g{{\n ranksep = 1 \n overlap = scale \n{0}\n}}": ("DIGRAPH1", [STR], lambda a: a[0]),
    '\n            subgraph cluster_{0} {{\n                label = "Subroutine {1}";\n                graph[style=dashed];\n                {2};\n            }}\n        ': (
        "CLUSTER", [INT, TEXT, tnums(" ")], lambda a: f"[ICluster {a[0]} {a[1]} {a[2]}]",
    ),
    "{0}[label={1},style=dashed,shape=box,fontname=bold] {2}{3}": ("BOX", [TEXT, TEXT, STR, STR], lambda a: f"([IBox {a[0]} {a[1]}] ++ {a[2]} ++ {a[3]})"),
    "{0}:s -> {1}:n;\n": ("BOXIN", [INT, TEXT], lambda a: f"[IBoxIn {a[0]} {a[1]}]"),
    "{0}:s -> {1}:{2}:n;\n": ("BOXOUT", [TEXT, INT, INT], lambda a: f"[IBoxOut {a[0]} {a[1]} {a[2]}]"),
    "{0}[label={1}];\n": ("CGNODE", [TEXT, TEXT], lambda a: f"[ICgNode {a[0]} {a[1]}]"),
    "{0} -> {1};\n": ("CGEDGE", [TEXT, TEXT], lambda a: f"[ICgEdge {a[0]} {a[1]}]"),
}  # fmt: skip
# the TABLE of a node: only its border colour is kept; hole 1 is the (opaque) text of the rows
TABLE_TEMPLATE = '<<TABLE ALIGN="LEFT" COLOR="{0}">\n{1}</TABLE>> labelloc=top shape=plain\n'
# f-strings that are real strings
TEXT_TEMPLATES = {
    '"Subroutine {0}"': [TEXT],
    "x{0}_{1}": [INT, TEXT],
    "{0}-{1}.dot": [TEXT, INT],
}
STR_CONSTANTS = {"", "digraph g{\n", "}\n"}
TEXT_CONSTANTS = {"none", "call-graph.dot"}
BORDER_CONSTANTS = {"BLACK": "BBlack", "#000066": "BSub", "RED": "BRed"}
COLOR_FIELDS = {"jump_branch_color": "EJump", "default_branch_color": "EDefault", "callsub_edge_color": "ECall", "remaining_edges_color": "EPlain"}
JOIN_SEPARATORS = {"", "\n"}  # separators of fragment lists: they contain no item
NUMS_SEPARATORS = {" ", " -> "}
CLASS_PATTERNS = {"BZ": "IBZ _", "BNZ": "IBNZ _", "Callsub": "ICallsub _", "Retsub": "IRetsub"}

# the statements of _bb_to_dot that build the rows of the node label: exact text -> (variables of type OPAQUE it binds,
# glue term it evaluates (the only exception of the statement that the structure can observe) or None)
LABEL_STATEMENTS = [
    ("table_rows: List[str] = []", ["table_rows"], None),
    (
        "santized_comments = [html.escape(comment.strip(), quote=True) for comment in bb.tealer_comments + config.bb_additional_comments(bb)]",
        ["santized_comments"], None,
    ),
    (
        "comments_cell_str = f'<TR><TD COLOR=\"BLACK\" ALIGN=\"LEFT\" BALIGN=\"LEFT\" PORT=\"{bb.entry_instr.line}\" "
        "BORDER=\"{config.comments_cell_border_size}\"><B>{\"<BR/>\".join((f\"// {comment}\" for comment in santized_comments))}</B></TD></TR>\\n'",
        ["comments_cell_str"], "(bind (attr_entry_instr bb) (fun tmp_port => (attr_line tmp_port)))",
    ),
    ("table_rows.append(comments_cell_str)", [], None),
    ("for ins in bb.instructions:\n    table_rows.append(_instruction_to_dot(ins, config))", [], None),
]  # fmt: skip
SKIP_STATEMENTS = ["os.makedirs(dest, exist_ok=True)"]

# (attribute, type of the object) -> (glue, result type, pure)
ATTRS = {
    ("idx", BLK): ("attr_block_idx", INT, True),
    ("next", BLK): ("attr_next", tlist(BLK), False),
    ("entry_instr", BLK): ("attr_entry_instr", INSOBJ, False),
    ("exit_instr", BLK): ("attr_exit_instr", INSOBJ, False),
    ("is_callsub_block", BLK): ("attr_is_callsub_block", BOOL, False),
    ("called_subroutine", BLK): ("attr_called_subroutine", SUB, False),
    ("sub_return_point", BLK): ("attr_sub_return_point", topt(BLK), False),
    ("subroutine", BLK): ("attr_subroutine", SUB, False),
    ("line", INSOBJ): ("attr_line", INT, False),
    ("name", SUB): ("attr_name", TEXT, True),
    ("entry", SUB): ("attr_entry", BLK, True),
    ("blocks", SUB): ("attr_blocks", tlist(BLK), True),
    ("caller_blocks", SUB): ("attr_caller_blocks", tlist(BLK), True),
    ("retsub_blocks", SUB): ("attr_retsub_blocks", tlist(BLK), True),
    ("bbs", TEAL): ("attr_bbs", tlist(BLK), True),
    ("main", TEAL): ("attr_main", SUB, True),
    ("version", TEAL): ("attr_version", INT, True),
    ("contract_name", TEAL): ("contract_name", TEXT, True),
    ("NAME", DETECTOR): ("detector_name", TEXT, True),
    ("color_edges", CONFIG): ("cfg_color_edges", BOOL, True),
}
# callable fields of CFGDotConfig: name -> (record field, argument types, result type)
CONFIG_CALLS = {
    "ignore_edge": ("cfg_ignore_edge", [BLK, BLK], BOOL),
    "bb_border_color": ("cfg_bb_border_color", [BLK], BORDER),
}
CONFIG_SETTERS = {"ignore_edge": "set_ignore_edge", "color_edges": "set_color_edges", "bb_border_color": "set_bb_border_color"}

# the translated functions: python name -> (generated name, [(parameter, annotation text, default text, type)], result)
#   result: a type; ("state", name): the function returns None and its result is the final value of self.<name>;
#   ("files", type): the pair (returned value, outcomes of the files written by the calls of full_cfg_to_dot)
FUNCS = {
    "_bb_to_dot": ("bb_to_dot_gen", [("bb", "'BasicBlock'", None, BLK), ("config", "CFGDotConfig", None, CONFIG)], "str", STR),
    "subroutine_to_dot": (
        "subroutine_to_dot_gen",
        [("subroutine", "'Subroutine'", None, SUB), ("config", "Optional[CFGDotConfig]", "None", topt(CONFIG))], "str", STR,
    ),
    "full_cfg_to_dot": (
        "full_cfg_to_dot_gen",
        [("teal", "'Teal'", None, TEAL), ("config", "Optional[CFGDotConfig]", "None", topt(CONFIG)), ("filename", "Optional[Path]", "None", topt(PATH))],
        "Optional[str]", OUTCOME,
    ),
    "detector_ouptut_dir": (
        "detector_ouptut_dir_gen", [("destination", "Path", None, PATH), ("detector", "'AbstractDetector'", None, DETECTOR)], "Path", PATH,
    ),
}  # fmt: skip
METHODS = {
    "_filename": ("filename_gen", [("self", None, None, None), ("path_index", "int", None, INT)], "Path", PATH, []),
    "_short_notation": ("short_notation_gen", [("path_bbs", "List['BasicBlock']", None, tlist(BLK))], "str", TEXT, ["staticmethod"]),
    "filter_paths": ("filter_paths_gen", [("self", None, None, None), ("filter_regex", "str", None, TEXT)], "None", ("state", "paths"), []),
    "generate_output": ("generate_output_gen", [("self", None, None, None), ("dest", "Path", None, PATH)], "bool", ("files", BOOL), []),
}  # fmt: skip
CG_METHODS = {
    "_construct_call_graph": ("construct_call_graph_gen", [("self", None, None, None)], "Dict[str, Set[str]]", tdict(TEXT, tset(TEXT)), []),
    "print": ("print_gen", [("self", None, None, None)], "None", OUTCOME, []),
}
# attributes of self: class -> name -> (term, type, assignable)
SELF_ATTRS = {
    "ExecutionPaths": {"paths": ("self_paths", tlist(tlist(BLK)), True), "_teal": ("t", TEAL, False), "detector": ("tt", DETECTOR, False)},
    "PrinterCallGraph": {"teal": ("t", TEAL, False)},
}
# nested function definitions: name -> (parameter annotations, parameter types, return annotation, result type)
NESTED = {
    "graph_edge_str": (["'BasicBlock'", "'BasicBlock'", "str"], [BLK, BLK, COLOR], "str", STR),
    "empty_subroutine_box": (["'BasicBlock'"], [BLK], "str", STR),
}
ANNOTATIONS = {
    "List[str]": tlist(STR),
    "List[List['BasicBlock']]": tlist(tlist(BLK)),
    "Dict[str, Set[str]]": tdict(TEXT, tset(TEXT)),
}

# Python text (docstrings stripped, layout normalised) of everything the glue table stands for
FINGERPRINTS = [
    (BB_REL, "BasicBlock", "idx", "@property\ndef idx(self) -> int:\n    return self._idx"),
    (BB_REL, "BasicBlock", "next", "@property\ndef next(self) -> List['BasicBlock']:\n    return self._next"),
    (BB_REL, "BasicBlock", "instructions", "@property\ndef instructions(self) -> List[Instruction]:\n    return self._instructions"),
    (BB_REL, "BasicBlock", "entry_instr", "@property\ndef entry_instr(self) -> Instruction:\n    return self._instructions[0]"),
    (BB_REL, "BasicBlock", "exit_instr", "@property\ndef exit_instr(self) -> Instruction:\n    return self._instructions[-1]"),
    (
        BB_REL, "BasicBlock", "subroutine",
        "@property\ndef subroutine(self) -> 'Subroutine':\n    if self._subroutine is None:\n"
        "        raise TealerException(f'subroutine of B{self._idx} is not initialized')\n    return self._subroutine",
    ),
    (BB_REL, "BasicBlock", "is_callsub_block", "@property\ndef is_callsub_block(self) -> bool:\n    return isinstance(self.exit_instr, Callsub)"),
    (
        BB_REL, "BasicBlock", "called_subroutine",
        "@property\ndef called_subroutine(self) -> 'Subroutine':\n    if not isinstance(self.exit_instr, Callsub):\n"
        "        raise TealerException('called subroutine of a non callsub block is accessed')\n"
        "    return self.exit_instr.called_subroutine",
    ),
    (
        BB_REL, "BasicBlock", "sub_return_point",
        "@property\ndef sub_return_point(self) -> Optional['BasicBlock']:\n    if not self.is_callsub_block:\n"
        "        raise TealerException('sub_return_point block of a non callsub block is accessed')\n"
        "    return self.next[0] if self.next else None",
    ),
    (
        INS_REL, "Callsub", "called_subroutine",
        "@property\ndef called_subroutine(self) -> 'Subroutine':\n    if self._called_subroutine is None:\n"
        "        raise TealerException(f'callsub.called_subroutine is accessed before assignment: {str(self)}')\n"
        "    return self._called_subroutine",
    ),
    (INS_REL, "Instruction", "line", "@property\ndef line(self) -> int:\n    return self._line_num"),
    (
        SUB_REL, "Subroutine", "__init__",
        "def __init__(self, name: str, entry: 'BasicBlock', blocks: List['BasicBlock']) -> None:\n"
        "    self._name = name\n    self._entry = entry\n    self._blocks = blocks\n"
        "    self._exit_blocks = [b for b in blocks if len(b.next) == 0 or isinstance(b.exit_instr, Retsub)]\n"
        "    self._contract: Optional['Teal'] = None\n    self._caller_callsub_blocks: List['BasicBlock'] = []\n"
        "    self._return_point_blocks: List['BasicBlock'] = []",
    ),
    (SUB_REL, "Subroutine", "name", "@property\ndef name(self) -> str:\n    return self._name"),
    (SUB_REL, "Subroutine", "entry", "@property\ndef entry(self) -> 'BasicBlock':\n    return self._entry"),
    (SUB_REL, "Subroutine", "blocks", "@property\ndef blocks(self) -> List['BasicBlock']:\n    return self._blocks"),
    (SUB_REL, "Subroutine", "caller_blocks", "@property\ndef caller_blocks(self) -> List['BasicBlock']:\n    return self._caller_callsub_blocks"),
    (
        SUB_REL, "Subroutine", "retsub_blocks",
        "@property\ndef retsub_blocks(self) -> List['BasicBlock']:\n"
        "    return [b for b in self._exit_blocks if isinstance(b.exit_instr, Retsub)]",
    ),
    (TEAL_REL, "Teal", "bbs", "@property\ndef bbs(self) -> List[BasicBlock]:\n    return self._bbs"),
    (TEAL_REL, "Teal", "main", "@property\ndef main(self) -> 'Subroutine':\n    return self._main"),
    (TEAL_REL, "Teal", "subroutines", "@property\ndef subroutines(self) -> Dict[str, 'Subroutine']:\n    return self._subroutines"),
    (TEAL_REL, "Teal", "version", "@property\ndef version(self) -> int:\n    return self._version"),
    (TEAL_REL, "Teal", "contract_name", "@property\ndef contract_name(self) -> str:\n    return self._contract_name"),
]  # fmt: skip
IDENTITY_CLASSES = [(BB_REL, "BasicBlock"), (SUB_REL, "Subroutine")]
CONFIG_CLASS = (
    "@dataclass\nclass CFGDotConfig:\n    ins_additional_comments: Callable[['Instruction'], List[str]] = lambda _x: []\n"
    "    bb_additional_comments: Callable[['BasicBlock'], List[str]] = lambda _x: []\n"
    "    ignore_edge: Callable[['BasicBlock', 'BasicBlock'], bool] = lambda _bi, _bj: False\n    color_edges: bool = True\n"
    "    jump_branch_color: str = '#36d899'\n    default_branch_color: str = '#e0182b'\n    callsub_edge_color: str = '#ff8c00'\n"
    "    remaining_edges_color: str = 'BLACK'\n    comments_cell_border_size: int = 2\n"
    "    bb_border_color: Callable[['BasicBlock'], str] = lambda _x: 'BLACK'\n"
    "    custom_background_color: Dict['Instruction', str] = field(default_factory=dict)"
)
EXECUTION_PATHS_INIT = (
    "def __init__(self, teal: 'Teal', detector: 'AbstractDetector', paths: List[List['BasicBlock']]):\n"
    "    self._teal = teal\n    self._detector = detector\n    self.paths: List[List['BasicBlock']] = paths"
)
EXECUTION_PATHS_DETECTOR = "@property\ndef detector(self) -> 'AbstractDetector':\n    return self._detector"

RESERVED = {
    "t", "acc", "st", "x", "l", "k", "ret", "bind", "py", "ifE", "notE", "andE", "orE", "subscript", "fold_left", "fst", "snd", "negb", "andb", "orb",
    "true", "false", "nil", "cons", "app", "length", "Some", "None", "O", "S", "nat", "bool", "string", "list", "option", "map", "filter", "concat",
    "combine", "seq", "item", "border", "outcome", "dotout", "dotconfig", "ecolor", "instr", "teal", "block", "tblock", "exit_op", "join",
    "in", "at", "as", "fun", "let", "match", "end", "if", "then", "else", "return", "with", "forall", "exists", "fix", "cofix", "for", "where", "using",
    "Type", "Prop", "Set", "SProp", "struct", "self", "files", "written", "self_paths", "tt", "unit", "re_search", "detector_name", "contract_name",
    "root_output_directory", "comp", "str_set", "dict_set", "nat_mem", "html_escape", "py_str_int", "nums_text", "list_is_empty", "opt_is_some",
    "default_config", "mkConfig", "Returned", "Written", "Nothing", "INode", "IEdge", "ICluster", "IBox", "IBoxIn", "IBoxOut", "ICgNode", "ICgEdge",
    "BBlack", "BSub", "BRed", "EDefault", "EJump", "ECall", "EPlain", "ins_op", "call_re_search", "enumerate_from", "String", "EmptyString", "append",
}  # fmt: skip
RESERVED |= {g for g, _, _ in ATTRS.values()} | {g for g, _, _ in CONFIG_CALLS.values()} | set(CONFIG_SETTERS.values())
RESERVED |= {v[0] for v in FUNCS.values()} | {v[0] for v in METHODS.values()} | {v[0] for v in CG_METHODS.values()}

PRELUDE = r"""
(* ====================================================================== *)
(* PRELUDE (fixed text).  The exception monad is the one of Gen/KeysGen.v.  *)
(* ====================================================================== *)
(* ---- the structural items of a DOT text, in emission order.  How an emitting f-string is read as items is the table
   ITEM_TEMPLATES of tools/translate_output.py (the exact template text is the fingerprint):
     '{0}:s -> {1}:{2}:n [color="{3}"];\n'                          [IEdge {0} {1} {2} {3}]      graph_edge_str
     '{0}[label={1}] {2}'                                            [INode {0} {1}] ++ {2}       _bb_to_dot ({1}: border of the TABLE)
     'digraph g{\n ranksep = 1 \n overlap = scale \n{0}\n{1}\n}'     {0} ++ {1}                   full_cfg_to_dot
     'digraph g{\n ranksep = 1 \n overlap = scale \n{0}\n}'          {0}                          subroutine_to_dot
     'subgraph cluster_{0} { label = "Subroutine {1}"; graph[style=dashed]; {2}; }'   [ICluster {0} {1} {2}]
     '{0}[label={1},style=dashed,shape=box,fontname=bold] {2}{3}'    [IBox {0} {1}] ++ {2} ++ {3} empty_subroutine_box
     '{0}:s -> {1}:n;\n'                                             [IBoxIn {0} {1}]
     '{0}:s -> {1}:{2}:n;\n'                                         [IBoxOut {0} {1} {2}]
     '{0}[label={1}];\n'                                             [ICgNode {0} {1}]            PrinterCallGraph.print
     '{0} -> {1};\n'                                                 [ICgEdge {0} {1}]
   the constants "", "digraph g{\n", "}\n" and the separators "", "\n" of str.join contain no item. *)
Inductive border := BBlack | BSub | BRed.      (* "BLACK", "#000066" (subroutine_blocks_border_color), "RED" *)
Inductive item :=
| INode (n : nat) (b : border)                         (* node of block n, TABLE COLOR = b *)
| IEdge (src dst port : nat) (c : ecolor)              (* src:s -> dst:port:n [color=c] *)
| ICluster (i : nat) (name : string) (members : list nat)
| IBox (name label : string)                           (* dashed box standing for a called subroutine *)
| IBoxIn (src : nat) (box : string)                    (* src:s -> box:n *)
| IBoxOut (box : string) (dst port : nat)              (* box:s -> dst:port:n *)
| ICgNode (name label : string)
| ICgEdge (src dst : string).
(* what a function that may write its text to a file produced *)
Inductive dotout := Returned (s : list item) | Written (file : list string) (s : list item) | Nothing.

(* CFGDotConfig: the fields the structure depends on.  A read of config.jump_branch_color / default_branch_color /
   callsub_edge_color / remaining_edges_color is the colour class EJump / EDefault / ECall / EPlain of Model/Output.v *)
Record dotconfig := mkConfig {
  cfg_ignore_edge : nat -> nat -> py bool;
  cfg_color_edges : bool;
  cfg_bb_border_color : nat -> py border }.
(* CFGDotConfig(): ignore_edge = lambda _bi, _bj: False, color_edges = True, bb_border_color = lambda _x: "BLACK" *)
Definition default_config : dotconfig := mkConfig (fun _ _ => ret false) true (fun _ => ret BBlack).
Definition set_ignore_edge (c : dotconfig) (f : nat -> nat -> py bool) : dotconfig :=
  mkConfig f (cfg_color_edges c) (cfg_bb_border_color c).
Definition set_color_edges (c : dotconfig) (b : bool) : dotconfig :=
  mkConfig (cfg_ignore_edge c) b (cfg_bb_border_color c).
Definition set_bb_border_color (c : dotconfig) (f : nat -> py border) : dotconfig :=
  mkConfig (cfg_ignore_edge c) (cfg_color_edges c) f.

(* ---- Python values *)
(* str(i) for a non-negative int *)
Definition py_str_int (n : nat) : string := string_of_N (N.of_nat n).
(* sep.join(str(e) for ..) / sep.join(map(str, l)) as a real string *)
Definition nums_text (sep : string) (l : list nat) : string := join sep (map py_str_int l).
(* html.escape(s, quote=True) *)
Definition html_escape_char (c : ascii) : string :=
  if Ascii.eqb c "&" then "&amp;" else if Ascii.eqb c "<" then "&lt;" else if Ascii.eqb c ">" then "&gt;"
  else if Ascii.eqb c (ascii_of_nat 34) then "&quot;" else if Ascii.eqb c "'" then "&#x27;" else String c EmptyString.
Fixpoint html_escape (s : string) : string :=
  match s with EmptyString => EmptyString | String c r => (html_escape_char c ++ html_escape r)%string end.
(* [e(x) for x in l if c(x)] and the generator forms, left to right; an exception of c or e is an exception *)
Fixpoint comp {A B : Type} (c : A -> py bool) (e : A -> py B) (l : list A) : py (list B) :=
  match l with
  | [] => ret []
  | x :: r => bind (c x) (fun keep =>
              if keep then bind (e x) (fun y => bind (comp c e r) (fun ys => ret (y :: ys))) else comp c e r)
  end.
(* set(l) for strings: the elements in order of first insertion (the iteration order of a Python set of str is
   unspecified: the order of the items produced by iterating it is meaningful up to permutation only) *)
Fixpoint str_set (l : list string) : list string :=
  match l with [] => [] | x :: r => x :: filter (fun y => negb (String.eqb y x)) (str_set r) end.
(* d[k] = v on a dict with str keys: an existing key keeps its position *)
Fixpoint dict_set {V : Type} (d : list (string * V)) (k : string) (v : V) : list (string * V) :=
  match d with
  | [] => [(k, v)]
  | (k', v') :: r => if String.eqb k' k then (k', v) :: r else (k', v') :: dict_set r k v
  end.
(* `not l` on a list *)
Definition list_is_empty {A : Type} (l : list A) : bool := match l with [] => true | _ => false end.
(* enumerate(l, start=n) *)
Definition enumerate_from {A : Type} (n : nat) (l : list A) : list (nat * A) := combine (seq n (length l)) l.

Section OutputGen.
  (* the contract: every Python expression of type Teal *)
  Variable t : Cfg.teal.
  (* re.search(pattern, text) is not None; None: re.error *)
  Variable re_search : string -> string -> py bool.
  (* self.detector.NAME, teal.contract_name (not part of the model's teal), ROOT_OUTPUT_DIRECTORY (os.getenv) *)
  Variable detector_name : string.
  Variable contract_name : string.
  Variable root_output_directory : list string.

  (* ---- GLUE TABLE: the object graph.  BasicBlock = its idx (nat; the blocks of teal.bbs have pairwise distinct idx:
     _add_basic_blocks_idx), dereferenced with Cfg.tblock t (a reference that is not a block of t has no attributes:
     None); Subroutine = the model record (teal.main = t_main t, teal.subroutines = t_subs t, in dict order);
     Instruction = its position in t_prog t.  BasicBlock and Subroutine define no __eq__/__hash__ (checked): `in` is
     identity = equality of ids.  How parse_teal fills these objects is Gen/CfgGen.v / Props C04, C05. *)
  (* bb.idx = self._idx: the representation itself *)
  Definition attr_block_idx (bb : nat) : nat := bb.
  (* bb.next = self._next *)
  Definition attr_next (bb : nat) : py (list nat) := option_map b_next (tblock t bb).
  (* bb.entry_instr = self._instructions[0], bb.exit_instr = self._instructions[-1]: IndexError on an empty block *)
  Definition attr_entry_instr (bb : nat) : py nat := bind (tblock t bb) (fun b => hd_error (b_ins b)).
  Definition attr_exit_instr (bb : nat) : py nat :=
    bind (tblock t bb) (fun b => match b_ins b with [] => None | l => Some (List.last l 0) end).
  (* ins.line = self._line_num; the class of the object, for isinstance (the four classes have no subclasses: checked) *)
  Definition attr_line (i : nat) : py nat := option_map i_line (nth_error (t_prog t) i).
  Definition ins_op (i : nat) : py instr := op_at (t_prog t) i.
  (* bb.is_callsub_block = isinstance(self.exit_instr, Callsub) *)
  Definition attr_is_callsub_block (bb : nat) : py bool :=
    bind (attr_exit_instr bb) (fun i => bind (ins_op i) (fun o => ret (match o with ICallsub _ => true | _ => false end))).
  (* bb.called_subroutine: TealerException unless the exit instruction is a Callsub; Callsub.called_subroutine is the
     Subroutine parse_teal registered under the label (TealerException when unset): Cfg.called_subroutine *)
  Definition attr_called_subroutine (bb : nat) : py Cfg.subroutine := bind (tblock t bb) (called_subroutine t).
  (* bb.sub_return_point: TealerException unless is_callsub_block; self.next[0] if self.next else None *)
  Definition attr_sub_return_point (bb : nat) : py (option nat) :=
    bind (attr_is_callsub_block bb) (fun c => if c then option_map sub_return_point (tblock t bb) else None).
  (* bb.subroutine: the Subroutine the block was assigned to last (TealerException when unset): Cfg.sub_of_block *)
  Definition attr_subroutine (bb : nat) : py Cfg.subroutine := bind (tblock t bb) (fun _ => sub_of_block t bb).
  Definition attr_name (s : Cfg.subroutine) : string := s_name s.
  Definition attr_entry (s : Cfg.subroutine) : nat := s_entry s.
  Definition attr_blocks (s : Cfg.subroutine) : list nat := s_blocks s.
  Definition attr_caller_blocks (s : Cfg.subroutine) : list nat := s_callers s.
  (* [b for b in self._exit_blocks if isinstance(b.exit_instr, Retsub)], _exit_blocks = [b for b in blocks if
     len(b.next) == 0 or isinstance(b.exit_instr, Retsub)]: the blocks of the subroutine ending in retsub *)
  Definition attr_retsub_blocks (s : Cfg.subroutine) : list nat := retsub_blocks t s.
  Definition attr_bbs : list nat := map b_idx (t_blocks t).
  Definition attr_main : Cfg.subroutine := t_main t.
  (* teal.subroutines.items(): the key of a subroutine is its name (parse_teal: subroutines[name] = Subroutine(name, ..)) *)
  Definition attr_subroutines_items : list (string * Cfg.subroutine) := map (fun s => (s_name s, s)) (t_subs t).
  Definition attr_version : nat := N.to_nat (t_version t).
  Definition call_re_search (pattern text : string) : py bool := re_search pattern text.
"""


# ----------------------------------------------------------------------------- environment
class Env:
    def __init__(self, path, vars_, imports, result, cls=None, label_ok=False, fn=None):
        self.path = path
        self.vars = dict(vars_)  # python name -> type (the Coq name is the Python name; a Teal is always `t`)
        self.imports = imports
        self.result = result  # type | ("state", attr) | ("files", type)
        self.cls = cls
        self.label_ok = label_ok
        self.fn = fn  # the enclosing top-level function / method (for the capture checks)
        self.counter = [0, 0]  # temporaries, join points
        self.depth = 0  # loop nesting
        self.nested = None  # name of the nested def being translated
        self.cont_loop = None  # what `continue` / the end of the innermost loop body is

    def child(self, **new):
        e = Env(self.path, self.vars, self.imports, self.result, self.cls, self.label_ok, self.fn)
        e.counter = self.counter
        e.depth = self.depth
        e.nested = self.nested
        e.cont_loop = self.cont_loop
        e.vars.update(new)
        return e

    def fresh(self):
        self.counter[0] += 1
        return f"tmp{self.counter[0]}"

    def fresh_join(self):
        self.counter[1] += 1
        return f"k{self.counter[1]}"


def seq(env, parts, build, monadic_result=False):
    """parts: [(term, pure)]; build: function of the atoms -> term.  Impure parts are bound (left to right) to
    fresh names.  Returns (term, pure)."""
    binds, atoms = [], []
    for t, pure in parts:
        if pure:
            atoms.append(t)
        else:
            v = env.fresh()
            binds.append((v, t))
            atoms.append(v)
    body = build(*atoms)
    if not binds and not monadic_result:
        return body, True
    out = body if monadic_result else f"(ret {body})"
    for v, t in reversed(binds):
        out = f"(bind {t} (fun {v} => {out}))"
    return out, False


def as_monadic(t, pure):
    return f"(ret {t})" if pure else t


def is_name(e, n=None):
    return isinstance(e, ast.Name) and (n is None or e.id == n)


def is_none(e):
    return isinstance(e, ast.Constant) and e.value is None


def is_str(e):
    return isinstance(e, ast.Constant) and isinstance(e.value, str)


def is_self_attr(e, name=None):
    return isinstance(e, ast.Attribute) and is_name(e.value, "self") and (name is None or e.attr == name)


def check_name(env, name, node):
    if name in RESERVED or name.startswith("tmp") or name in CLASS_PATTERNS or (name.startswith("k") and name[1:].isdigit()):
        fail(env.path, node, f"variable name {name} is reserved by the translator")
    if re.fullmatch(r"(tmp|k|acc|st|elt)\d+", name) or name in FUNCS or name in NESTED:
        fail(env.path, node, f"variable name {name} is reserved by the translator")
    if not name.isidentifier() or not name.isascii():
        fail(env.path, node, f"variable name {name}")


def template_of(env, e):
    """the template text of an f-string (holes numbered) and the hole expressions"""
    out, holes = "", []
    for v in e.values:
        if isinstance(v, ast.Constant) and isinstance(v.value, str):
            out += v.value.replace("{", "{{").replace("}", "}}")
        elif isinstance(v, ast.FormattedValue) and v.conversion == -1 and v.format_spec is None:
            out += "{%d}" % len(holes)
            holes.append(v.value)
        else:
            fail(env.path, e, "f-string part " + ast.unparse(v)[:60])
    return out, holes


def typed(env, node, e, want):
    """translate e where a value of type `want` is needed -> (term, pure)"""
    t, ty, pure = expr(env, e, want)
    if ty == want:
        return t, pure
    if pure:
        c = coerce(t, ty, want)
        if c is not None:
            return c, True
    else:
        v = env.fresh()
        c = coerce(v, ty, want)
        if c is not None:
            return f"(bind {t} (fun {v} => (ret {c})))", False
    fail(env.path, node, f"a value of type {ty} where {want} is expected: {ast.unparse(e)[:60]}")


# ----------------------------------------------------------------------------- expressions
def expr(env, e, want=None):
    """-> (term, type, pure)"""
    p = env.path
    if isinstance(e, ast.Constant):
        v = e.value
        if v is True:
            return "true", BOOL, True
        if v is False:
            return "false", BOOL, True
        if v is None:
            return "None", NONE, True
        if isinstance(v, int) and not isinstance(v, bool) and v >= 0:
            return str(v), INT, True
        if isinstance(v, str):
            if want == TEXT:
                if v == "" or v in TEXT_CONSTANTS:
                    return coq_str(v), TEXT, True
                fail(p, e, f"string constant {v!r} where a real string is expected")
            if want == BORDER or (want is None and v in BORDER_CONSTANTS):
                if v in BORDER_CONSTANTS:
                    return BORDER_CONSTANTS[v], BORDER, True
                fail(p, e, f"string constant {v!r} where a border colour is expected")
            if v in STR_CONSTANTS and want in (None, STR):
                return "[]", STR, True
            if v in TEXT_CONSTANTS and want is None:
                return coq_str(v), TEXT, True
            fail(p, e, f"string constant {v!r} has no structural reading")
        fail(p, e, "constant " + ast.unparse(e))
    if isinstance(e, ast.Name):
        if e.id in env.vars:
            ty = env.vars[e.id]
            if ty == OPAQUE:
                fail(p, e, f"the label text {e.id} is used outside the rows of the TABLE")
            if isinstance(ty, tuple) and ty[0] == "fun":
                fail(p, e, f"the local function {e.id} is used as a value")
            if ty == NONE:
                return "None", NONE, True
            return ("t" if ty == TEAL else e.id), ty, True
        if e.id == "ROOT_OUTPUT_DIRECTORY":
            need_origin(env, e, e.id, {OUT_MODULE + "." + e.id, "<local>"})
            return "root_output_directory", PATH, True
        fail(p, e, f"unknown name {e.id}")
    if isinstance(e, ast.JoinedStr):
        return fstring(env, e)
    if isinstance(e, ast.Attribute):
        if is_self_attr(e):
            tab = SELF_ATTRS.get(env.cls, {})
            if e.attr in tab:
                t, ty, _ = tab[e.attr]
                return t, ty, True
            fail(p, e, "attribute of self " + ast.unparse(e))
        t, ty, pure = expr(env, e.value)
        if ty == CONFIG and e.attr in COLOR_FIELDS:
            return COLOR_FIELDS[e.attr], COLOR, True
        if (e.attr, ty) not in ATTRS:
            fail(p, e, f"attribute .{e.attr} of a value of type {ty}")
        g, rty, gpure = ATTRS[(e.attr, ty)]
        if ty in (TEAL, DETECTOR):
            return g, rty, True
        if gpure:
            out, pure2 = seq(env, [(t, pure)], lambda a: f"({g} {a})")
            return out, rty, pure2
        out, _ = seq(env, [(t, pure)], lambda a: f"({g} {a})", monadic_result=True)
        return out, rty, False
    if isinstance(e, ast.Subscript):
        l, lty, lp = expr(env, e.value)
        if not (isinstance(lty, tuple) and lty[0] == "list"):
            fail(p, e, f"subscript of a value of type {lty}")
        if not (isinstance(e.slice, ast.Constant) and isinstance(e.slice.value, int) and not isinstance(e.slice.value, bool) and e.slice.value >= 0):
            fail(p, e, "subscript index " + ast.unparse(e.slice))
        out, _ = seq(env, [(l, lp)], lambda a: f"(subscript {a} {e.slice.value})", monadic_result=True)
        return out, lty[1], False
    if isinstance(e, ast.UnaryOp):
        if isinstance(e.op, ast.Not):
            t, ty, pure = expr(env, e.operand)
            if isinstance(ty, tuple) and ty[0] == "list":
                out, pure2 = seq(env, [(t, pure)], lambda a: f"(list_is_empty {a})")
                return out, BOOL, pure2
            if ty != BOOL:
                fail(p, e, f"`not` of a value of type {ty}")
            return (f"(negb {t})" if pure else f"(notE {t})"), BOOL, pure
        fail(p, e, "unary operator")
    if isinstance(e, ast.BoolOp):
        parts = [expr(env, v) for v in e.values]
        for (_, ty, _), v in zip(parts, e.values):
            if ty != BOOL:
                fail(p, v, f"operand of and/or of type {ty}")
        allpure = all(pure for _, _, pure in parts)
        if isinstance(e.op, ast.And):
            fn = "andb" if allpure else "andE"
        elif isinstance(e.op, ast.Or):
            fn = "orb" if allpure else "orE"
        else:
            fail(p, e, "boolean operator")
        terms = [t if allpure else as_monadic(t, pure) for t, _, pure in parts]
        out = terms[-1]
        for t in reversed(terms[:-1]):
            out = f"({fn} {t} {out})"
        return out, BOOL, allpure
    if isinstance(e, ast.IfExp):
        c, cty, cp = expr(env, e.test)
        if cty != BOOL:
            fail(p, e, f"condition of type {cty}")
        a, aty, ap = expr(env, e.body, want)
        b, bty, bp = expr(env, e.orelse, want)
        ty = unify(aty, bty)
        if ty is None or ty != aty or ty != bty:
            fail(p, e, f"branches of types {aty}, {bty}")
        if cp and ap and bp:
            return f"(if {c} then {a} else {b})", ty, True
        return f"(ifE {as_monadic(c, cp)} {as_monadic(a, ap)} {as_monadic(b, bp)})", ty, False
    if isinstance(e, ast.Compare):
        return compare(env, e)
    if isinstance(e, ast.List):
        if not e.elts:
            return "[]", ANYLIST, True
        fail(p, e, "list literal " + ast.unparse(e)[:60])
    if isinstance(e, ast.Dict):
        if not e.keys and isinstance(want, tuple) and want[0] == "dict":
            return "[]", want, True
        fail(p, e, "dict literal " + ast.unparse(e)[:60])
    if isinstance(e, (ast.ListComp, ast.GeneratorExp)):
        t, ety, pure = comprehension(env, e)
        return t, tlist(ety), pure
    if isinstance(e, ast.BinOp):
        if isinstance(e.op, ast.Div):
            a, ap = typed(env, e, e.left, PATH)
            b, bp = typed(env, e, e.right, PATH)
            out, pure = seq(env, [(a, ap), (b, bp)], lambda x, y: f"({x} ++ {y})")
            return out, PATH, pure
        fail(p, e, "binary operator " + ast.unparse(e)[:60])
    if isinstance(e, ast.Lambda):
        if not (isinstance(want, tuple) and want[0] == "fun"):
            fail(p, e, "lambda where no function is expected")
        return lambda_term(env, e, want[1], want[2]), want, True
    if isinstance(e, ast.Call):
        return call(env, e, want)
    fail(p, e, "expression " + ast.unparse(e)[:60])


def fstring(env, e):
    p = env.path
    tpl, holes = template_of(env, e)
    if tpl == TABLE_TEMPLATE:
        rows = holes[1]
        ok = (
            isinstance(rows, ast.Call) and isinstance(rows.func, ast.Attribute) and rows.func.attr == "join" and is_str(rows.func.value)
            and rows.func.value.value == "" and len(rows.args) == 1 and not rows.keywords and is_name(rows.args[0])
            and env.vars.get(rows.args[0].id) == OPAQUE
        )  # fmt: skip
        if not ok:
            fail(p, e, "rows of the TABLE: " + ast.unparse(rows)[:60])
        t, pure = typed(env, e, holes[0], BORDER)
        return t, BORDER, pure
    if tpl in ITEM_TEMPLATES:
        _, tys, build = ITEM_TEMPLATES[tpl]
        parts = [typed(env, e, h, ty) for h, ty in zip(holes, tys)]
        out, pure = seq(env, parts, lambda *a: build(a))
        return out, STR, pure
    if tpl in TEXT_TEMPLATES:
        tys = TEXT_TEMPLATES[tpl]
        parts = [typed(env, e, h, ty) for h, ty in zip(holes, tys)]

        def build(*a):
            pieces, k = [], 0
            for v in e.values:
                if isinstance(v, ast.Constant):
                    pieces.append(coq_str(v.value))
                else:
                    pieces.append(f"(py_str_int {a[k]})" if tys[k] == INT else a[k])
                    k += 1
            out = pieces[-1]
            for x in reversed(pieces[:-1]):
                out = f"(String.append {x} {out})"
            return out

        out, pure = seq(env, parts, build)
        return out, TEXT, pure
    fail(p, e, f"f-string template {tpl!r} is neither an item template nor a text template")


def compare(env, e):
    p = env.path
    if len(e.ops) != 1:
        fail(p, e, "comparison chain " + ast.unparse(e))
    op, rhs = e.ops[0], e.comparators[0]
    if isinstance(op, (ast.Is, ast.IsNot)):
        if not is_none(rhs):
            fail(p, e, "`is` with something else than None")
        if re_search_call(env, e.left):
            a, ap = typed(env, e, e.left.args[0], TEXT)
            b, bp = typed(env, e, e.left.args[1], TEXT)
            out, _ = seq(env, [(a, ap), (b, bp)], lambda x, y: f"(call_re_search {x} {y})", monadic_result=True)
            return (f"(notE {out})" if isinstance(op, ast.Is) else out), BOOL, False
        t, ty, pure = expr(env, e.left)
        if not (isinstance(ty, tuple) and ty[0] == "opt"):
            fail(p, e, f"`is None` test of a value of type {ty}")
        build = (lambda a: f"(opt_is_some {a})") if isinstance(op, ast.IsNot) else (lambda a: f"(negb (opt_is_some {a}))")
        out, pure2 = seq(env, [(t, pure)], build)
        return out, BOOL, pure2
    if isinstance(op, (ast.In, ast.NotIn)):
        l, lty, lp = expr(env, e.left)
        r, rty, rp = expr(env, rhs)
        if not (lty in (INT, BLK) and rty in (tset(lty), tlist(lty))):
            fail(p, e, f"membership test of {lty} in {rty}")
        neg = isinstance(op, ast.NotIn)
        out, pure = seq(env, [(l, lp), (r, rp)], lambda a, b: (f"(negb (nat_mem {a} {b}))" if neg else f"(nat_mem {a} {b})"))
        return out, BOOL, pure
    l, lty, lp = expr(env, e.left)
    r, rty, rp = expr(env, rhs, TEXT if lty == TEXT else None)
    if isinstance(op, (ast.Eq, ast.NotEq)):
        if lty == rty and lty in (INT, BLK):
            fn = "Nat.eqb"
        elif lty == rty == TEXT:
            fn = "String.eqb"
        else:
            fail(p, e, f"comparison of {lty} with {rty}")
        neg = isinstance(op, ast.NotEq)
        out, pure = seq(env, [(l, lp), (r, rp)], lambda a, b: (f"(negb ({fn} {a} {b}))" if neg else f"({fn} {a} {b})"))
        return out, BOOL, pure
    if isinstance(op, ast.Lt) and lty == rty == INT:
        out, pure = seq(env, [(l, lp), (r, rp)], lambda a, b: f"(Nat.ltb {a} {b})")
        return out, BOOL, pure
    fail(p, e, "comparison " + ast.unparse(e))


def re_search_call(env, e):
    ok = (
        isinstance(e, ast.Call) and isinstance(e.func, ast.Attribute) and e.func.attr == "search" and is_name(e.func.value, "re")
        and "re" not in env.vars and len(e.args) == 2 and not e.keywords
    )  # fmt: skip
    if ok and env.imports.get("re") != "<module>":
        fail(env.path, e, "re is not the module re")
    return ok


def lambda_term(env, e, atys, rty):
    p = env.path
    a = e.args
    if a.vararg or a.kwarg or a.kwonlyargs or a.posonlyargs or a.defaults or len(a.args) != len(atys):
        fail(p, e, "lambda signature " + ast.unparse(e)[:60])
    names = [x.arg for x in a.args]
    for n in names:
        if n != "_":
            check_name(env, n, e)
    if len(set(names)) != len(names):
        fail(p, e, "lambda parameters " + ast.unparse(e)[:60])
    check_captures(env, e, {n.id for n in ast.walk(e.body) if isinstance(n, ast.Name)} - set(names))
    benv = env.child(**{n: ty for n, ty in zip(names, atys) if n != "_"})
    t, pure = typed(benv, e, e.body, rty)
    params = " ".join(f"({n} : {coqty(ty, True)})" for n, ty in zip(names, atys))
    return f"(fun {params} => {as_monadic(t, pure)})"


def andb_chain(cs):
    out = cs[-1]
    for c in reversed(cs[:-1]):
        out = f"(andb {c} {out})"
    return out


def comprehension(env, e):
    """[elt for x in it if c..] / the generator form -> (term : list, element type, pure)"""
    p = env.path
    if len(e.generators) != 1:
        fail(p, e, "comprehension with several generators")
    g = e.generators[0]
    if g.is_async or not is_name(g.target):
        fail(p, e, "comprehension target " + ast.unparse(g.target))
    x = g.target.id
    check_name(env, x, e)
    if x in env.vars:
        fail(p, e, f"comprehension variable {x} shadows a variable")
    it, ity, ip = expr(env, g.iter)
    if not (isinstance(ity, tuple) and ity[0] == "list" and ity != ANYLIST):
        fail(p, e, f"comprehension over a value of type {ity}")
    benv = env.child(**{x: ity[1]})
    conds = [expr(benv, c) for c in g.ifs]
    for (_, cty, _), c in zip(conds, g.ifs):
        if cty != BOOL:
            fail(p, c, f"comprehension condition of type {cty}")
    el, ety, ep = expr(benv, e.elt)
    xt = coqty(ity[1], True)
    if ep and all(cp for _, _, cp in conds):
        src = it if ip else None
        body = lambda l: (  # noqa: E731
            f"(map (fun ({x} : {xt}) => {el}) "
            + (f"(filter (fun ({x} : {xt}) => {andb_chain([c for c, _, _ in conds])}) {l})" if conds else l)
            + ")"
        )
        if src is not None:
            return body(src), ety, True
        out, _ = seq(env, [(it, False)], body)
        return out, ety, False
    if not conds:
        cond = "(ret true)"
    else:
        cond = as_monadic(conds[-1][0], conds[-1][2])
        for c, _, cp in reversed(conds[:-1]):
            cond = f"(andE {as_monadic(c, cp)} {cond})"
    out, _ = seq(env, [(it, ip)], lambda l: f"(comp (fun ({x} : {xt}) => {cond}) (fun ({x} : {xt}) => {as_monadic(el, ep)}) {l})", monadic_result=True)
    return out, ety, False


def str_elements(env, arg):
    """the iterable of a numbers join: `str(e) for x in l` or `map(str, l)` -> (term : list nat, pure) or None"""
    if isinstance(arg, ast.GeneratorExp) and isinstance(arg.elt, ast.Call) and is_name(arg.elt.func, "str") and "str" not in env.vars and len(arg.elt.args) == 1 and not arg.elt.keywords:
        inner = ast.GeneratorExp(elt=arg.elt.args[0], generators=arg.generators)
        ast.copy_location(inner, arg)
        t, ety, pure = comprehension(env, inner)
        if ety != INT:
            fail(env.path, arg, f"str() of a value of type {ety}")
        return t, pure
    if isinstance(arg, ast.Call) and is_name(arg.func, "map") and "map" not in env.vars and len(arg.args) == 2 and not arg.keywords and is_name(arg.args[0], "str") and "str" not in env.vars:
        t, ty, pure = expr(env, arg.args[1])
        if ty != tlist(INT):
            fail(env.path, arg, f"map(str, ..) over a value of type {ty}")
        return t, pure
    return None


def call(env, e, want=None):
    p = env.path
    f = e.func
    # ---- methods
    if isinstance(f, ast.Attribute):
        # sep.join(..)
        if f.attr == "join" and is_str(f.value) and len(e.args) == 1 and not e.keywords:
            sep = f.value.value
            if sep in NUMS_SEPARATORS:
                r = str_elements(env, e.args[0])
                if r is None:
                    fail(p, e, "join of something else than str(<int>) elements: " + ast.unparse(e)[:60])
                return r[0], tnums(sep), r[1]
            if sep in JOIN_SEPARATORS:
                t, pure = typed(env, e, e.args[0], tlist(STR))
                out, pure2 = seq(env, [(t, pure)], lambda a: f"(concat {a})")
                return out, STR, pure2
            fail(p, e, f"join with separator {sep!r}")
        # d.items()
        if f.attr == "items" and not e.args and not e.keywords:
            if isinstance(f.value, ast.Attribute) and f.value.attr == "subroutines":
                _, oty, _ = expr(env, f.value.value)
                if oty != TEAL:
                    fail(p, e, f".subroutines of a value of type {oty}")
                return "attr_subroutines_items", tlist(tprod(TEXT, SUB)), True
            t, ty, pure = expr(env, f.value)
            if not (isinstance(ty, tuple) and ty[0] == "dict"):
                fail(p, e, f".items() of a value of type {ty}")
            return t, tlist(tprod(ty[1], ty[2])), pure
        # html.escape(x, quote=True)
        if f.attr == "escape" and is_name(f.value, "html") and "html" not in env.vars:
            if env.imports.get("html") != "<module>" or len(e.args) != 1 or [(k.arg, ast.unparse(k.value)) for k in e.keywords] != [("quote", "True")]:
                fail(p, e, "html.escape call " + ast.unparse(e)[:60])
            t, pure = typed(env, e, e.args[0], TEXT)
            out, pure2 = seq(env, [(t, pure)], lambda a: f"(html_escape {a})")
            return out, TEXT, pure2
        # config.ignore_edge(a, b) / config.bb_border_color(bb)
        if f.attr in CONFIG_CALLS and not e.keywords:
            o, oty, opure = expr(env, f.value)
            if oty != CONFIG or not opure:
                fail(p, e, f".{f.attr} of a value of type {oty}")
            fld, atys, rty = CONFIG_CALLS[f.attr]
            if len(e.args) != len(atys):
                fail(p, e, f"{f.attr} with {len(e.args)} arguments")
            parts = [typed(env, e, a, ty) for a, ty in zip(e.args, atys)]
            out, _ = seq(env, parts, lambda *a: f"({fld} {o} " + " ".join(a) + ")", monadic_result=True)
            return out, rty, False
        # self.<method>(..)
        if is_name(f.value, "self") and not e.keywords:
            tab = METHODS if env.cls == "ExecutionPaths" else CG_METHODS if env.cls == "PrinterCallGraph" else {}
            if f.attr not in tab or f.attr in ("filter_paths", "generate_output", "print"):
                fail(p, e, "method call " + ast.unparse(e)[:60])
            g, params, _, rty, _ = tab[f.attr]
            ps = [x for x in params if x[0] != "self"]
            if len(e.args) != len(ps):
                fail(p, e, f"{f.attr} with {len(e.args)} arguments")
            parts = [typed(env, e, a, x[3]) for a, x in zip(e.args, ps)]
            out, _ = seq(env, parts, lambda *a: f"({g}" + "".join(" " + x for x in a) + ")", monadic_result=True)
            return out, rty, False
        fail(p, e, "method call " + ast.unparse(e)[:60])
    if not isinstance(f, ast.Name):
        fail(p, e, "call " + ast.unparse(e)[:60])
    fn = f.id
    # ---- local (nested) functions
    if fn in env.vars:
        ty = env.vars[fn]
        if not (isinstance(ty, tuple) and ty[0] == "fun") or e.keywords or len(e.args) != len(ty[1]):
            fail(p, e, f"call of the local variable {fn}")
        parts = [typed(env, e, a, aty) for a, aty in zip(e.args, ty[1])]
        out, _ = seq(env, parts, lambda *a: f"({fn} " + " ".join(a) + ")", monadic_result=True)
        return out, ty[2], False
    builtin = fn not in env.imports
    if fn == "len" and builtin and len(e.args) == 1 and not e.keywords:
        t, ty, pure = expr(env, e.args[0])
        if not (isinstance(ty, tuple) and ty[0] == "list"):
            fail(p, e, f"len of a value of type {ty}")
        out, pure2 = seq(env, [(t, pure)], lambda a: f"(length {a})")
        return out, INT, pure2
    if fn == "str" and builtin and len(e.args) == 1 and not e.keywords:
        t, pure = typed(env, e, e.args[0], INT)
        out, pure2 = seq(env, [(t, pure)], lambda a: f"(py_str_int {a})")
        return out, TEXT, pure2
    if fn == "isinstance" and builtin and len(e.args) == 2 and not e.keywords:
        t, pure = typed(env, e, e.args[0], INSOBJ)
        c = e.args[1]
        names = [c] if isinstance(c, ast.Name) else (list(c.elts) if isinstance(c, ast.Tuple) and c.elts else None)
        if names is None or not all(isinstance(x, ast.Name) and x.id in CLASS_PATTERNS and x.id not in env.vars for x in names):
            fail(p, e, "isinstance class argument " + ast.unparse(c))
        for x in names:
            need_origin(env, x, x.id, {INS_MODULE + "." + x.id})
        pats = " | ".join(CLASS_PATTERNS[x.id] for x in names)
        opt, _ = seq(env, [(t, pure)], lambda a: f"(ins_op {a})", monadic_result=True)
        out, _ = seq(env, [(opt, False)], lambda a: f"(match {a} with {pats} => true | _ => false end)")
        return out, BOOL, False
    if fn == "enumerate" and builtin and len(e.args) == 1:
        start = 0
        if e.keywords:
            k = e.keywords[0]
            if len(e.keywords) != 1 or k.arg != "start" or not (isinstance(k.value, ast.Constant) and isinstance(k.value.value, int) and k.value.value >= 0):
                fail(p, e, "enumerate keywords " + ast.unparse(e)[:60])
            start = k.value.value
        t, ty, pure = expr(env, e.args[0])
        if not (isinstance(ty, tuple) and ty[0] == "list" and ty != ANYLIST):
            fail(p, e, f"enumerate of a value of type {ty}")
        out, pure2 = seq(env, [(t, pure)], lambda a: f"(enumerate_from {start} {a})")
        return out, tlist(tprod(INT, ty[1])), pure2
    if fn == "set" and builtin and len(e.args) == 1 and not e.keywords:
        t, ty, pure = expr(env, e.args[0])
        if ty == tlist(INT):
            return t, tset(INT), pure
        if ty == tlist(TEXT):
            out, pure2 = seq(env, [(t, pure)], lambda a: f"(str_set {a})")
            return out, tset(TEXT), pure2
        fail(p, e, f"set of a value of type {ty}")
    if fn == "map" and builtin and len(e.args) == 2 and not e.keywords and isinstance(e.args[0], ast.Lambda):
        l, lty, lp = expr(env, e.args[1])
        if not (isinstance(lty, tuple) and lty[0] == "list" and lty != ANYLIST):
            fail(p, e, f"map over a value of type {lty}")
        lam = e.args[0]
        if len(lam.args.args) != 1 or lam.args.vararg or lam.args.kwarg or lam.args.kwonlyargs or lam.args.defaults or lam.args.posonlyargs:
            fail(p, e, "lambda signature " + ast.unparse(lam)[:60])
        x = lam.args.args[0].arg
        check_name(env, x, lam)
        if x in env.vars:
            fail(p, lam, f"lambda parameter {x} shadows a variable")
        check_captures(env, lam, {n.id for n in ast.walk(lam.body) if isinstance(n, ast.Name)} - {x})
        benv = env.child(**{x: lty[1]})
        el, ety, ep = expr(benv, lam.body)
        xt = coqty(lty[1], True)
        if ep:
            out, pure = seq(env, [(l, lp)], lambda a: f"(map (fun ({x} : {xt}) => {el}) {a})")
            return out, tlist(ety), pure
        out, _ = seq(env, [(l, lp)], lambda a: f"(comp (fun ({x} : {xt}) => (ret true)) (fun ({x} : {xt}) => {el}) {a})", monadic_result=True)
        return out, tlist(ety), False
    if fn == "CFGDotConfig" and not e.args and not e.keywords:
        need_origin(env, e, fn, {"<local>"})
        return "default_config", CONFIG, True
    if fn == "Path" and len(e.args) == 1 and not e.keywords:
        need_origin(env, e, fn, {"pathlib.Path"})
        t, pure = typed(env, e, e.args[0], TEXT)
        out, pure2 = seq(env, [(t, pure)], lambda a: f"[{a}]")
        return out, PATH, pure2
    if fn in FUNCS and not e.keywords:
        need_origin(env, e, fn, {"<local>"})
        g, params, _, rty = FUNCS[fn]
        if len(e.args) > len(params) or any(x[2] is None for x in params[len(e.args):]):
            fail(p, e, f"{fn} with {len(e.args)} arguments")
        parts = []
        for i, x in enumerate(params):
            if i < len(e.args):
                parts.append(typed(env, e, e.args[i], x[3]))
            elif x[2] == "None":
                parts.append(("None", True))
            else:
                fail(p, e, f"default value of {x[0]}")
        rest = [(tm, pu) for (tm, pu), x in zip(parts, params) if x[3] not in (TEAL, DETECTOR)]
        out, _ = seq(env, rest, lambda *a: f"({g}" + "".join(" " + x for x in a) + ")", monadic_result=True)
        return out, rty, False
    fail(p, e, "call " + ast.unparse(e)[:60])


# ----------------------------------------------------------------------------- closures
def contains(outer, inner):
    return any(n is inner for n in ast.walk(outer))


def stores_of(fn, v):
    """the nodes of fn that (re)bind v or mutate the object bound to it through an attribute / subscript assignment"""
    out = []
    for n in ast.walk(fn):
        if isinstance(n, ast.Name) and n.id == v and isinstance(n.ctx, (ast.Store, ast.Del)):
            out.append(n)
        if isinstance(n, (ast.Attribute, ast.Subscript)) and isinstance(n.ctx, (ast.Store, ast.Del)) and is_name(n.value, v):
            out.append(n)
        if isinstance(n, ast.Call) and isinstance(n.func, ast.Attribute) and is_name(n.func.value, v) and n.func.attr in ("append", "add", "update", "extend", "remove", "pop", "clear", "insert"):
            out.append(n)
    return out


def check_captures(env, node, free):
    """a closure (lambda / nested def) is translated as a closure over the current VALUES of the local variables it reads:
    none of them may be re-assigned (or mutated) after the closure is created, while it can still be called"""
    fn = env.fn
    for v in sorted(free):
        if v not in env.vars:
            continue
        stores = stores_of(fn, v)
        for s in stores:
            if s.lineno > node.lineno and not contains(node, s):
                fail(env.path, s, f"{v} is re-assigned after the closure of line {node.lineno} captured it")
        for loop in [l for l in ast.walk(fn) if isinstance(l, (ast.For, ast.While)) and contains(l, node)]:
            if any(contains(loop, s) for s in stores):
                # v is re-assigned at the next iteration while the closure of this one is still stored: accepted only when
                # the closure is stored in a field of a holder h (h.f = lambda ..) by a statement of the loop body, no
                # earlier statement of the body and no statement after the loop mentions h
                holder = None
                for i, st in enumerate(loop.body):
                    if isinstance(st, ast.Assign) and st.value is node and len(st.targets) == 1 and isinstance(st.targets[0], ast.Attribute) and is_name(st.targets[0].value):
                        holder = (i, st.targets[0].value.id)
                if holder is None:
                    fail(env.path, node, f"closure over {v}, which the enclosing loop re-assigns")
                i, h = holder
                before = [n for st in loop.body[:i] for n in ast.walk(st) if is_name(n, h)]
                after = [n for n in ast.walk(fn) if is_name(n, h) and n.lineno > loop.end_lineno]
                if before or after:
                    fail(env.path, (before + after)[0], f"{h} may be used while it holds a closure over a re-assigned {v}")


# ----------------------------------------------------------------------------- statements
def assigned_names(stmts):
    """names (re)bound or mutated by the statements, in order of first occurrence (`files` for a call of full_cfg_to_dot)"""
    out = []

    def add(n):
        if n not in out:
            out.append(n)

    for st in stmts:
        for node in ast.walk(st):
            if isinstance(node, ast.Name) and isinstance(node.ctx, ast.Store):
                add(node.id)
            if isinstance(node, (ast.Attribute, ast.Subscript)) and isinstance(node.ctx, ast.Store):
                if is_name(node.value):
                    add(node.value.id)
                elif is_self_attr(node):
                    add("self_" + node.attr)
            if isinstance(node, ast.Expr) and is_append(node):
                add(node.value.func.value.id)
            if isinstance(node, ast.Expr) and isinstance(node.value, ast.Call) and is_name(node.value.func, "full_cfg_to_dot"):
                add("files")
            if isinstance(node, ast.With):
                add("written")
    return out


def is_append(st):
    v = st.value
    return (
        isinstance(v, ast.Call) and isinstance(v.func, ast.Attribute) and v.func.attr == "append" and is_name(v.func.value)
        and len(v.args) == 1 and not v.keywords
    )  # fmt: skip


def none_test(e):
    """`x is None` / `not x` -> (x, True); `x is not None` / `x` -> (x, False); else None"""
    if isinstance(e, ast.Compare) and len(e.ops) == 1 and is_name(e.left) and is_none(e.comparators[0]):
        if isinstance(e.ops[0], ast.Is):
            return e.left.id, True
        if isinstance(e.ops[0], ast.IsNot):
            return e.left.id, False
    if isinstance(e, ast.UnaryOp) and isinstance(e.op, ast.Not) and is_name(e.operand):
        return e.operand.id, True
    return None


def representable(ty):
    return ty != OPAQUE and ty != TEAL and ty != DETECTOR and not (isinstance(ty, tuple) and ty[0] == "fun")


def tuple_term(names):
    return names[0] if len(names) == 1 else "(" + ", ".join(names) + ")"


def projections(n, st):
    if n == 1:
        return [st]
    return projections(n - 1, f"(fst {st})") + [f"(snd {st})"]


def bind_var(env, name, node, t, ty, pure, rest_of):
    """`name = <t>`; a re-assignment keeps the type of the variable (an Optional may become its value type)"""
    check_name(env, name, node)
    if not representable(ty) or ty == ANYLIST:
        fail(env.path, node, f"assignment of a value of type {ty} to {name}")
    if name in env.vars:
        old = env.vars[name]
        if old != ty and not (isinstance(old, tuple) and old[0] == "opt" and old[1] == ty) and not (old == NONE and isinstance(ty, str)):
            c = coerce("X", ty, old)
            if c is None:
                fail(env.path, node, f"re-assignment of {name} changes its type from {old} to {ty}")
            if pure:
                t = coerce(t, ty, old)
            else:
                v = env.fresh()
                t = f"(bind {t} (fun {v} => (ret {coerce(v, ty, old)})))"
            ty = old
    rest = rest_of(env.child(**{name: ty}))
    if ty == NONE:
        return rest  # the constant None: every use of the variable is the literal (coerce)
    if pure:
        return f"(let {name} := {t} in\n{rest})"
    return f"(bind {t} (fun {name} =>\n{rest}))"


def do_return(env, st, value):
    p = env.path
    if env.depth:
        fail(p, st, "return in a loop body")
    r = env.result
    if r == OUTCOME:
        if value is None or is_none(value):
            if "written" in env.vars:
                return "(ret (Written (fst written) (snd written)))"
            return "(ret Nothing)"
        if "written" in env.vars:
            fail(p, st, "return of a value after the file was written")
        t, pure = typed(env, st, value, STR)
        out, _ = seq(env, [(t, pure)], lambda a: f"(ret (Returned {a}))", monadic_result=True)
        return out
    if isinstance(r, tuple) and r[0] == "state":
        if value is not None and not is_none(value):
            fail(p, st, "return of a value")
        return f"(ret self_{r[1]})"
    if isinstance(r, tuple) and r[0] == "files":
        if value is None:
            fail(p, st, "bare return")
        t, pure = typed(env, st, value, r[1])
        out, _ = seq(env, [(t, pure)], lambda a: f"(ret ({a}, files))", monadic_result=True)
        return out
    if value is None:
        fail(p, st, "bare return")
    t, pure = typed(env, st, value, r)
    return as_monadic(t, pure)


def end_of_function(env, node):
    r = env.result
    if env.depth == 0 and (r == OUTCOME or (isinstance(r, tuple) and r[0] == "state")):
        return do_return(env, node, None)
    raise TranslateError(f"translator: {env.path}:{getattr(node, 'lineno', '?')}: control reaches the end of the function without return")


def check_print(env, st):
    """print(..): no structural effect; the printed expressions must be total"""
    v = st.value
    if v.keywords or "print" in env.imports or "print" in env.vars:
        fail(env.path, st, "print call " + ast.unparse(st)[:60])
    for a in v.args:
        for n in ast.walk(a):
            if isinstance(n, (ast.Constant, ast.JoinedStr, ast.FormattedValue, ast.Load, ast.Mult)):
                continue
            if isinstance(n, ast.Name) and (n.id in env.vars or n.id in ("self", "detector_terminal_description")):
                continue
            if isinstance(n, ast.Attribute) and is_self_attr(n) and n.attr in SELF_ATTRS.get(env.cls, {}):
                continue
            if isinstance(n, ast.Call) and is_name(n.func, "detector_terminal_description") and len(n.args) == 1 and not n.keywords and is_self_attr(n.args[0], "detector"):
                continue
            if isinstance(n, ast.BinOp) and isinstance(n.op, ast.Mult) and isinstance(n.left, ast.Constant) and isinstance(n.right, ast.Constant):
                continue
            fail(env.path, n, "printed expression " + ast.unparse(a)[:60])


def block(env, stmts, fall):
    """stmts: statement list; fall: function env -> term for what follows the block (None: the function ends).
    Returns a term of type py R."""
    p = env.path
    stmts = strip_doc(stmts)
    if not stmts:
        if fall is None:
            return end_of_function(env, env.fn)
        return fall(env)
    st, rest = stmts[0], stmts[1:]
    rest_of = lambda env2: block(env2, rest, fall)  # noqa: E731
    # ---- statements recognised by their exact text
    if env.label_ok and env.depth == 0 and env.nested is None:
        for text, names, effect in LABEL_STATEMENTS:
            if same_text(st, text):
                for n in names:
                    if n in env.vars:
                        fail(p, st, f"label variable {n} bound twice")
                if effect is not None and env.vars.get("bb") != BLK:
                    fail(p, st, "label statement outside _bb_to_dot")
                out = rest_of(env.child(**{n: OPAQUE for n in names}))
                return f"(bind {effect} (fun _ =>\n{out}))" if effect else out
    if any(same_text(st, text) for text in SKIP_STATEMENTS):
        if env.imports.get("os") != "<module>":
            fail(p, st, "os is not the module os")
        return rest_of(env)
    if isinstance(st, ast.Return):
        if rest:
            fail(p, rest[0], "statement after return")
        return do_return(env, st, st.value)
    if isinstance(st, ast.Pass):
        return rest_of(env)
    if isinstance(st, ast.Continue):
        if rest:
            fail(p, rest[0], "statement after continue")
        if env.depth == 0 or env.cont_loop is None:
            fail(p, st, "continue outside a loop")
        return env.cont_loop(env)
    if isinstance(st, ast.FunctionDef):
        return nested_def(env, st, rest_of)
    if isinstance(st, (ast.Assign, ast.AnnAssign)):
        return assign(env, st, rest_of)
    if isinstance(st, ast.AugAssign):
        if not (isinstance(st.op, ast.Add) and is_name(st.target) and env.vars.get(st.target.id) == STR):
            fail(p, st, "augmented assignment " + ast.unparse(st)[:60])
        x = st.target.id
        t, pure = typed(env, st, st.value, STR)
        out, pure2 = seq(env, [(t, pure)], lambda a: f"({x} ++ {a})")
        return bind_var(env, x, st, out, STR, pure2, rest_of)
    if isinstance(st, ast.Expr):
        v = st.value
        if isinstance(v, ast.Call) and is_name(v.func, "print"):
            check_print(env, st)
            return rest_of(env)
        if is_append(st):
            x = v.func.value.id
            ty = env.vars.get(x)
            if not (isinstance(ty, tuple) and ty[0] == "list" and ty != ANYLIST):
                fail(p, st, f".append on {x} of type {ty}")
            t, pure = typed(env, st, v.args[0], ty[1])
            out, pure2 = seq(env, [(t, pure)], lambda a: f"({x} ++ [{a}])")
            return bind_var(env, x, st, out, ty, pure2, rest_of)
        if isinstance(v, ast.Call) and is_name(v.func, "full_cfg_to_dot") and isinstance(env.result, tuple) and env.result[0] == "files":
            t, ty, pure = call(env, v)
            out, pure2 = seq(env, [(t, pure)], lambda a: f"(files ++ [{a}])")
            return _bind_files(env, out, pure2, rest_of)
        fail(p, st, "expression statement " + ast.unparse(st)[:60])
    if isinstance(st, ast.With):
        return with_open(env, st, rest_of)
    if isinstance(st, ast.If):
        return if_stmt(env, st, rest, fall)
    if isinstance(st, ast.For):
        return for_term(env, st, rest_of)
    fail(p, st, "statement " + ast.unparse(st)[:60])


def _bind_files(env, t, pure, rest_of):
    rest = rest_of(env.child(files=tlist(OUTCOME)))
    if pure:
        return f"(let files := {t} in\n{rest})"
    return f"(bind {t} (fun files =>\n{rest}))"


def with_open(env, st, rest_of):
    p = env.path
    ok = (
        len(st.items) == 1 and isinstance(st.items[0].context_expr, ast.Call) and is_name(st.items[0].context_expr.func, "open")
        and "open" not in env.imports and "open" not in env.vars and is_name(st.items[0].optional_vars, "f") and "f" not in env.vars
    )  # fmt: skip
    if ok:
        c = st.items[0].context_expr
        ok = (
            len(c.args) == 2 and ast.unparse(c.args[1]) == "'w'" and [(k.arg, ast.unparse(k.value)) for k in c.keywords] == [("encoding", "'utf-8'")]
            and len(st.body) == 1 and isinstance(st.body[0], ast.Expr) and isinstance(st.body[0].value, ast.Call)
            and ast.unparse(st.body[0].value.func) == "f.write" and len(st.body[0].value.args) == 1 and not st.body[0].value.keywords
        )  # fmt: skip
    if not ok or env.result != OUTCOME or env.depth or "written" in env.vars or env.nested:
        fail(p, st, "with statement " + ast.unparse(st)[:60])
    f, fp = typed(env, st, st.items[0].context_expr.args[0], PATH)
    x, xp = typed(env, st, st.body[0].value.args[0], STR)
    out, pure = seq(env, [(f, fp), (x, xp)], lambda a, b: f"({a}, {b})")
    rest = rest_of(env.child(written=tprod(PATH, STR)))
    if pure:
        return f"(let written := {out} in\n{rest})"
    return f"(bind {out} (fun written =>\n{rest}))"


def nested_def(env, st, rest_of):
    p = env.path
    if st.name not in NESTED or env.depth or env.nested or st.name in env.vars:
        fail(p, st, "nested function " + st.name)
    anns, atys, rann, rty = NESTED[st.name]
    a = st.args
    if a.vararg or a.kwarg or a.kwonlyargs or a.posonlyargs or a.defaults or st.decorator_list:
        fail(p, st, "signature of " + st.name)
    if [ast.unparse(x.annotation) if x.annotation else None for x in a.args] != anns or (ast.unparse(st.returns) if st.returns else None) != rann:
        fail(p, st, "signature of " + st.name)
    names = [x.arg for x in a.args]
    for n in names:
        check_name(env, n, st)
        if n in env.vars:
            fail(p, st, f"parameter {n} of {st.name} shadows a variable")
    local = set(names) | {n.id for n in ast.walk(st) if isinstance(n, ast.Name) and isinstance(n.ctx, ast.Store)}
    check_captures(env, st, {n.id for n in ast.walk(st) if isinstance(n, ast.Name)} - local)
    benv = env.child(**dict(zip(names, atys)))
    benv.result = rty
    benv.nested = st.name
    benv.label_ok = False
    body = block(benv, st.body, None)
    params = " ".join(f"({n} : {coqty(ty, True)})" for n, ty in zip(names, atys))
    rest = rest_of(env.child(**{st.name: ("fun", atys, rty)}))
    return f"(let {st.name} := (fun {params} =>\n{indent(body, 2)}) in\n{rest})"


def assign(env, st, rest_of):
    p = env.path
    want = None
    if isinstance(st, ast.Assign):
        if len(st.targets) != 1:
            fail(p, st, "chained assignment")
        tg, value = st.targets[0], st.value
    else:
        tg, value = st.target, st.value
        ann = ast.unparse(st.annotation)
        if value is None or not is_name(tg) or ann not in ANNOTATIONS:
            fail(p, st, "annotated assignment " + ast.unparse(st)[:60])
        want = ANNOTATIONS[ann]
    if is_name(tg):
        if isinstance(value, ast.Name) and env.vars.get(value.id) == CONFIG:
            fail(p, st, "a second name for a config object")
        if want is None and tg.id in env.vars and representable(env.vars[tg.id]) and env.vars[tg.id] != NONE:
            old = env.vars[tg.id]
            want0 = old[1] if isinstance(old, tuple) and old[0] == "opt" else old
            t, ty, pure = expr(env, value, want0 if want0 in (TEXT, BORDER) else None)
        elif want is not None:
            t, pure = typed(env, st, value, want)
            ty = want
        else:
            t, ty, pure = expr(env, value)
        return bind_var(env, tg.id, st, t, ty, pure, rest_of)
    if isinstance(tg, ast.Attribute) and is_name(tg.value) and env.vars.get(tg.value.id) == CONFIG and tg.attr in CONFIG_SETTERS:
        c = tg.value.id
        if tg.attr in CONFIG_CALLS:
            _, atys, rty = CONFIG_CALLS[tg.attr]
            fty = ("fun", atys, rty)
        else:
            fty = BOOL
        t, pure = typed(env, st, value, fty)
        out, pure2 = seq(env, [(t, pure)], lambda a: f"({CONFIG_SETTERS[tg.attr]} {c} {a})")
        return bind_var(env, c, st, out, CONFIG, pure2, rest_of)
    if is_self_attr(tg) and tg.attr in SELF_ATTRS.get(env.cls, {}) and SELF_ATTRS[env.cls][tg.attr][2]:
        name, ty, _ = SELF_ATTRS[env.cls][tg.attr]
        if env.result != ("state", tg.attr):
            fail(p, st, "assignment to " + ast.unparse(tg))
        t, pure = typed(env, st, value, ty)
        rest = rest_of(env)
        return f"(let {name} := {t} in\n{rest})" if pure else f"(bind {t} (fun {name} =>\n{rest}))"
    if isinstance(tg, ast.Subscript) and is_name(tg.value) and isinstance(env.vars.get(tg.value.id), tuple) and env.vars[tg.value.id][0] == "dict":
        d = tg.value.id
        dty = env.vars[d]
        if dty[1] != TEXT:
            fail(p, st, f"dictionary with keys of type {dty[1]}")
        k, kp = typed(env, st, tg.slice, TEXT)
        v, vp = typed(env, st, value, dty[2])
        out, pure = seq(env, [(k, kp), (v, vp)], lambda a, b: f"(dict_set {d} {a} {b})")
        return bind_var(env, d, st, out, dty, pure, rest_of)
    fail(p, st, "assignment target " + ast.unparse(tg)[:60])


def if_term(env, st, k):
    """k: env -> term for what follows the if"""
    p = env.path
    nt = none_test(st.test)
    if nt is not None and nt[0] in env.vars and isinstance(env.vars[nt[0]], tuple) and env.vars[nt[0]][0] == "opt":
        # `if x is None` / `if not x` / `if x is not None` on an Optional: a match; x is its value in the Some branch
        x, none_branch_first = nt
        inner = env.vars[x][1]
        if ast.unparse(st.test) == f"not {x}" and inner != CONFIG:
            fail(p, st, f"truthiness of a value of type {env.vars[x]}")
        tmp = env.fresh()
        some_body, none_body = (st.orelse, st.body) if none_branch_first else (st.body, st.orelse)
        some_t = f"(let {x} := {tmp} in\n{block(env.child(**{x: inner}), some_body, k)})"
        none_t = block(env, none_body, k)
        return f"(match {x} with\n | Some {tmp} =>\n{indent(some_t)}\n | None =>\n{indent(none_t)}\n end)"
    t, ty, pure = expr(env, st.test)
    if ty != BOOL:
        fail(p, st, f"if-condition of type {ty}")
    then_t = block(env, st.body, k)
    else_t = block(env, st.orelse, k)
    if pure:
        return f"(if {t}\n then\n{indent(then_t)}\n else\n{else_t})"
    return f"(ifE {t}\n{indent(then_t)}\n{else_t})"


def if_stmt(env, st, rest, fall):
    p = env.path
    if not rest:
        k = fall if fall is not None else (lambda env2: end_of_function(env2, st))
        return if_term(env, st, k)
    # what follows the if: needed how often, and with which variables?
    ends = []

    def probe(env2):
        ends.append(dict(env2.vars))
        return "K"

    saved = list(env.counter)
    if_term(env, st, probe)
    env.counter[:] = saved
    if not ends:
        fail(p, rest[0], "unreachable statement")
    if len(ends) == 1:
        return if_term(env, st, lambda env2: block(env2, rest, fall))
    # join point: the variables (re)bound in the if that are bound at every end of it (a variable that is only narrowed
    # keeps its outer binding in kN, which is defined outside the branches)
    cand = [v for v in assigned_names([st]) if all(v in end and representable(end[v]) for end in ends)]
    jtypes = {}
    for v in dict.fromkeys(cand):
        ty = ends[0][v]
        for end in ends[1:]:
            ty2 = unify(ty, end[v])
            if ty2 is None:
                fail(p, st, f"the type of {v} differs at the join point: {ty} / {end[v]}")
            ty = ty2
        if ty in (NONE, ANYLIST):
            fail(p, st, f"the type of {v} is not determined at the join point")
        jtypes[v] = ty
    join = list(jtypes)
    kn = env.fresh_join()
    kenv = env.child(**jtypes)
    body = block(kenv, rest, fall)
    params = " ".join(f"({v} : {coqty(jtypes[v], True)})" for v in join) or "(_ : unit)"

    def callk(env2):
        args = []
        for v in join:
            c = coerce(v, env2.vars[v], jtypes[v])
            if c is None:
                fail(p, st, f"the type of {v} differs at the join point: {env2.vars[v]} / {jtypes[v]}")
            args.append(c)
        return f"({kn} {' '.join(args) or 'tt'})"

    return f"(let {kn} := (fun {params} =>\n{indent(body, 2)}) in\n{if_term(env, st, callk)})"


def bind_targets(env, tg, ety, node):
    """loop target (a name or a nested tuple of names) against the element type -> ([(name, type, projection)], binder name)"""
    if is_name(tg):
        if tg.id != "_":
            check_name(env, tg.id, node)
            if tg.id in env.vars:
                fail(env.path, node, f"loop variable {tg.id} shadows a variable")
        return None

    def walk(t, ty, proj):
        if is_name(t):
            if t.id == "_":
                return []
            check_name(env, t.id, node)
            if t.id in env.vars:
                fail(env.path, node, f"loop variable {t.id} shadows a variable")
            return [(t.id, ty, proj)]
        if isinstance(t, ast.Tuple) and len(t.elts) == 2 and isinstance(ty, tuple) and ty[0] == "prod":
            return walk(t.elts[0], ty[1], f"(fst {proj})") + walk(t.elts[1], ty[2], f"(snd {proj})")
        fail(env.path, node, f"loop target {ast.unparse(tg)} for elements of type {ty}")

    return walk


def for_term(env, st, rest_of):
    p = env.path
    if st.orelse or getattr(st, "type_comment", None) or env.nested:
        fail(p, st, "for-else / loop in a nested function")
    it, lty, ipure = expr(env, st.iter)
    if not (isinstance(lty, tuple) and lty[0] in ("list", "set") and lty != ANYLIST):
        fail(p, st, f"iteration over a value of type {lty}")
    ety = lty[1]
    d = env.depth + 1
    body = strip_doc(st.body)
    for node in [n for b in body for n in ast.walk(b)]:
        if isinstance(node, (ast.Return, ast.Break, ast.While, ast.Try, ast.With, ast.FunctionDef, ast.NamedExpr, ast.Delete, ast.Global, ast.Nonlocal, ast.Yield, ast.Raise)):
            fail(p, node, "statement/expression not accepted in a loop body: " + type(node).__name__)
    assigned = assigned_names(body)
    walker = bind_targets(env, st.target, ety, st)
    if walker is None:
        x = st.target.id if st.target.id != "_" else f"elt{d}"
        new = {} if st.target.id == "_" else {x: ety}
        lets = []
    else:
        x = f"elt{d}"
        bound = walker(st.target, ety, x)
        if len({n for n, _, _ in bound}) != len(bound):
            fail(p, st, "loop target binds a name twice")
        new = {n: ty for n, ty, _ in bound}
        lets = [(n, pr) for n, _, pr in bound]
    # a loop body may not mutate the list it iterates
    for n in ast.walk(st.iter):
        if isinstance(n, ast.Name) and n.id in assigned:
            fail(p, st, f"the loop body assigns {n.id}, which the loop header reads")
        if is_self_attr(n) and "self_" + n.attr in assigned:
            fail(p, st, f"the loop body assigns self.{n.attr}, which the loop header reads")
    state = [n for n in assigned if n in env.vars and representable(env.vars[n]) and n not in new]
    if any(n.startswith("self_") for n in assigned):
        fail(p, st, "assignment to an attribute of self in a loop body")
    if not state:
        fail(p, st, "loop without carried variable")
    stys = [env.vars[n] for n in state]
    for n, ty in zip(state, stys):
        if ty in (NONE, ANYLIST):
            fail(p, st, f"the type of the carried variable {n} is not determined")
    stv, accv = f"st{d}", f"acc{d}"
    benv = env.child(**new)
    benv.depth = d

    def body_end(env2):
        args = []
        for n, ty in zip(state, stys):
            c = coerce(n, env2.vars[n], ty)
            if c is None:
                fail(p, st, f"loop body changes the type of {n} from {ty} to {env2.vars[n]}")
            args.append(c)
        return f"(ret {tuple_term(args)})"

    benv.cont_loop = body_end
    body_t = block(benv, body, body_end)
    for n, pr in reversed(lets):
        body_t = f"(let {n} := {pr} in\n{body_t})"
    for n, pr in reversed(list(zip(state, projections(len(state), stv)))):
        body_t = f"(let {n} := {pr} in\n{body_t})"
    lst = it if ipure else env.fresh()
    loop = f"(fold_left (fun {accv} {x} => (bind {accv} (fun {stv} =>\n{indent(body_t, 2)})))\n  {lst} (ret {tuple_term(state)}))"
    tmp = env.fresh()
    after = rest_of(env)
    for n, pr in reversed(list(zip(state, projections(len(state), tmp)))):
        after = f"(let {n} := {pr} in\n{after})"
    out = f"(bind {loop} (fun {tmp} =>\n{after}))"
    if not ipure:
        out = f"(bind {it} (fun {lst} =>\n{out}))"
    return out


# ----------------------------------------------------------------------------- source checks
def check_fingerprints():
    trees = {}
    for rel, cname, mname, text in FINGERPRINTS:
        path = os.path.join(T, rel)
        if rel not in trees:
            trees[rel] = parse(path)
        cls = find_class(trees[rel], cname, path)
        got = member_text(member(path, cls, mname))
        if not same_text(ast.parse(got), text):
            raise TranslateError(
                f"translator: {path}: {cname}.{mname} changed (its entry in the glue table of Gen/OutputGen.v is no longer justified):\n{got}"
            )
    for rel, cname in IDENTITY_CLASSES:
        path = os.path.join(T, rel)
        cls = find_class(trees[rel], cname, path)
        if cls.bases or cls.keywords or cls.decorator_list:
            fail(path, cls, f"class {cname} has bases / decorators: `in` may no longer be object identity")
        for n in cls.body:
            if isinstance(n, ast.FunctionDef) and n.name in ("__eq__", "__ne__", "__hash__"):
                fail(path, n, f"class {cname} defines {n.name}: `in` is no longer object identity")
    check_no_subclasses(os.path.join(T, INS_REL), set(CLASS_PATTERNS))


def class_text(cls):
    node = ast.parse(ast.unparse(cls)).body[0]
    node.body = strip_doc(node.body) or [ast.Pass()]
    return ast.unparse(node)


def check_config(path, tree):
    cls = find_class(tree, "CFGDotConfig", path)
    if not same_text(ast.parse(class_text(cls)), CONFIG_CLASS):
        fail(path, cls, "class CFGDotConfig changed (record dotconfig / default_config of the prelude):\n" + class_text(cls))
    # the colour fields are never assigned: a read of config.<field> is the colour class
    for root, _, files in os.walk(T):
        for fn in sorted(files):
            if fn.endswith(".py"):
                fp = os.path.join(root, fn)
                for node in ast.walk(parse(fp)):
                    if isinstance(node, ast.Attribute) and isinstance(node.ctx, (ast.Store, ast.Del)) and node.attr in COLOR_FIELDS:
                        fail(fp, node, f"assignment to the colour field {node.attr} of a config")
                    if isinstance(node, ast.Call) and is_name(node.func) and node.func.id in ("setattr", "delattr") and fp.endswith(OUT_REL):
                        fail(fp, node, "setattr / delattr in utils/output.py")
                    if isinstance(node, ast.Call) and is_name(node.func, "_bb_to_dot"):
                        if not fp.endswith(OUT_REL):
                            fail(fp, node, "_bb_to_dot is called outside utils/output.py")


def check_ignore_edge(path, fn):
    """every call of _bb_to_dot in fn is preceded by a top-level assignment of config.ignore_edge (see the module doc)"""
    seen = False
    for st in fn.body:
        if isinstance(st, ast.Assign) and len(st.targets) == 1 and ast.unparse(st.targets[0]) == "config.ignore_edge":
            seen = True
        calls = [n for n in ast.walk(st) if isinstance(n, ast.Call) and is_name(n.func, "_bb_to_dot")]
        for c in calls:
            if not seen or len(c.args) != 2 or not is_name(c.args[1], "config"):
                fail(path, c, "_bb_to_dot is called before config.ignore_edge is assigned")


def check_signature(path, fn, params, rann, decorators=()):
    a = fn.args
    if a.vararg or a.kwarg or a.kwonlyargs or a.posonlyargs:
        fail(path, fn, "signature of " + fn.name)
    if [ast.unparse(d) for d in fn.decorator_list] != list(decorators):
        fail(path, fn, f"decorators of {fn.name}: {[ast.unparse(d) for d in fn.decorator_list]}")
    defaults = [None] * (len(a.args) - len(a.defaults)) + [ast.unparse(d) for d in a.defaults]
    got = [(x.arg, ast.unparse(x.annotation) if x.annotation else None, d) for x, d in zip(a.args, defaults)]
    if got != [(n, an, d) for n, an, d, _ in params]:
        fail(path, fn, f"signature of {fn.name}: {got}")
    r = ast.unparse(fn.returns) if fn.returns else None
    if r != rann:
        fail(path, fn, f"return annotation of {fn.name}: {r}")


def find_method(path, cls, name):
    found = [n for n in cls.body if isinstance(n, ast.FunctionDef) and n.name == name]
    if len(found) != 1:
        raise TranslateError(f"translator: {path}: expected exactly one method {cls.name}.{name}")
    return found[0]


def check_callers_whole_tree():
    """the translated top-level functions are not rebound / monkey-patched anywhere"""
    names = set(FUNCS)
    for root, _, files in os.walk(T):
        for fn in sorted(files):
            if fn.endswith(".py"):
                fp = os.path.join(root, fn)
                for node in ast.walk(parse(fp)):
                    if isinstance(node, ast.Attribute) and isinstance(node.ctx, (ast.Store, ast.Del)) and node.attr in names | set(METHODS) | set(CG_METHODS) - {"print"}:
                        fail(fp, node, f"assignment to the attribute {node.attr}")


# ----------------------------------------------------------------------------- emission
def emit_function(w, path, fn, gname, params, result, imports, cls=None, label_ok=False, extra=()):
    vars_ = {n: ty for n, _, _, ty in params if ty is not None}
    env = Env(path, vars_, imports, result, cls=cls, label_ok=label_ok, fn=fn)
    for n in vars_:
        if vars_[n] not in (TEAL, DETECTOR):
            check_name(env, n, fn)
    sig = [(n, ty) for n, _, _, ty in params if ty is not None and ty not in (TEAL, DETECTOR)]
    for n, ty in extra:
        env.vars[n] = ty
    if isinstance(result, tuple) and result[0] == "files":
        env.vars["files"] = tlist(OUTCOME)
    sig = list(extra) + sig
    body = block(env, fn.body, None)
    if isinstance(result, tuple) and result[0] == "files":
        body = f"(let files := [] in\n{body})"
        rt = f"({coqty(result[1], True)} * list dotout)"
    elif isinstance(result, tuple) and result[0] == "state":
        rt = coqty(env.vars["self_" + result[1]])
    else:
        rt = coqty(result)
    ps = "".join(f" ({n} : {coqty(ty, True)})" for n, ty in sig)
    w(f"  Definition {gname}{ps} : py {rt} :=\n{indent(body, 4)}.")
    w("")


def emit_output(outdir):
    op = os.path.join(T, OUT_REL)
    cp = os.path.join(T, CG_REL)
    otree, ctree = parse(op), parse(cp)
    check_fingerprints()
    check_config(op, otree)
    check_callers_whole_tree()
    oimports, cimports = bound_names(otree), bound_names(ctree)
    want = {c: INS_MODULE + "." + c for c in CLASS_PATTERNS}
    want.update({"Path": "pathlib.Path", "re": "<module>", "os": "<module>", "html": "<module>", "CFGDotConfig": "<local>", "ROOT_OUTPUT_DIRECTORY": "<local>"})
    want.update({n: "<local>" for n in FUNCS})
    want.update({"_instruction_to_dot": "<local>", "detector_terminal_description": "<local>", "ExecutionPaths": "<local>"})
    for n, o in want.items():
        if oimports.get(n) != o:
            raise TranslateError(f"translator: {op}: name {n} is bound to {oimports.get(n)}, expected {o}")
    check_single_binding(op, otree, list(FUNCS) + list(CLASS_PATTERNS) + ["Path", "re", "os", "html", "CFGDotConfig", "ROOT_OUTPUT_DIRECTORY", "_instruction_to_dot", "ExecutionPaths"])
    cwant = {"Path": "pathlib.Path", "os": "<module>", "html": "<module>", "ROOT_OUTPUT_DIRECTORY": OUT_MODULE + ".ROOT_OUTPUT_DIRECTORY", "AbstractPrinter": "tealer.printers.abstract_printer.AbstractPrinter"}
    for n, o in cwant.items():
        if cimports.get(n) != o:
            raise TranslateError(f"translator: {cp}: name {n} is bound to {cimports.get(n)}, expected {o}")
    check_single_binding(cp, ctree, list(cwant) + ["PrinterCallGraph"])
    # ROOT_OUTPUT_DIRECTORY is a Path
    roots = [n for n in otree.body if isinstance(n, ast.Assign) and ast.unparse(n.targets[0]) == "ROOT_OUTPUT_DIRECTORY"]
    if len(roots) != 1 or not same_text(roots[0], "ROOT_OUTPUT_DIRECTORY = Path(os.getenv('TEALER_ROOT_OUTPUT_DIR', 'tealer-export'))"):
        raise TranslateError(f"translator: {op}: ROOT_OUTPUT_DIRECTORY is no longer Path(os.getenv(..))")

    L = []
    w = L.append
    w("(* GENERATED by tools/translate.py (translate_output) from /repo/tealer -- do not edit *)")
    w("(* utils/output.py (_bb_to_dot, full_cfg_to_dot, subroutine_to_dot, ExecutionPaths) and printers/call_graph.py:")
    w("   the STRUCTURE of what the exporters draw (items in emission order), statement by statement.")
    w("   See tools/translate_output.py for the reading. *)")
    w("From Coq Require Import String List NArith Bool Arith Ascii.")
    w("From Tealer Require Import Syntax Cfg Analysis KeysGen Output.")
    w("Import ListNotations.")
    w("Open Scope string_scope.")
    w("Open Scope list_scope.")
    w(PRELUDE.rstrip("\n"))
    w("")
    w("  (* ====================================================================== *)")
    w("  (* TRANSLATED functions                                                     *)")
    w("  (* ====================================================================== *)")
    n = 0
    # ---- utils/output.py, top-level functions
    for name in ("_bb_to_dot", "subroutine_to_dot", "full_cfg_to_dot", "detector_ouptut_dir"):
        fn = find_toplevel(otree, name, op)
        g, params, rann, result = FUNCS[name]
        check_signature(op, fn, params, rann)
        if name in ("subroutine_to_dot", "full_cfg_to_dot"):
            check_ignore_edge(op, fn)
        w(f"  (* {OUT_REL}: {name} (line {fn.lineno}) *)")
        emit_function(w, op, fn, g, params, result, oimports, label_ok=(name == "_bb_to_dot"))
        n += 1
    # ---- ExecutionPaths
    cls = find_class(otree, "ExecutionPaths", op)
    if [ast.unparse(b) for b in cls.bases] != ["Output"] or cls.keywords or cls.decorator_list:
        fail(op, cls, "bases of ExecutionPaths")
    if not same_text(ast.parse(member_text(find_method(op, cls, "__init__"))), EXECUTION_PATHS_INIT):
        fail(op, cls, "ExecutionPaths.__init__ changed (self.paths / self._teal of the glue)")
    if not same_text(ast.parse(member_text(find_method(op, cls, "detector"))), EXECUTION_PATHS_DETECTOR):
        fail(op, cls, "ExecutionPaths.detector changed")
    for other in ast.walk(otree):
        if isinstance(other, ast.ClassDef) and "ExecutionPaths" in [ast.unparse(b) for b in other.bases]:
            fail(op, other, "a subclass of ExecutionPaths may override the translated methods")
    for name in ("_filename", "_short_notation", "filter_paths", "generate_output"):
        fn = find_method(op, cls, name)
        g, params, rann, result, deco = METHODS[name]
        check_signature(op, fn, params, rann, deco)
        uses_paths = any(is_self_attr(x, "paths") for x in ast.walk(fn))
        extra = [("self_paths", tlist(tlist(BLK)))] if uses_paths else []
        w(f"  (* {OUT_REL}: ExecutionPaths.{name} (line {fn.lineno}) *)")
        emit_function(w, op, fn, g, params, result, oimports, cls="ExecutionPaths", extra=extra)
        n += 1
    # ---- printers/call_graph.py
    cls = find_class(ctree, "PrinterCallGraph", cp)
    if [ast.unparse(b) for b in cls.bases] != ["AbstractPrinter"] or cls.keywords or cls.decorator_list:
        fail(cp, cls, "bases of PrinterCallGraph")
    ap = os.path.join(T, AP_REL)
    init = find_method(ap, find_class(parse(ap), "AbstractPrinter", ap), "__init__")
    if not same_text(strip_doc(init.body)[0], "self.teal = teal") or [x.arg for x in init.args.args] != ["self", "teal"]:
        fail(ap, init, "AbstractPrinter.__init__ no longer starts with self.teal = teal")
    for name in ("_construct_call_graph", "print"):
        fn = find_method(cp, cls, name)
        g, params, rann, result, deco = CG_METHODS[name]
        check_signature(cp, fn, params, rann, deco)
        w(f"  (* {CG_REL}: PrinterCallGraph.{name} (line {fn.lineno}) *)")
        emit_function(w, cp, fn, g, params, result, cimports, cls="PrinterCallGraph")
        n += 1
    w("End OutputGen.")
    os.makedirs(outdir, exist_ok=True)
    with open(os.path.join(outdir, "OutputGen.v"), "w") as fh:
        fh.write("\n".join(L) + "\n")
    return n


def main():
    outdir = sys.argv[1] if len(sys.argv) > 1 else os.path.join(os.path.dirname(os.path.abspath(__file__)), "..", "coq", "Gen")
    try:
        n = emit_output(outdir)
    except TranslateError as e:
        print(str(e))
        sys.exit(2)
    print(f"translate_output: {n} exporter functions -> {outdir}/OutputGen.v")


if __name__ == "__main__":
    main()
