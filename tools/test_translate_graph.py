#!/venv/bin/python
"""Self-test of tools/translate_graph.py (the regenerated global-graph helpers and neighbourhood functions,
Gen/GraphGen.v).

(a) runs the translator on the clean source ($VERIF_REPO, default /tmp/cleanrepo) and checks that the output is the
    committed coq/Gen/GraphGen.v, compiles, and that Lemmas/GraphGenLemmas.v compiles against it;
(b) applies small mutations to a scratch copy of utils/analyses.py / generic.py / basic_blocks.py / functions.py and
    shows that, for each, either the translator stops (TranslateError) or the generated Gallina differs AND
    Lemmas/GraphGenLemmas.v no longer compiles against it.

Precondition: coq/ has been built (`make`); the .vo files of Model/, Gen/ (Tables, Leaves, KeysGen, SingleGen,
AssertedGen), Spec/, Lemmas/ are used.  Every coqc runs under `timeout`.  Exit status 0 iff every row has the expected
verdict.

usage: VERIF_REPO=/tmp/cleanrepo /venv/bin/python tools/test_translate_graph.py [-v]
"""
import ast
import os
import re
import shutil
import subprocess
import sys
import tempfile

HERE = os.path.dirname(os.path.abspath(__file__))
ROOT = os.path.dirname(HERE)
COQ = os.path.join(ROOT, "coq")
PY = "/venv/bin/python"
REPO = os.environ.get("VERIF_REPO", "/tmp/cleanrepo")

UA = "tealer/utils/analyses.py"
GEN = "tealer/analyses/dataflow/transaction_context/generic.py"
FEE = "tealer/analyses/dataflow/transaction_context/fee_field.py"
BB = "tealer/teal/basic_blocks.py"
FN = "tealer/teal/functions.py"
SUBR = "tealer/teal/subroutine.py"


def sh(cmd, cwd=None, env=None):
    e = dict(os.environ)
    if env:
        e.update(env)
    p = subprocess.run(cmd, shell=True, cwd=cwd, stdout=subprocess.PIPE, stderr=subprocess.STDOUT, env=e, check=False)
    return p.returncode, p.stdout.decode(errors="replace")


# ----------------------------------------------------------------------------- mutations (text -> text)
def replace_once(src, old, new):
    if src.count(old) != 1:
        raise RuntimeError(f"mutation anchor found {src.count(old)} times: " + old[:60])
    return src.replace(old, new, 1)


def function_def(tree, name):
    found = [n for n in ast.walk(tree) if isinstance(n, ast.FunctionDef) and n.name == name]
    if len(found) != 1:
        raise RuntimeError("mutation anchor not found: def " + name)
    return found[0]


def mut_prev_entry_no_pred(src):
    """(i) prev_blocks_global: a block is a routine entry only if it has no local predecessors"""
    return replace_once(src, "    if block == block.subroutine.entry:\n", "    if block == block.subroutine.entry and len(block.prev) == 0:\n")


def mut_leaf_drop_callsub(src):
    """(ii) leaf_block_global drops the `not block.is_callsub_block` conjunct"""
    return replace_once(
        src,
        "return len(block.next) == 0 and not block.is_retsub_block and not block.is_callsub_block",
        "return len(block.next) == 0 and not block.is_retsub_block",
    )


def mut_reachin_no_refinement(src):
    """(iii) _calculate_reachin omits the return-point refinement"""
    tree = ast.parse(src)
    fn = function_def(tree, "_calculate_reachin")
    before = len(fn.body)
    fn.body = [st for st in fn.body if not (isinstance(st, ast.If) and ast.unparse(st.test) == "block.is_sub_return_point")]
    if len(fn.body) != before - 1:
        raise RuntimeError("mutation anchor not found: if block.is_sub_return_point")
    return ast.unparse(ast.fix_missing_locations(tree)) + "\n"


def mut_livein_own_block(src):
    """(iv) _calculate_livein unions liveout[block] instead of liveout[next_b]"""
    return replace_once(
        src,
        "livein_information = self._union(key, livein_information, liveout[next_b])",
        "livein_information = self._union(key, livein_information, liveout[block])",
    )


def mut_next_callsub_local(src):
    """(v) next_blocks_global returns block.next for callsub blocks"""
    return replace_once(src, "        return [block.called_subroutine.entry]\n", "        return block.next\n")


def mut_reachin_swap_ops(src):
    """(x1) _calculate_reachin: union and intersection swapped in the fold"""
    return replace_once(
        src,
        "            reachin_information = self._union(\n                key,\n                reachin_information,\n                self._intersection(key, reachout[prev_b], path_context[block][prev_b]),\n            )\n",
        "            reachin_information = self._intersection(\n                key,\n                reachin_information,\n                self._union(key, reachout[prev_b], path_context[block][prev_b]),\n            )\n",
    )


def mut_reachin_entry_null(src):
    """(x2) _calculate_reachin: the entry block starts from the null set as well"""
    return replace_once(
        src,
        "            # We are considering each possible value as a definition defined at the start of entry block.\n            reachin_information = self._universal_set(key)\n",
        "            reachin_information = self._null_set(key)\n",
    )


def mut_livein_drop_retsub_test(src):
    """(x3) _calculate_livein: the `len(..retsub_blocks) != 0` conjunct is dropped"""
    return replace_once(
        src,
        "            and block.sub_return_point is not None\n            and len(block.called_subroutine.retsub_blocks) != 0\n",
        "            and block.sub_return_point is not None\n",
    )


def mut_prev_rp_local(src):
    """(x4) prev_blocks_global returns block.prev for return points"""
    return replace_once(src, "        return block.callsub_block.called_subroutine.retsub_blocks\n", "        return block.prev\n")


def mut_reachin_refine_own(src):
    """(x5) _calculate_reachin refines with reachout[block] instead of reachout[block.callsub_block]"""
    return replace_once(src, "                key, reachin_information, reachout[block.callsub_block]\n", "                key, reachin_information, reachout[block]\n")


def mut_prev_return_points(src):
    """(x6) prev_blocks_global: return points instead of caller blocks for a subroutine entry"""
    return replace_once(src, "            return function.caller_blocks(block.subroutine)\n", "            return function.return_point_blocks(block.subroutine)\n")


def mut_livein_refine_union(src):
    """(x7) _calculate_livein: the call-site refinement unions instead of intersecting"""
    return replace_once(
        src,
        "            livein_information = self._intersection(\n                key, livein_information, liveout[block.sub_return_point]\n",
        "            livein_information = self._union(\n                key, livein_information, liveout[block.sub_return_point]\n",
    )


def mut_reachin_edge_swapped(src):
    """(x8) _calculate_reachin reads path_context[prev_b][block]"""
    return replace_once(
        src,
        "self._intersection(key, reachout[prev_b], path_context[block][prev_b])",
        "self._intersection(key, reachout[prev_b], path_context[prev_b][block])",
    )


def mut_prev_main_callers(src):
    """(x9) prev_blocks_global: the main test is dropped (callers are looked up for main as well)"""
    return replace_once(
        src,
        "        if block.subroutine != function.main:\n            return function.caller_blocks(block.subroutine)\n",
        "        if True:\n            return function.caller_blocks(block.subroutine)\n",
    )


def mut_next_retsub_callers(src):
    """(x10) next_blocks_global: a retsub block continues at the callsub blocks instead of the return points"""
    return replace_once(src, "        return function.return_point_blocks(block.subroutine)\n", "        return function.caller_blocks(block.subroutine)\n")


def mut_prop_is_sub_return_point(src):
    """(s1, basic_blocks.py) is_sub_return_point looks at the successors"""
    return replace_once(
        src,
        "        for bi in self.prev:\n            if bi.is_callsub_block:\n                return True\n        return False\n",
        "        for bi in self.next:\n            if bi.is_callsub_block:\n                return True\n        return False\n",
    )


def mut_function_return_points(src):
    """(s2, functions.py) return points of call sites with at least one successor"""
    return replace_once(src, "bi.next[0] for bi in caller_blocks if len(bi.next) == 1", "bi.next[0] for bi in caller_blocks if len(bi.next) >= 1")


def mut_unknown_attribute(src):
    """(s3) an attribute outside the glue table"""
    return replace_once(src, "    if block.is_callsub_block:\n        return [block.called_subroutine.entry]\n", "    if block.is_callsub_block and block.idx != 0:\n        return [block.called_subroutine.entry]\n")


def mut_while(src):
    """(s4) a statement kind outside the whitelist"""
    return replace_once(src, "        livein_information = self._null_set(key)\n\n", "        livein_information = self._null_set(key)\n        while False:\n            pass\n\n")


def mut_override(src):
    """(s5, fee_field.py) a subclass overrides _calculate_livein"""
    return src + "\n\nclass Shadow(FeeField):\n    def _calculate_livein(self, key, block, liveout):\n        return self._null_set(key)\n"


def mut_block_eq(src):
    """(s6, basic_blocks.py) BasicBlock defines __eq__"""
    return replace_once(src, "    def __str__(self) -> str:\n", "    def __eq__(self, other: object) -> bool:\n        return True\n\n    def __str__(self) -> str:\n")


def mut_rebind_helper(src):
    """(s7) next_blocks_global rebound at module level of generic.py"""
    return replace_once(src, 'debug_keys = ["TransactionType"]\n', 'debug_keys = ["TransactionType"]\nnext_blocks_global = prev_blocks_global\n')


def mut_other_key(src):
    """(s8) a domain operation of another key"""
    return replace_once(src, "        livein_information = self._null_set(key)\n\n", '        livein_information = self._null_set("Other")\n\n')


def mut_entry_reassigned(src):
    """(s9, fee_field.py) self._entry_block assigned outside __init__"""
    return src + "\n\nclass Shadow2(FeeField):\n    def run_analysis(self):\n        self._entry_block = self._function.blocks[-1]\n        super().run_analysis()\n"


def mut_retsub_blocks(src):
    """(s10, subroutine.py) retsub_blocks computed from all blocks with no successor"""
    return replace_once(src, "return [b for b in self._exit_blocks if isinstance(b.exit_instr, Retsub)]", "return [b for b in self._exit_blocks if len(b.next) == 0]")


def mut_break(src):
    """(s11) break in the loop of _calculate_livein"""
    return replace_once(
        src,
        "            livein_information = self._union(key, livein_information, liveout[next_b])\n",
        "            livein_information = self._union(key, livein_information, liveout[next_b])\n            break\n",
    )


def mut_rebind_local(src):
    """(s12) prev_blocks_global rebound at the end of utils/analyses.py"""
    return src + "\n\nprev_blocks_global = next_blocks_global\n"


# ---- twin audit (same-typed section variables / glue functions written for each other, swapped argument order)
def mut_livein_univ(src):
    """(t1) _calculate_livein starts from the universal set: the function uses ONE of the twins univ / null only"""
    return replace_once(src, "        livein_information = self._null_set(key)\n\n", "        livein_information = self._universal_set(key)\n\n")


def mut_reachin_else_univ(src):
    """(t2) _calculate_reachin: the non-entry blocks start from the universal set as well"""
    return replace_once(
        src,
        "        else:\n            reachin_information = self._null_set(key)\n\n        path_context = self._path_contexts[key]\n",
        "        else:\n            reachin_information = self._universal_set(key)\n\n        path_context = self._path_contexts[key]\n",
    )


def mut_livein_fold_inter(src):
    """(t3) _calculate_livein: the fold over the successors intersects"""
    return replace_once(
        src,
        "            livein_information = self._union(key, livein_information, liveout[next_b])\n",
        "            livein_information = self._intersection(key, livein_information, liveout[next_b])\n",
    )


def mut_livein_prev(src):
    """(t4) _calculate_livein folds over prev_blocks_global (forward / backward twin)"""
    return replace_once(
        src,
        "        for next_b in next_blocks_global(self._function, block):\n            livein_information = self._union(key, livein_information, liveout[next_b])\n",
        "        for next_b in prev_blocks_global(self._function, block):\n            livein_information = self._union(key, livein_information, liveout[next_b])\n",
    )


def mut_reachin_next(src):
    """(t5) _calculate_reachin folds over next_blocks_global (forward / backward twin)"""
    return replace_once(src, "        for prev_b in prev_blocks_global(self._function, block):\n", "        for prev_b in next_blocks_global(self._function, block):\n")


def mut_reachin_union_args(src):
    """(a1) _calculate_reachin: the two set arguments of _union swapped"""
    return replace_once(
        src,
        "            reachin_information = self._union(\n                key,\n                reachin_information,\n                self._intersection(key, reachout[prev_b], path_context[block][prev_b]),\n            )\n",
        "            reachin_information = self._union(\n                key,\n                self._intersection(key, reachout[prev_b], path_context[block][prev_b]),\n                reachin_information,\n            )\n",
    )


def mut_livein_inter_args(src):
    """(a2) _calculate_livein: the two set arguments of the refining _intersection swapped"""
    return replace_once(
        src,
        "            livein_information = self._intersection(\n                key, livein_information, liveout[block.sub_return_point]\n",
        "            livein_information = self._intersection(\n                key, liveout[block.sub_return_point], livein_information\n",
    )


def mut_reachin_inner_args(src):
    """(a3) _calculate_reachin: the two set arguments of the inner _intersection swapped"""
    return replace_once(
        src,
        "self._intersection(key, reachout[prev_b], path_context[block][prev_b])",
        "self._intersection(key, path_context[block][prev_b], reachout[prev_b])",
    )


MUTATIONS = [
    ("(i) prev: entry only if no local predecessor", UA, mut_prev_entry_no_pred),
    ("(ii) leaf: `not is_callsub_block` dropped", UA, mut_leaf_drop_callsub),
    ("(iii) reachin: return-point refinement omitted", GEN, mut_reachin_no_refinement),
    ("(iv) livein: liveout[block] for liveout[next_b]", GEN, mut_livein_own_block),
    ("(v) next: block.next for callsub blocks", UA, mut_next_callsub_local),
    ("(x1) reachin: union/intersection swapped", GEN, mut_reachin_swap_ops),
    ("(x2) reachin: entry block starts from null", GEN, mut_reachin_entry_null),
    ("(x3) livein: retsub_blocks test dropped", GEN, mut_livein_drop_retsub_test),
    ("(x4) prev: block.prev for return points", UA, mut_prev_rp_local),
    ("(x5) reachin: refinement with reachout[block]", GEN, mut_reachin_refine_own),
    ("(x6) prev: return points for callers", UA, mut_prev_return_points),
    ("(x7) livein: refinement unions", GEN, mut_livein_refine_union),
    ("(x8) reachin: path_context[prev_b][block]", GEN, mut_reachin_edge_swapped),
    ("(x9) prev: main test dropped", UA, mut_prev_main_callers),
    ("(x10) next: retsub continues at the callers", UA, mut_next_retsub_callers),
    ("(s1) BasicBlock.is_sub_return_point edited", BB, mut_prop_is_sub_return_point),
    ("(s2) Function.__init__ return points edited", FN, mut_function_return_points),
    ("(s3) attribute outside the glue table (.idx)", UA, mut_unknown_attribute),
    ("(s4) while statement", GEN, mut_while),
    ("(s5) subclass overrides _calculate_livein", FEE, mut_override),
    ("(s6) BasicBlock defines __eq__", BB, mut_block_eq),
    ("(s7) next_blocks_global rebound in generic.py", GEN, mut_rebind_helper),
    ("(s8) domain operation of another key", GEN, mut_other_key),
    ("(s9) self._entry_block assigned elsewhere", FEE, mut_entry_reassigned),
    ("(s10) Subroutine.retsub_blocks edited", SUBR, mut_retsub_blocks),
    ("(s11) break in a loop body", GEN, mut_break),
    ("(s12) prev_blocks_global rebound in analyses.py", UA, mut_rebind_local),
    ("(t1) TWIN livein: universal set for null set", GEN, mut_livein_univ),
    ("(t2) TWIN reachin: non-entry starts from univ", GEN, mut_reachin_else_univ),
    ("(t3) TWIN livein: the fold intersects", GEN, mut_livein_fold_inter),
    ("(t4) TWIN livein: folds over the predecessors", GEN, mut_livein_prev),
    ("(t5) TWIN reachin: folds over the successors", GEN, mut_reachin_next),
    ("(a1) ARGS reachin: _union(key, y, x)", GEN, mut_reachin_union_args),
    ("(a2) ARGS livein: _intersection(key, y, x)", GEN, mut_livein_inter_args),
    ("(a3) ARGS reachin: inner _intersection(key, y, x)", GEN, mut_reachin_inner_args),
]
REQUIRED = 5  # the first five rows are the mutations required by the task


# ----------------------------------------------------------------------------- one run
def enclosing(vfile, line):
    name = "?"
    with open(vfile, encoding="utf-8") as f:
        for i, l in enumerate(f, 1):
            m = re.match(r"\s*(Lemma|Theorem|Corollary|Definition)\s+(\w+)", l)
            if m and i <= line:
                name = m.group(2)
            if i > line:
                break
    return name


def run_case(work, scratch, rel=None, mutate=None):
    """-> dict(translator=..., text=..., gen_ok=..., lemmas_ok=..., where=..., log=...)"""
    gen = os.path.join(work, "Gen")
    lem = os.path.join(work, "Lemmas")
    os.makedirs(gen)
    os.makedirs(lem)
    path, orig = None, None
    if mutate:
        path = os.path.join(scratch, rel)
        with open(path, encoding="utf-8") as fh:
            orig = fh.read()
        new = mutate(orig)
        if new == orig:
            raise RuntimeError("mutation did not change the source")
        ast.parse(new)  # the mutant is valid Python
        with open(path, "w", encoding="utf-8") as fh:
            fh.write(new)
    try:
        rc, out = sh(f"{PY} {HERE}/translate_graph.py {gen}", env={"VERIF_REPO": scratch})
    finally:
        if path:
            with open(path, "w", encoding="utf-8") as fh:
                fh.write(orig)
    res = {"translator": "ok" if rc == 0 else "STOPPED", "log": out.strip().replace(scratch + "/", ""), "text": None, "gen_ok": None, "lemmas_ok": None, "where": None}
    if rc != 0:
        if rc != 2 or "translator:" not in out:
            res["translator"] = "CRASHED"
        return res
    with open(os.path.join(gen, "GraphGen.v"), encoding="utf-8") as fh:
        res["text"] = fh.read()
    # the other generated files are taken (compiled) from the built tree
    for f in ("Tables.vo", "Leaves.vo", "KeysGen.vo", "SingleGen.vo", "AssertedGen.vo"):
        os.symlink(os.path.join(COQ, "Gen", f), os.path.join(gen, f))
    lemv = os.path.join(lem, "GraphGenLemmas.v")
    shutil.copy(os.path.join(COQ, "Lemmas", "GraphGenLemmas.v"), lemv)
    q = f"-Q {COQ}/Model Tealer -Q {gen} Tealer -Q {COQ}/Spec Tealer -Q {COQ}/Lemmas Tealer"
    rc, out = sh(f"timeout 300 coqc {q} {gen}/GraphGen.v 2>&1")
    res["gen_ok"] = rc == 0
    res["log"] += "\n" + out[-1500:]
    if rc == 0:
        rc, out = sh(f"timeout 900 coqc {q} {lemv} 2>&1")
        res["lemmas_ok"] = rc == 0
        res["log"] += "\n" + out[-1500:]
        if rc != 0:
            m = re.search(r"line (\d+), characters", out)
            res["where"] = f"{enclosing(lemv, int(m.group(1)))} (line {m.group(1)})" if m else ("timeout" if rc == 124 else "?")
    return res


def main():
    verbose = "-v" in sys.argv
    for f in ("Model/Analysis.vo", "Gen/KeysGen.vo", "Gen/AssertedGen.vo", "Lemmas/SolverLemmas.vo"):
        if not os.path.exists(os.path.join(COQ, f)):
            print(f"precondition: {COQ}/{f} missing -- build coq/ first (make)")
            sys.exit(3)
    top = tempfile.mkdtemp(prefix="tgraph_")
    scratch = os.path.join(top, "repo")
    shutil.copytree(os.path.join(REPO, "tealer"), os.path.join(scratch, "tealer"), ignore=shutil.ignore_patterns("__pycache__"))
    rows = []
    ok = True
    try:
        base = run_case(os.path.join(top, "base"), scratch)
        same = None
        cur = os.path.join(COQ, "Gen", "GraphGen.v")
        if base["text"] is not None and os.path.exists(cur):
            with open(cur, encoding="utf-8") as fh:
                same = fh.read() == base["text"]
        good = base["translator"] == "ok" and base["gen_ok"] and base["lemmas_ok"] and same is True
        ok &= bool(good)
        rows.append(("(a) clean source", base["translator"], "= coq/Gen/GraphGen.v" if same else ("DIFFERS from coq/Gen" if same is False else "-"), base["gen_ok"], base["lemmas_ok"], "PASS" if good else "FAIL"))
        if verbose or not good:
            print(base["log"])
        for i, (name, rel, fn) in enumerate(MUTATIONS):
            r = run_case(os.path.join(top, f"m{i}"), scratch, rel, fn)
            if r["translator"] == "STOPPED":
                verdict, good, diff = "caught: translator stops", True, "-"
            elif r["translator"] == "CRASHED":
                verdict, good, diff = "FAIL: translator crashed", False, "-"
            else:
                differs = r["text"] != base["text"]
                diff = "differs" if differs else "IDENTICAL"
                if differs and r["gen_ok"] and r["lemmas_ok"] is False:
                    verdict, good = f"caught: lemmas break in {r['where']}", True
                elif differs and not r["gen_ok"]:
                    verdict, good = "caught: GraphGen.v ill-typed", True
                else:
                    verdict, good = "FAIL: NOT DETECTED", False
            ok &= good
            rows.append((name, r["translator"], diff, r["gen_ok"], r["lemmas_ok"], verdict))
            if verbose or not good:
                print(f"--- {name}\n{r['log']}\n")
            elif r["translator"] == "STOPPED":
                print(f"--- {name}: {r['log'].splitlines()[0][:260]}")
    finally:
        shutil.rmtree(top, ignore_errors=True)
    hdr = ("case", "translator", "generated Gallina", "GraphGen.v compiles", "GraphGenLemmas.v compiles", "verdict")
    fmt = lambda x: "-" if x is None else ("yes" if x is True else ("NO" if x is False else str(x)))  # noqa: E731
    table = [hdr] + [tuple(fmt(c) for c in r) for r in rows]
    widths = [max(len(r[i]) for r in table) for i in range(len(hdr))]
    print()
    for k, r in enumerate(table):
        print(" | ".join(c.ljust(w) for c, w in zip(r, widths)))
        if k == 0:
            print("-+-".join("-" * w for w in widths))
    print(
        "\nNotes.  (t1): _calculate_livein uses ONE of the same-typed section parameters univ / null.  Without the dead `let`\n"
        "of tcommon.pin_twins the Section discharge gives the mutant the type of the original (the parameter is merely renamed)\n"
        "and `calculate_livein_gen T null union inter f` = Analysis.livein still holds; with it calculate_livein_gen takes both\n"
        "parameters in the order of the Section header and the mutant starts from its FIRST one: calculate_livein_gen_eq fails."
    )
    print("\nRESULT:", "all mutations caught, clean source accepted" if ok else "FAILURE")
    sys.exit(0 if ok else 1)


if __name__ == "__main__":
    main()
