#!/usr/bin/env python3
"""usage: mkmeta.py <seed-name>...   writes seeded/<name>/meta.json from notes.md (CHANGE: / NEEDS: lines) and confirm.log"""
import json, os, re, sys
ROOT = os.path.dirname(os.path.dirname(os.path.abspath(__file__)))
for name in sys.argv[1:]:
    d = os.path.join(ROOT, "seeded", name)
    notes = open(os.path.join(d, "notes.md")).read()
    def grab(tag):
        m = re.search(r"^\W*" + tag + r"\W*:\W*(.+)$", notes, re.M)
        return re.sub(r"[`*]", "", m.group(1)).strip() if m else "?"
    log = open(os.path.join(d, "confirm.log")).read()
    exits = re.findall(r"^exit=(\d+)", log, re.M)
    suite = re.search(r"(\d+ passed[^\n]*|\d+ failed[^\n]*)", log)
    meta = {
        "seed": name, "breaks_property": name[:3], "change": grab("CHANGE"), "needs_to_manifest": grab("NEEDS"),
        "confirmed": {"script": f"tools/confirm_seed.sh {name}", "scratch_worktree": f"/tmp/cs/{name} (removed afterwards)",
                      "demo_on_original_exit": int(exits[0]) if exits else None, "demo_on_changed_exit": int(exits[1]) if len(exits) > 1 else None,
                      "suite_with_change": suite.group(1).split(" in ")[0] if suite else "?"},
        "checks_run": f"tools/seedmatrix.sh {name} (patch applied to a scratch worktree of /repo's HEAD that every tool reads through VERIF_REPO, or to /repo itself; registered quick checks; undone) -> matrix.txt",
    }
    json.dump(meta, open(os.path.join(d, "meta.json"), "w"), indent=1)
    print(name, meta["confirmed"])
