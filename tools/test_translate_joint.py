#!/venv/bin/python
"""Self-test of tools/translate_joint.py and Lemmas/JointGenLemmas.v (the JOINT pass: all the keys of an analysis on one
shared worklist).

The joint pass is regenerated in three files: Gen/SolverGen.v (the loops for a key LIST: translate_solver), Gen/RunGen.v
(the worklists, run_analysis: translate_run) and Gen/JointGen.v (the slice of run_analysis that makes one pass:
translate_joint).  Lemmas/JointGenLemmas.v states the joint theorems about them (on top of SolverGenLemmas /
RunGenLemmas).

(a) runs the three translators on the clean source ($VERIF_REPO, default /tmp/cleanrepo) and checks that the outputs
    are the committed coq/Gen/{SolverGen,RunGen,JointGen}.v, that they compile, and that the chain
    SolverGenLemmas -> RunGenLemmas -> JointGenLemmas compiles against them;
(b) applies small mutations to a scratch copy of generic.py and shows that, for each, either a translator stops
    (TranslateError; the table says which) or the generated Gallina differs AND the chain no longer compiles (the table
    says in which file and lemma it breaks first).  For the mutants the translators accept, the PROBE sections of
    JointGenLemmas.v (joint_forward_probe, joint_pass_probe: the exact dictionaries and iteration counts of a joint
    forward pass / of one whole joint pass over two keys, statements about the generated functions alone, proved by
    vm_compute) are compiled on their own against the mutant as well: it tells whether the instance distinguishes the mutant semantically, independently of the proof scripts and of
    the other lemma files.

Precondition: coq/ has been built (`make`).  Every coqc runs under `timeout`.  Exit status 0 iff every row has the
expected verdict.

usage: VERIF_REPO=/tmp/cleanrepo /venv/bin/python tools/test_translate_joint.py [-v]
"""
import ast
import os
import re
import shutil
import subprocess
import sys
import tempfile

HERE = os.path.dirname(os.path.abspath(__file__))
ROOT = os.path.dirname(HERE)
COQ = os.path.join(ROOT, "coq")
PY = "/venv/bin/python"
REPO = os.environ.get("VERIF_REPO", "/tmp/cleanrepo")

GEN = "tealer/analyses/dataflow/transaction_context/generic.py"
TRANSLATORS = [("solver", "translate_solver.py", "SolverGen.v"), ("run", "translate_run.py", "RunGen.v"), ("joint", "translate_joint.py", "JointGen.v")]
CHAIN = ["SolverGenLemmas.v", "RunGenLemmas.v", "JointGenLemmas.v"]

PROBE_HEAD = """From Coq Require Import String List NArith ZArith Bool Arith.
From Tealer Require Import Tables Syntax Parse Cfg StackAst Keys KeysGen Analysis GraphGen SolverGen RunGen JointGen Domains.
Import ListNotations.
Open Scope string_scope.
Open Scope list_scope.
"""


def sh(cmd, cwd=None, env=None):
    e = dict(os.environ)
    if env:
        e.update(env)
    p = subprocess.run(cmd, shell=True, cwd=cwd, stdout=subprocess.PIPE, stderr=subprocess.STDOUT, env=e, check=False)
    return p.returncode, p.stdout.decode(errors="replace")


# ----------------------------------------------------------------------------- mutations (text -> text)
def replace_once(src, old, new):
    if src.count(old) != 1:
        raise RuntimeError(f"mutation anchor found {src.count(old)} times: " + old[:60])
    return src.replace(old, new, 1)


def replace_nth(src, old, new, n):
    """replace the n-th (0-based) occurrence"""
    parts = src.split(old)
    if len(parts) <= n + 1:
        raise RuntimeError(f"mutation anchor found {len(parts) - 1} times: " + old[:60])
    return old.join(parts[: n + 1]) + new + old.join(parts[n + 1 :])


FWD_STORE = "                global_reachout[key][block] = new_reachout\n                updated = True\n"
BWD_IF = "            if new_liveout != global_liveout[key][block]:\n                global_liveout[key][block] = new_liveout\n                updated = True\n"
FWD_CALL = "            updated = self._merge_information_forward(analysis_keys, b, global_reachout)\n"
FWD_WL = "        worklist = []\n        for l in postorder:\n            worklist += l[::-1]  # Reverse postorder\n"
BWD_WL = "        worklist = []\n        for l in postorder:\n            worklist += [b for b in l if not leaf_block_global(b)]  # postorder, exclude leaf blocks\n"
PASS2 = FWD_WL + "        self.forward_analyis(analysis_keys, worklist)\n\n" + BWD_WL + "        self.backward_analysis(analysis_keys, worklist)\n"


def mut_flag_in_loop(src):
    """(j1) `updated = False` moved into the loop over the keys (forward): the flag of the last key wins"""
    return replace_once(
        src,
        "        updated = False\n        for key in analysis_keys:\n            # RCHout(b) = intersection(RCHin(b), PRSV(b))\n",
        "        for key in analysis_keys:\n            updated = False\n            # RCHout(b) = intersection(RCHin(b), PRSV(b))\n",
    )


def mut_flag_last_key(src):
    """(j2) the successors are re-queued only when the LAST key changed (`else: updated = False`)"""
    return replace_once(src, FWD_STORE, FWD_STORE + "            else:\n                updated = False\n")


def mut_flag_overwritten_bwd(src):
    """(j3) backward: `updated` assigned for every key instead of accumulated"""
    return replace_once(
        src, BWD_IF, "            updated = new_liveout != global_liveout[key][block]\n            if updated:\n                global_liveout[key][block] = new_liveout\n"
    )


def mut_pop_last(src):
    """(j4) the worklist is popped from the other end (forward)"""
    return replace_once(src, "            b = worklist[0]\n            worklist = worklist[1:]\n" + FWD_CALL, "            b = worklist[-1]\n            worklist = worklist[:-1]\n" + FWD_CALL)


def mut_requeue_when_unchanged(src):
    """(j5) forward: the successors are re-queued when NO key changed"""
    return replace_once(src, FWD_CALL + "\n            if updated:\n", FWD_CALL + "\n            if not updated:\n")


def mut_always_changed(src):
    """(j6) _merge_information_forward always reports a change"""
    return replace_once(
        src,
        FWD_STORE + "        return updated\n",
        FWD_STORE + "        return True\n",
    )


def mut_never_changed_bwd(src):
    """(j7) _merge_information_backward never reports a change"""
    return replace_once(src, BWD_IF + "        return updated\n", BWD_IF + "        return False\n")


def mut_first_key_only(src):
    """(j8) _merge_information_forward recomputes the first key only"""
    return replace_once(
        src,
        "        updated = False\n        for key in analysis_keys:\n            # RCHout(b) = intersection(RCHin(b), PRSV(b))\n",
        "        updated = False\n        for key in analysis_keys[:1]:\n            # RCHout(b) = intersection(RCHin(b), PRSV(b))\n",
    )


def mut_break_after_change(src):
    """(j9) the loop over the keys stops at the first key that changed"""
    return replace_once(src, FWD_STORE, FWD_STORE + "                break\n")


def mut_front_insert(src):
    """(j10) backward: predecessors are put at the FRONT of the worklist"""
    return replace_once(
        src,
        "                for bi in prev_blocks_global(self._function, b) + callsub_block:\n                    if bi not in worklist:\n                        worklist.append(bi)\n",
        "                for bi in prev_blocks_global(self._function, b) + callsub_block:\n                    if bi not in worklist:\n                        worklist.insert(0, bi)\n",
    )


def mut_pass_other_keys(src):
    """(j11) run_analysis: the backward pass of the base keys runs on gtx_keys"""
    return replace_nth(src, "        self.backward_analysis(analysis_keys, worklist)\n", "        self.backward_analysis(gtx_keys, worklist)\n", 0)


def mut_pass_literal_keys(src):
    """(j12) run_analysis: the second forward pass runs on list(self.BASE_KEYS)"""
    return replace_nth(src, "        self.forward_analyis(analysis_keys, worklist)\n", "        self.forward_analyis(list(self.BASE_KEYS), worklist)\n", 1)


def mut_pass_swapped(src):
    """(j13) run_analysis: the second pass runs backward first, then forward"""
    return replace_once(
        src,
        PASS2,
        BWD_WL + "        self.backward_analysis(analysis_keys, worklist)\n\n" + FWD_WL + "        self.forward_analyis(analysis_keys, worklist)\n",
    )


def mut_one_pass(src):
    """(j14) run_analysis: the pass over the gtxn keys is dropped"""
    return replace_once(src, "        analysis_keys = gtx_keys\n\n" + PASS2, "        analysis_keys = gtx_keys\n")


def mut_three_passes(src):
    """(j15) run_analysis: the pass over the gtxn keys is made twice"""
    return replace_once(src, PASS2, PASS2 + "\n" + PASS2)


def mut_second_worklist(src):
    """(j16) run_analysis: the second forward worklist is not reversed"""
    return replace_nth(src, "            worklist += l[::-1]  # Reverse postorder\n", "            worklist += l  # Reverse postorder\n", 1)


def mut_duplicates(src):
    """(j17) forward: `if bi not in worklist` dropped"""
    return replace_once(
        src,
        "                for bi in next_blocks_global(self._function, b) + return_point_block:\n                    if bi not in worklist:\n                        worklist.append(bi)\n",
        "                for bi in next_blocks_global(self._function, b) + return_point_block:\n                    worklist.append(bi)\n",
    )


def mut_requeue_predecessors(src):
    """(j18) forward: the predecessors are re-queued"""
    return replace_once(
        src,
        "                for bi in next_blocks_global(self._function, b) + return_point_block:\n",
        "                for bi in prev_blocks_global(self._function, b) + return_point_block:\n",
    )


def mut_keys_reversed(src):
    """(j19) backward_analysis recomputes the keys in reverse order"""
    return replace_once(
        src,
        "            updated = self._merge_information_backward(analysis_keys, b, global_liveout)\n",
        "            updated = self._merge_information_backward(analysis_keys[::-1], b, global_liveout)\n",
    )


def mut_flag_and(src):
    """(j20) forward: the successors are re-queued only when ALL the keys changed"""
    s = replace_once(
        src,
        "        updated = False\n        for key in analysis_keys:\n            # RCHout(b) = intersection(RCHin(b), PRSV(b))\n",
        "        updated = True\n        for key in analysis_keys:\n            # RCHout(b) = intersection(RCHin(b), PRSV(b))\n",
    )
    return replace_once(s, FWD_STORE, "                global_reachout[key][block] = new_reachout\n            else:\n                updated = False\n")


# ---- twin audit (same-typed names written for each other, swapped argument order)
RUN_FWD_CALL = "        self.forward_analyis(analysis_keys, worklist)\n"
RUN_BWD_CALL = "        self.backward_analysis(analysis_keys, worklist)\n"


def mut_calls_exchanged(src):
    """(t1) run_analysis: forward_analyis and backward_analysis exchanged in BOTH passes (twin methods of the same signature;
    the two passes keep the same text)"""
    if src.count(RUN_FWD_CALL) != 2 or src.count(RUN_BWD_CALL) != 2:
        raise RuntimeError("mutation anchor not found: the two calls of forward_analyis / backward_analysis")
    return src.replace(RUN_FWD_CALL, "\0").replace(RUN_BWD_CALL, RUN_FWD_CALL).replace("\0", RUN_BWD_CALL)


def mut_call_args_swapped(src):
    """(a1) run_analysis: self.forward_analyis(worklist, analysis_keys) in both passes"""
    if src.count(RUN_FWD_CALL) != 2:
        raise RuntimeError("mutation anchor not found: the two calls of forward_analyis")
    return src.replace(RUN_FWD_CALL, "        self.forward_analyis(worklist, analysis_keys)\n")


MUTATIONS = [
    ("(j1) `updated = False` inside the key loop", mut_flag_in_loop),
    ("(j2) re-queue only when the LAST key changed", mut_flag_last_key),
    ("(j3) backward: `updated` overwritten per key", mut_flag_overwritten_bwd),
    ("(j4) worklist popped from the other end", mut_pop_last),
    ("(j5) re-queue when NO key changed", mut_requeue_when_unchanged),
    ("(j6) forward step always reports a change", mut_always_changed),
    ("(j7) backward step never reports a change", mut_never_changed_bwd),
    ("(j8) only the first key is recomputed", mut_first_key_only),
    ("(j9) key loop stops at the first change", mut_break_after_change),
    ("(j10) backward: re-queue at the front", mut_front_insert),
    ("(j11) pass 1: backward_analysis on gtx_keys", mut_pass_other_keys),
    ("(j12) pass 2: forward_analyis on list(BASE_KEYS)", mut_pass_literal_keys),
    ("(j13) pass 2: backward before forward", mut_pass_swapped),
    ("(j14) pass 2 dropped", mut_one_pass),
    ("(j15) pass 2 made twice", mut_three_passes),
    ("(j16) pass 2: forward worklist not reversed", mut_second_worklist),
    ("(j17) forward: duplicates on the worklist", mut_duplicates),
    ("(j18) forward re-queues the predecessors", mut_requeue_predecessors),
    ("(j19) backward: keys recomputed in reverse order", mut_keys_reversed),
    ("(j20) re-queue only when ALL keys changed", mut_flag_and),
    ("(t1) TWIN both passes: forward / backward calls exchanged", mut_calls_exchanged),
    ("(a1) ARGS both passes: forward_analyis(worklist, analysis_keys)", mut_call_args_swapped),
]
REQUIRED = 4  # (j1), (j2), (j4) are the mutations named by the task; (j3) their backward twin


# ----------------------------------------------------------------------------- one run
def enclosing(vfile, line):
    name = "?"
    with open(vfile, encoding="utf-8") as f:
        for i, l in enumerate(f, 1):
            m = re.match(r"\s*(Lemma|Theorem|Corollary|Definition)\s+(\w+)", l)
            if m and i <= line:
                name = m.group(2)
            if i > line:
                break
    return name


def probe_text():
    with open(os.path.join(COQ, "Lemmas", "JointGenLemmas.v"), encoding="utf-8") as fh:
        s = fh.read()
    out, pos = PROBE_HEAD, 0
    while "(* PROBE-BEGIN *)" in s[pos:]:
        a = s.index("(* PROBE-BEGIN *)", pos)
        b = s.index("(* PROBE-END *)", a)
        out += s[a:b] + "\n"
        pos = b
    return out


def link_built(sub, dst, skip):
    """symlink every compiled file of coq/<sub> into dst, except the ones (by stem) that are rebuilt here"""
    src = os.path.join(COQ, sub)
    for fn in os.listdir(src):
        stem = fn.split(".")[0]
        if stem in skip or not fn.endswith((".vo", ".glob", ".vos", ".vok")):
            continue
        os.symlink(os.path.join(src, fn), os.path.join(dst, fn))


def run_case(work, scratch, mutate=None):
    gen = os.path.join(work, "Gen")
    lem = os.path.join(work, "Lemmas")
    os.makedirs(gen)
    os.makedirs(lem)
    path = os.path.join(scratch, GEN)
    orig = None
    if mutate:
        with open(path, encoding="utf-8") as fh:
            orig = fh.read()
        new = mutate(orig)
        if new == orig:
            raise RuntimeError("mutation did not change the source")
        ast.parse(new)  # the mutant is valid Python
        with open(path, "w", encoding="utf-8") as fh:
            fh.write(new)
    res = {"stopped": [], "crashed": [], "log": "", "texts": {}, "gen_ok": None, "chain": None, "where": None, "joint_ok": None, "probe_ok": None}
    try:
        for name, script, out in TRANSLATORS:
            rc, o = sh(f"{PY} {HERE}/{script} {gen}", env={"VERIF_REPO": scratch})
            res["log"] += f"[{name}] " + o.strip().replace(scratch + "/", "") + "\n"
            if rc == 2 and "translator:" in o:
                res["stopped"].append(name)
            elif rc != 0:
                res["crashed"].append(name)
            else:
                with open(os.path.join(gen, out), encoding="utf-8") as fh:
                    res["texts"][out] = fh.read()
    finally:
        if orig is not None:
            with open(path, "w", encoding="utf-8") as fh:
                fh.write(orig)
    if res["stopped"] or res["crashed"]:
        return res
    link_built("Gen", gen, {t[2][:-2] for t in TRANSLATORS})
    link_built("Lemmas", lem, {c[:-2] for c in CHAIN})
    q = f"-Q {COQ}/Model Tealer -Q {gen} Tealer -Q {COQ}/Spec Tealer -Q {lem} Tealer"
    res["gen_ok"] = True
    for _, _, out in TRANSLATORS:
        rc, o = sh(f"timeout 300 coqc {q} {gen}/{out} 2>&1")
        if rc != 0:
            res["gen_ok"] = False
            res["where"] = out + " ill-typed"
            res["log"] += o[-1500:]
            return res
    probe = os.path.join(work, "JointProbe.v")
    with open(probe, "w", encoding="utf-8") as fh:
        fh.write(probe_text())
    rc, o = sh(f"timeout 300 coqc {q} {probe} 2>&1")
    res["probe_ok"] = rc == 0
    res["chain"] = True
    for c in CHAIN:
        v = os.path.join(lem, c)
        shutil.copy(os.path.join(COQ, "Lemmas", c), v)
        rc, o = sh(f"timeout 900 coqc {q} {v} 2>&1")
        if rc != 0:
            res["chain"] = False
            m = re.search(r"line (\d+), characters", o)
            res["where"] = c[:-2] + ": " + (f"{enclosing(v, int(m.group(1)))} (line {m.group(1)})" if m else ("timeout" if rc == 124 else "?"))
            res["log"] += o[-1500:]
            break
    res["joint_ok"] = bool(res["chain"])
    return res


def main():
    verbose = "-v" in sys.argv
    for f in ("Model/Analysis.vo", "Gen/GraphGen.vo", "Gen/ConstraintsGen.vo", "Lemmas/SolverLemmas.vo", "Lemmas/GraphGenLemmas.vo", "Lemmas/ConstraintsGenLemmas.vo"):
        if not os.path.exists(os.path.join(COQ, f)):
            print(f"precondition: {COQ}/{f} missing -- build coq/ first (make)")
            sys.exit(3)
    top = tempfile.mkdtemp(prefix="tjoint_")
    scratch = os.path.join(top, "repo")
    shutil.copytree(os.path.join(REPO, "tealer"), os.path.join(scratch, "tealer"), ignore=shutil.ignore_patterns("__pycache__"))
    rows = []
    ok = True
    try:
        base = run_case(os.path.join(top, "base"), scratch)
        same = not base["stopped"] and not base["crashed"]
        for _, _, out in TRANSLATORS:
            cur = os.path.join(COQ, "Gen", out)
            if not (same and os.path.exists(cur) and open(cur, encoding="utf-8").read() == base["texts"].get(out)):
                same = False
        good = same and base["gen_ok"] and base["chain"] and base["probe_ok"]
        ok &= bool(good)
        rows.append(("(a) clean source", "ok" if not base["stopped"] else "STOPPED", "= coq/Gen" if same else "DIFFERS from coq/Gen", base["gen_ok"], "compiles" if base["chain"] else base["where"], base["probe_ok"], "PASS" if good else "FAIL"))
        if verbose or not good:
            print(base["log"])
        for i, (name, fn) in enumerate(MUTATIONS):
            r = run_case(os.path.join(top, f"m{i}"), scratch, fn)
            if r["crashed"]:
                tr, diff, verdict, good = "CRASHED: " + ",".join(r["crashed"]), "-", "FAIL: translator crashed", False
            elif r["stopped"]:
                tr, diff, verdict, good = "STOPPED: " + ",".join(r["stopped"]), "-", "caught: translator stops", True
            else:
                tr = "ok"
                changed = [out for _, _, out in TRANSLATORS if r["texts"][out] != base["texts"][out]]
                diff = ",".join(c[:-2] for c in changed) if changed else "IDENTICAL"
                if changed and r["gen_ok"] is False:
                    verdict, good = "caught: " + r["where"], True
                elif changed and r["chain"] is False:
                    verdict, good = "caught: lemmas break", True
                else:
                    verdict, good = "FAIL: NOT DETECTED", False
            ok &= good
            rows.append((name, tr, diff, r["gen_ok"], r["where"] if r["chain"] is False else ("compiles" if r["chain"] else None), r["probe_ok"], verdict))
            if verbose or not good:
                print(f"--- {name}\n{r['log']}\n")
            elif r["stopped"]:
                first = [l for l in r["log"].splitlines() if "translator:" in l]
                print(f"--- {name}: {first[0][:300] if first else ''}")
    finally:
        shutil.rmtree(top, ignore_errors=True)
    hdr = ("case", "translators (solver, run, joint)", "changed Gen files", "Gen compiles", "lemma chain (first break)", "joint probe holds", "verdict")
    fmt = lambda x: "-" if x is None else ("yes" if x is True else ("NO" if x is False else str(x)))  # noqa: E731
    table = [hdr] + [tuple(fmt(c) for c in r) for r in rows]
    widths = [max(len(r[i]) for r in table) for i in range(len(hdr))]
    print()
    for k, r in enumerate(table):
        print(" | ".join(c.ljust(w) for c, w in zip(r, widths)))
        if k == 0:
            print("-+-".join("-" * w for w in widths))
    print(
        "\nNotes.  `lemma chain`: SolverGenLemmas.v, RunGenLemmas.v, JointGenLemmas.v compiled in this order against the mutant Gen files;\n"
        "JointGenLemmas.v imports the other two (it generalises their one-key statements to key lists and re-uses their unfolding lemmas),\n"
        "so it cannot be compiled once one of them is broken: for the mutants of the loops the first break is in SolverGenLemmas.v.\n"
        "`joint probe`: the PROBE sections of JointGenLemmas.v (joint_forward_probe, joint_pass_probe) compiled ALONE against the mutant\n"
        "Gen files: NO means that the concrete two-key instances (dictionaries and iteration counts of a joint forward pass in both key\n"
        "orders and of one whole joint pass) distinguish the mutant by computation, whatever happens to the proof scripts."
    )
    print("\nRESULT:", "all mutations caught, clean source accepted" if ok else "FAILURE")
    sys.exit(0 if ok else 1)


if __name__ == "__main__":
    main()
