#!/venv/bin/python
"""Statement-by-statement translation of tealer's REPORT producers into Gallina (Gen/ReportGen.v): the VALUES that are
reported (JSON values, the events of a run of handle_output), not the text layout.

Translated (read with `ast` only, never imported):
  utils/output.py  ExecutionPaths.to_json                                         -> to_json_gen
  __main__.py      handle_output                                                  -> handle_output_gen
  __main__.py      main, the statement `if args.filter_paths is not None: ..`
                   that follows `results_detectors = tealer.run_detectors()`      -> main_filter_gen
  __main__.py      main, its last statement `if error or args.subcommand ==
                   "detect": handle_output(..)`                                   -> main_report_gen
  printers/transaction_context.py  PrinterTransactionContext._repr_num_list       -> repr_num_list_gen
                   print: the dict `contexts` and the closure get_info            -> get_info_gen
  printers/human_summary.py        PrinterHumanSummary.print                      -> summary_gen
The hand-written counterparts are Model/Output.v (json_count, json_paths, filter_paths) and the definitions at the head of
Lemmas/ReportGenLemmas.v, which proves generated = hand-written.

Reading of Python in Gallina (exception monad `py A := option A` of Gen/KeysGen.v; conventions of translate_output.py):
  * JSON.  A value that is handed to json.dumps is a `json` (JNull | JBool | JNum | JStr | JList | JObj, an object is the
    association list of its items in insertion order).  A DICT LITERAL is accepted only when the tuple of its (constant)
    keys is an entry of DICT_TEMPLATES; its values are translated and converted (str -> JStr, int -> JNum, bool -> JBool,
    Optional -> JNull / value, list -> JList, dict -> JObj).  `d[k] = v` on a dict is dict_set (an existing key keeps its
    position).  `json.dumps(x, indent=2)` IS the value x (type jtext): print(..) of it is the event RepJsonStdout x,
    `f.write(..)` of it inside `with open(file, "w", encoding="utf-8") as f` the event RepJsonFile file x.
  * Real strings (type text): f-strings of TEXT_TEMPLATES only, the constants of TEXT_CONSTANTS, `sep.join(map(str, l))`
    (type nums(sep), the list of the numbers; join sep (map py_str_int l) where a text is needed), `sep.join(x.NAME for ..)`
    (type texts(sep): the list of the strings; only a hole of a PRINTS message takes it).
  * The detector object of an Output is its NAME (as in Gen/DetectorsGen.v); the reads of its other class attributes go
    through the FIXED table DET_READS (exact expression text -> field of the record detmeta, a parameter):
        detector_terminal_description(self.detector), str(self.detector.IMPACT), str(self.detector.CONFIDENCE),
        self.detector.WIKI_RECOMMENDATION.strip()
  * Object graph as in Gen/OutputGen.v: BasicBlock = its idx, dereferenced in the contract t the ExecutionPaths object was
    built with (the blocks of a reported path are the Function's copies of blocks of t: same idx, same instructions
    line by line -- parse_functions.copy_main_cfg); Instruction = its position in t_prog t; str(ins) = Syntax.str_of_instr
    (regenerated: Gen/Tables.v).  The Python text of every property behind the glue table is fingerprinted.
  * Output objects: `output` = OExecutionPaths teal detector paths | OOther o (the other two subclasses of Output,
    InstructionsOutput and GroupTransactionOutput -- the set of subclasses is checked --, are opaque: their detector /
    to_json / generate_output are parameters, their filter_paths is `pass`: fingerprinted).  Method calls on an Output
    dispatch on the constructor (call_to_json, call_generate_output, call_filter_paths of the prelude; the ExecutionPaths
    cases are the functions generated from the same source: to_json_gen here, generate_output_gen / filter_paths_gen of
    Gen/OutputGen.v).
  * `args` (argparse.Namespace): `args.f` for f in ARGS_FIELDS is the parameter args_f; any other use of args is rejected
    (except as the first argument of handle_output, where the callee's fields are passed).
  * EVENTS.  A function of result kind "report" returns (out, exit): `out` is the list of what it printed / wrote, in
    order (hidden variable, [] at the start), exit = Some n after sys.exit(n), None when the function returns.
    print(<f-string>) must be an entry of PRINTS (message with holes -> event); `output.generate_output(d)` (accepted as
    the test `not output.generate_output(d)` of an if only) appends RepGenerated <returned bool> <files written>.
  * UPDATE LOOPS.  `for x in L: x.filter_paths(a)` (and the nested form `for y in L: for x in y: ..`) mutates the objects
    of the list in place: it is `L := mapM (fun x => call_filter_paths x a) L` (the Output objects of a result list are
    pairwise distinct objects: each is created by one detect() call).  `isinstance(y, ExecutionPaths)` for y a LIST of
    outputs is False (ExecutionPaths derives from Output only: checked), the branch it guards is dead.
  * control flow: `for` = fold over the list (state = the variables re-assigned in the body that are bound before the
    loop), early `return` / sys.exit through the continuation, join points for an `if` that falls through more than once,
    `if x is None` / `is not None` on an Optional variable is a match (narrowing).

Fail-closed: every statement kind, expression kind, attribute, call, template and variable type that is not whitelisted
below raises TranslateError.
"""
import ast
import copy
import os
import re
import sys

from tcommon import TranslateError, fail, parse, strip_doc, T, coq_str
from translate_keys import indent, same_text
from translate_asserted import find_toplevel, find_class, bound_names
from translate_graph import member, member_text, check_single_binding
from translate_output import seq, as_monadic, is_name, is_none, is_str, is_self_attr, template_of, tuple_term, projections, check_signature, find_method, contains

OUT_REL = "utils/output.py"
MAIN_REL = "__main__.py"
TC_REL = "printers/transaction_context.py"
HS_REL = "printers/human_summary.py"
BB_REL = "teal/basic_blocks.py"
TEAL_REL = "teal/teal.py"
INS_REL = "teal/instructions/instructions.py"
TEALER_REL = "tealer.py"
DET_REL = "detectors/abstract_detector.py"
FUN_REL = "teal/functions.py"
CTX_REL = "teal/context/block_transaction_context.py"
AP_REL = "printers/abstract_printer.py"

# ----------------------------------------------------------------------------- types of the little typed language
INT, ZINT, BOOL, BLK, INSOBJ, TEXT, JSON, JDICT, JTEXT, PATH, OUTPUT, DETOBJ, TEAL, NONE, ANYLIST, EVENT, CTX, MODE, SUB, SITEM = (
    "int", "zint", "bool", "block", "insobj", "text", "json", "jdict", "jtext", "path", "output", "detobj", "teal", "none", "list ?", "event",
    "ctx", "mode", "sub", "sitem",
)  # fmt: skip


def tlist(x):
    return ("list", x)


def topt(x):
    return ("opt", x)


def tnums(sep):
    return ("nums", sep)


def ttexts(sep):
    return ("texts", sep)


def tprod(a, b):
    return ("prod", a, b)


def tdict(k, v):
    return ("dict", k, v)


ATOM_COQ = {
    INT: "nat", ZINT: "Z", BOOL: "bool", BLK: "nat", INSOBJ: "nat", TEXT: "string", JSON: "json", JDICT: "list (string * json)", JTEXT: "json",
    PATH: "list string", OUTPUT: "output", DETOBJ: "string", TEAL: "Cfg.teal", EVENT: "report_event", CTX: "bctx", MODE: "xmode",
    SUB: "Cfg.subroutine", SITEM: "summary_item",
}  # fmt: skip


def coqty(ty, top=False):
    if isinstance(ty, str):
        if ty not in ATOM_COQ:
            raise TranslateError(f"translator: a value of type {ty} has no Gallina representation")
        s = ATOM_COQ[ty]
        return s if top or " " not in s else f"({s})"
    k = ty[0]
    if k == "list":
        s = f"list {coqty(ty[1])}"
    elif k == "opt":
        s = f"option {coqty(ty[1])}"
    elif k == "nums":
        s = "list nat"
    elif k == "texts":
        s = "list string"
    elif k == "prod":
        s = f"{coqty(ty[1])} * {coqty(ty[2])}"
    elif k == "dict":
        s = f"list ({coqty(ty[1])} * {coqty(ty[2])})"
    else:
        raise TranslateError(f"translator: type {ty}")
    return s if top else f"({s})"


def is_list(ty):
    return isinstance(ty, tuple) and ty[0] == "list"


def is_opt(ty):
    return isinstance(ty, tuple) and ty[0] == "opt"


def unify(a, b):
    if a == b:
        return a
    if a == ANYLIST and is_list(b):
        return b
    if b == ANYLIST and is_list(a):
        return a
    if a == NONE and is_opt(b):
        return b
    if b == NONE and is_opt(a):
        return a
    if a == NONE and isinstance(b, str):
        return topt(b)
    if b == NONE and isinstance(a, str):
        return topt(a)
    if is_opt(a) and a[1] == b:
        return a
    if is_opt(b) and b[1] == a:
        return b
    return None


def to_json_fn(ty):
    """the Gallina function that converts a Python value of type ty into the json value json.dumps sees (None: no reading)"""
    if ty == JSON or ty == JTEXT:
        return "(fun j : json => j)"
    if ty == TEXT or ty == DETOBJ:
        return "JStr"
    if ty == INT:
        return "JNum"
    if ty == BOOL:
        return "JBool"
    if ty == JDICT:
        return "JObj"
    if isinstance(ty, tuple) and ty[0] == "nums":
        return f"(fun l => JStr (nums_text {coq_str(ty[1])} l))"
    if is_list(ty) and ty != ANYLIST:
        f = to_json_fn(ty[1])
        return None if f is None else f"(fun l => JList (map {f} l))"
    if is_opt(ty):
        f = to_json_fn(ty[1])
        return None if f is None else f"(jopt {f})"
    return None


def coerce(t, ty, want):
    """pure term t : ty used where `want` is expected"""
    if ty == want or want is None:
        return t
    if ty == ANYLIST and is_list(want):
        return t
    if ty == NONE and is_opt(want):
        return "None"
    if is_opt(want) and want[1] == ty:
        return f"(Some {t})"
    if isinstance(ty, tuple) and ty[0] == "nums" and want == TEXT:
        return f"(nums_text {coq_str(ty[1])} {t})"
    if want == JSON:
        if ty == NONE:
            return "JNull"
        f = to_json_fn(ty)
        if f is not None:
            return f"({f} {t})"
    return None


# ----------------------------------------------------------------------------- the fixed tables
# dict literals: tuple of the constant keys (the template) -> accepted
DICT_TEMPLATES = {
    ("type", "count", "description", "check", "impact", "confidence", "help"),
    ("short", "blocks"),
    ("success", "error", "result"),
}
DICT_SET_KEYS = {"paths"}  # d["k"] = v
# f-strings that are real strings: template -> hole types
TEXT_TEMPLATES = {
    "{0}: {1}": [INT, INSOBJ],        # ExecutionPaths.to_json: "<line>: <instruction>"
    "{0}..{1}": [ZINT, ZINT],         # _repr_num_list
    "GroupIndex: {0}": [TEXT],        # get_info
    "GroupSize: {0}": [TEXT],
}
TEXT_CONSTANTS = {"ExecutionPaths", "-", "detect"}
NUMS_SEPARATORS = {" -> "}
TEXTS_SEPARATORS = {", "}
# print(<f-string>) in a function of kind "report": message template -> (event constructor, hole types)
PRINTS = {
    "Error: {0}": ("RepError", [TEXT]),
    "\n 0 results found for {0}.": ("RepZeroResults", [ttexts(", ")]),
    "json output is written to {0}": ("RepJsonNotice", [PATH]),
}
# txt += <f-string> in PrinterHumanSummary.print: template -> (hole types, builder of the item list)
SUMMARY_TEMPLATES = {
    "Program version: {0}\n": ([INT], lambda a: f"[SumVersion {a[0]}]"),
    "Mode: {0}\n": ([MODE], lambda a: f"[SumMode {a[0]}]"),
    "Number of basic blocks: {0}\n": ([INT], lambda a: f"[SumBlocks {a[0]}]"),
    "Number of instructions: {0}\n": ([INT], lambda a: f"[SumInstructions {a[0]}]"),
    "Number of subroutines: {0}\n": ([INT], lambda a: f"[SumSubroutines {a[0]}]"),
    "\t{0}\n": ([TEXT], lambda a: f"[SumSubName {a[0]}]"),
    '\t\t"{0}"\n': ([tnums(", ")], lambda a: f"[SumSubBlocks {a[0]}]"),
}
SUMMARY_CONSTANTS = {"\n", "Subroutines:\n"}
# reads of the detector object: exact expression text -> (field of detmeta, type); the receiver is self.detector
DET_READS = {
    "detector_terminal_description(self.detector)": "det_description",
    "str(self.detector.IMPACT)": "det_impact",
    "str(self.detector.CONFIDENCE)": "det_confidence",
    "self.detector.WIKI_RECOMMENDATION.strip()": "det_help",
}
# fields of args (argparse.Namespace): name -> type
ARGS_FIELDS = {"json": topt(TEXT), "filter_paths": topt(TEXT), "subcommand": TEXT}
# exact expression text -> (glue term, type, pure)
EXPR_GLUE = {
    "tealer.contracts[contract_name]": ("tealer_contract", TEAL, False),
}
# (attribute, type of the object) -> (glue, result type, pure)
ATTRS = {
    ("idx", BLK): ("attr_block_idx", INT, True),
    ("instructions", BLK): ("attr_instructions", tlist(INSOBJ), False),
    ("line", INSOBJ): ("attr_line", INT, False),
    ("NAME", DETOBJ): ("attr_NAME", TEXT, True),
    ("detector", OUTPUT): ("out_detector", DETOBJ, True),
    ("contract_name", TEAL): ("attr_contract_name", TEXT, True),
    ("group_indices", CTX): ("attr_group_indices", tlist(ZINT), True),
    ("group_sizes", CTX): ("attr_group_sizes", tlist(ZINT), True),
    ("version", TEAL): ("attr_version", INT, True),
    ("mode", TEAL): ("attr_mode", MODE, True),
    ("bbs", TEAL): ("attr_bbs", tlist(BLK), True),
    ("instructions", TEAL): ("attr_teal_instructions", tlist(INSOBJ), True),
    ("blocks", SUB): ("attr_sub_blocks", tlist(BLK), True),
    ("subroutines", TEAL): ("attr_subroutine_names", tlist(TEXT), True),  # iteration over the dict: its keys
}
# attributes of self: class -> name -> (term, type)
SELF_ATTRS = {
    "ExecutionPaths": {"paths": ("self_paths", tlist(tlist(BLK))), "detector": ("self_detector", DETOBJ)},
    "PrinterTransactionContext": {},
    "PrinterHumanSummary": {"teal": ("t", TEAL)},
}
# types of the un-annotated empty lists `x = []`: function -> variable -> type
LOCAL_LISTS = {
    "to_json": {"paths": tlist(JDICT), "blocks": tlist(tlist(TEXT)), "block_v": tlist(TEXT)},
    "_repr_num_list": {"str_seqs": tlist(TEXT)},
}
ANNOTATIONS = {
    "'ListOutput'": tlist(OUTPUT),
    "List['AbstractDetector']": tlist(DETOBJ),
    "List[List[int]]": tlist(tlist(ZINT)),
}

# Python text (docstrings stripped, layout normalised) of everything the glue table stands for
FINGERPRINTS = [
    (BB_REL, "BasicBlock", "idx", "@property\ndef idx(self) -> int:\n    return self._idx"),
    (BB_REL, "BasicBlock", "instructions", "@property\ndef instructions(self) -> List[Instruction]:\n    return self._instructions"),
    (BB_REL, "BasicBlock", "__repr__", "def __repr__(self) -> str:\n    return f'B{self.idx}'"),
    (INS_REL, "Instruction", "line", "@property\ndef line(self) -> int:\n    return self._line_num"),
    (TEAL_REL, "Teal", "contract_name", "@property\ndef contract_name(self) -> str:\n    return self._contract_name"),
    (TEAL_REL, "Teal", "version", "@property\ndef version(self) -> int:\n    return self._version"),
    (TEAL_REL, "Teal", "mode", "@property\ndef mode(self) -> ExecutionMode:\n    return self._mode"),
    (TEAL_REL, "Teal", "bbs", "@property\ndef bbs(self) -> List[BasicBlock]:\n    return self._bbs"),
    (TEAL_REL, "Teal", "instructions", "@property\ndef instructions(self) -> List[Instruction]:\n    return self._instructions"),
    (TEAL_REL, "Teal", "subroutines", "@property\ndef subroutines(self) -> Dict[str, 'Subroutine']:\n    return self._subroutines"),
    (OUT_REL, "ExecutionPaths", "detector", "@property\ndef detector(self) -> 'AbstractDetector':\n    return self._detector"),
    (OUT_REL, "InstructionsOutput", "detector", "@property\ndef detector(self) -> 'AbstractDetector':\n    return self._detector"),
    (OUT_REL, "GroupTransactionOutput", "detector", "@property\ndef detector(self) -> 'AbstractDetector':\n    return self._detector"),
    (OUT_REL, "InstructionsOutput", "filter_paths", "def filter_paths(self, filter_regex: str) -> None:\n    pass"),
    (OUT_REL, "GroupTransactionOutput", "filter_paths", "def filter_paths(self, filter_regex: str) -> None:\n    pass"),
    (
        OUT_REL, "ExecutionPaths", "__init__",
        "def __init__(self, teal: 'Teal', detector: 'AbstractDetector', paths: List[List['BasicBlock']]):\n"
        "    self._teal = teal\n    self._detector = detector\n    self.paths: List[List['BasicBlock']] = paths",
    ),
    (
        TEALER_REL, "Tealer", "run_detectors",
        "def run_detectors(self) -> List['ListOutput']:\n    results = []\n    logger = logging.getLogger('Tealer')\n"
        "    for d in self._detectors:\n        logger.debug(f'[+] Running detector \"{d.NAME}\"')\n        results.append(d.detect())\n    return results",
    ),
]  # fmt: skip
TOPLEVEL_FINGERPRINTS = [
    (
        OUT_REL, "detector_terminal_description",
        "def detector_terminal_description(detector: 'AbstractDetector') -> str:\n"
        "    return f'\\nCheck: \"{detector.NAME}\", Impact: {detector.IMPACT}, Confidence: {detector.CONFIDENCE}\\nDescription: {detector.DESCRIPTION}\\n\\nWiki: {detector.WIKI_URL}\\n'",
    ),
]
OUTPUT_SUBCLASSES = {"InstructionsOutput", "ExecutionPaths", "GroupTransactionOutput"}
CLASH = {"block", "output", "seq", "function", "teal"}

RESERVED = {
    "t", "acc", "st", "x", "l", "k", "ret", "bind", "py", "ifE", "notE", "andE", "orE", "subscript", "fold_left", "fst", "snd", "negb", "andb", "orb",
    "true", "false", "nil", "cons", "app", "length", "Some", "None", "O", "S", "nat", "bool", "string", "list", "option", "map", "filter", "concat",
    "combine", "seq", "json", "JNull", "JBool", "JNum", "JStr", "JList", "JObj", "jopt", "dict_set", "detmeta", "meta", "output", "OExecutionPaths",
    "OOther", "Other", "report_event", "RepError", "RepGenerated", "RepZeroResults", "RepJsonStdout", "RepJsonNotice", "RepJsonFile", "out", "exit",
    "in", "at", "as", "fun", "let", "match", "end", "if", "then", "else", "return", "with", "forall", "exists", "fix", "cofix", "for", "where", "using",
    "Type", "Prop", "Set", "SProp", "struct", "self", "self_paths", "self_detector", "tt", "unit", "re_search", "contract_name_of", "root_output_directory",
    "comp", "nat_mem", "py_str_int", "nums_text", "list_is_empty", "opt_is_some", "opt_text_truthy", "String", "EmptyString", "append", "ins_str",
    "call_to_json", "call_generate_output", "call_filter_paths", "other_detector", "other_to_json", "other_generate_output", "tealer_contract",
    "to_json_gen", "handle_output_gen", "main_filter_gen", "main_report_gen", "Z", "teal", "block", "instr", "dotout", "join",
    "repr_num_list_gen", "get_info_gen", "summary_gen", "summary_item", "lst_last", "append_last", "z_sorted", "py_str_z", "texts_join", "bctx",
    "function_blocks", "function_context", "dict_get", "dict_mem",
}  # fmt: skip
RESERVED |= {g for g, _, _ in ATTRS.values()} | {c for c, _ in PRINTS.values()} | set(DET_READS.values())

PRELUDE_A = r"""
(* ====================================================================== *)
(* PRELUDE (fixed text).  The exception monad is the one of Gen/KeysGen.v;  *)
(* py_str_int, nums_text, comp, dict_set, list_is_empty, dotout are those   *)
(* of Gen/OutputGen.v.                                                      *)
(* ====================================================================== *)
(* ---- the values handed to json.dumps.  An object is the association list of its items in insertion order. *)
Inductive json :=
| JNull | JBool (b : bool) | JNum (n : nat) | JStr (s : string) | JList (l : list json) | JObj (l : list (string * json)).
(* an Optional value: None is null *)
Definition jopt {A : Type} (f : A -> json) (o : option A) : json := match o with Some x => f x | None => JNull end.
(* truth value of an Optional[str]: None and "" are false *)
Definition opt_text_truthy (o : option string) : bool :=
  match o with Some s => negb (String.eqb s "") | None => false end.

(* ---- the detector object of an Output is its NAME (Gen/DetectorsGen.v).  The other class attributes a report reads
   (table DET_READS of tools/translate_report.py: the exact expression text is the fingerprint):
     detector_terminal_description(self.detector)   det_description   (NAME, IMPACT, CONFIDENCE, DESCRIPTION, WIKI_URL)
     str(self.detector.IMPACT)                      det_impact
     str(self.detector.CONFIDENCE)                  det_confidence
     self.detector.WIKI_RECOMMENDATION.strip()      det_help *)
Record detmeta := mkMeta {
  det_description : string -> string;
  det_impact : string -> string;
  det_confidence : string -> string;
  det_help : string -> string }.
Definition attr_NAME (d : string) : string := d.

Section PathsJson.
  (* the contract the ExecutionPaths object was built with (self._teal) *)
  Variable t : Cfg.teal.
  Variable meta : detmeta.
  (* ---- GLUE TABLE: BasicBlock = its idx, dereferenced with Cfg.tblock t (the blocks of a reported path are the
     Function's copies of blocks of t: same idx, same instructions -- copy_main_cfg); Instruction = its position in
     t_prog t; str(ins) = Syntax.str_of_instr (regenerated: Gen/Tables.v) *)
  Definition attr_block_idx (bb : nat) : nat := bb.
  Definition attr_instructions (bb : nat) : py (list nat) := option_map b_ins (tblock t bb).
  Definition attr_line (i : nat) : py nat := option_map i_line (nth_error (t_prog t) i).
  Definition ins_str (i : nat) : py string := option_map (fun x => str_of_instr (i_op x)) (nth_error (t_prog t) i).
"""

PRELUDE_B = r"""
(* ====================================================================== *)
(* PRELUDE, second part (fixed text): Output objects and what a run of      *)
(* handle_output does                                                       *)
(* ====================================================================== *)
(* an Output object: ExecutionPaths(teal, detector, paths) or an object of one of the other two subclasses of Output
   (InstructionsOutput, GroupTransactionOutput: opaque) *)
Inductive output (Other : Type) : Type :=
| OExecutionPaths (teal : Cfg.teal) (detector : string) (paths : list (list nat))
| OOther (o : Other).
Arguments OExecutionPaths {Other} teal detector paths.
Arguments OOther {Other} o.

(* what handle_output prints / writes, one event per statement (tables PRINTS of tools/translate_report.py) *)
Inductive report_event :=
| RepError (msg : string)                               (* print(f"Error: {error}") *)
| RepGenerated (wrote : bool) (files : list dotout)     (* output.generate_output(dir): its result, the files it wrote *)
| RepZeroResults (names : list string)                  (* print(f"\n 0 results found for {', '.join(..)}.") *)
| RepJsonStdout (j : json)                              (* print(json.dumps(j, indent=2)) *)
| RepJsonNotice (file : list string)                    (* print(f"json output is written to {filename}") *)
| RepJsonFile (file : list string) (j : json).          (* with open(filename, "w") as f: f.write(json.dumps(j, indent=2)) *)

Section Report.
  Variable Other : Type.
  (* the opaque Output classes: .detector (its NAME), .to_json(), .generate_output(dest) (they write no file: checked);
     their filter_paths is `pass` (fingerprinted) *)
  Variable other_detector : Other -> string.
  Variable other_to_json : Other -> py json.
  Variable other_generate_output : Other -> list string -> py bool.
  Variable meta : detmeta.
  (* re.search(pattern, text) is not None; None: re.error *)
  Variable re_search : string -> string -> py bool.
  (* teal.contract_name (not part of the model's teal), ROOT_OUTPUT_DIRECTORY (os.getenv) *)
  Variable contract_name_of : Cfg.teal -> string.
  Variable root_output_directory : list string.
  Notation output := (output Other).

  Definition attr_contract_name (teal : Cfg.teal) : string := contract_name_of teal.
  (* ---- dynamic dispatch of the methods of Output on the class of the object *)
  Definition out_detector (o : output) : string :=
    match o with OExecutionPaths _ d _ => d | OOther x => other_detector x end.
  Definition call_to_json (o : output) : py json :=
    match o with OExecutionPaths teal d ps => to_json_gen teal meta ps d | OOther x => other_to_json x end.
  Definition call_generate_output (o : output) (dest : list string) : py (bool * list dotout) :=
    match o with
    | OExecutionPaths teal d ps => generate_output_gen teal d ps dest
    | OOther x => bind (other_generate_output x dest) (fun b => ret (b, []))
    end.
  Definition call_filter_paths (o : output) (filter_regex : string) : py output :=
    match o with
    | OExecutionPaths teal d ps => bind (filter_paths_gen re_search ps filter_regex) (fun ps' => ret (OExecutionPaths teal d ps'))
    | OOther x => ret (OOther x)
    end.
"""


# ----------------------------------------------------------------------------- environment
class Env:
    def __init__(self, path, vars_, imports, result, cls=None, fn=None, fname=None):
        self.path = path
        self.vars = dict(vars_)
        self.imports = imports
        self.result = result  # a type | "report" | ("update", var)
        self.cls = cls
        self.fn = fn
        self.fname = fname
        self.counter = [0, 0]
        self.depth = 0
        self.cont_loop = None

    def child(self, **new):
        e = Env(self.path, self.vars, self.imports, self.result, self.cls, self.fn, self.fname)
        e.counter = self.counter
        e.depth = self.depth
        e.cont_loop = self.cont_loop
        e.vars.update(new)
        return e

    def fresh(self):
        self.counter[0] += 1
        return f"tmp{self.counter[0]}"

    def fresh_join(self):
        self.counter[1] += 1
        return f"k{self.counter[1]}"


def check_name(env, name, node):
    if name in RESERVED or re.fullmatch(r"(tmp|k|acc|st|elt|wrote)\d+", name) or name.startswith("args_"):
        fail(env.path, node, f"variable name {name} is reserved by the translator")
    if not name.isidentifier() or not name.isascii():
        fail(env.path, node, f"variable name {name}")


def unbound(env, name):
    return name not in env.vars and name not in env.imports


def typed(env, node, e, want):
    t, ty, pure = expr(env, e, want)
    if ty == want:
        return t, pure
    if pure:
        c = coerce(t, ty, want)
        if c is not None:
            return c, True
    else:
        v = env.fresh()
        c = coerce(v, ty, want)
        if c is not None:
            return f"(bind {t} (fun {v} => (ret {c})))", False
    fail(env.path, node, f"a value of type {ty} where {want} is expected: {ast.unparse(e)[:60]}")


def text_of(e):
    return ast.unparse(e)


# ----------------------------------------------------------------------------- expressions
def expr(env, e, want=None):
    """-> (term, type, pure)"""
    p = env.path
    txt = text_of(e)
    if txt in DET_READS and env.cls == "ExecutionPaths":
        return f"({DET_READS[txt]} meta self_detector)", TEXT, True
    if txt in EXPR_GLUE and all(unbound(env, n.id) or env.vars.get(n.id) == "glue" for n in ast.walk(e) if isinstance(n, ast.Name)):
        g, ty, pure = EXPR_GLUE[txt]
        if g not in env.vars:
            fail(p, e, f"{txt} outside a function that takes {g}")
        return g, ty, pure
    if isinstance(e, ast.Constant):
        v = e.value
        if v is True:
            return "true", BOOL, True
        if v is False:
            return "false", BOOL, True
        if v is None:
            return "None", NONE, True
        if isinstance(v, int) and not isinstance(v, bool) and v >= 0:
            if want == ZINT:
                return f"{v}%Z", ZINT, True
            return str(v), INT, True
        if isinstance(v, str):
            if v in TEXT_CONSTANTS or (v == "" and want == TEXT):
                return coq_str(v), TEXT, True
            fail(p, e, f"string constant {v!r} is not in the table TEXT_CONSTANTS")
        fail(p, e, "constant " + txt)
    if isinstance(e, ast.Name):
        if e.id in env.vars:
            ty = env.vars[e.id]
            if ty == "glue" or (isinstance(ty, tuple) and ty[0] == "fun"):
                fail(p, e, f"{e.id} used as a value")
            if ty == NONE:
                return "None", NONE, True
            return e.id, ty, True
        if e.id == "ROOT_OUTPUT_DIRECTORY" and env.imports.get(e.id) in ("tealer.utils.output.ROOT_OUTPUT_DIRECTORY",):
            return "root_output_directory", PATH, True
        fail(p, e, f"unknown name {e.id}")
    if isinstance(e, ast.JoinedStr):
        return fstring(env, e)
    if isinstance(e, ast.Dict):
        return dict_literal(env, e)
    if isinstance(e, ast.Attribute):
        if is_self_attr(e):
            tab = SELF_ATTRS.get(env.cls, {})
            if e.attr in tab:
                t, ty = tab[e.attr]
                return t, ty, True
            fail(p, e, "attribute of self " + txt)
        if is_name(e.value, "function_v") and env.vars.get("function_v") == "glue" and e.attr == "blocks":
            return "function_blocks", tlist(BLK), True
        t, ty, pure = expr(env, e.value)
        if (e.attr, ty) not in ATTRS:
            fail(p, e, f"attribute .{e.attr} of a value of type {ty}")
        g, rty, gpure = ATTRS[(e.attr, ty)]
        if ty == TEAL and env.cls == "PrinterHumanSummary":
            return g, rty, True  # the contract is the Section variable t
        if gpure:
            out, pure2 = seq(env, [(t, pure)], lambda a: f"({g} {a})")
            return out, rty, pure2
        out, _ = seq(env, [(t, pure)], lambda a: f"({g} {a})", monadic_result=True)
        return out, rty, False
    if isinstance(e, ast.Subscript):
        return subscript(env, e)
    if isinstance(e, ast.UnaryOp):
        if isinstance(e.op, ast.Not):
            t, ty, pure = expr(env, e.operand)
            if is_list(ty):
                out, pure2 = seq(env, [(t, pure)], lambda a: f"(list_is_empty {a})")
                return out, BOOL, pure2
            if ty != BOOL:
                fail(p, e, f"`not` of a value of type {ty}")
            return (f"(negb {t})" if pure else f"(notE {t})"), BOOL, pure
        fail(p, e, "unary operator")
    if isinstance(e, ast.BoolOp):
        parts = [truth(env, v) for v in e.values]
        allpure = all(pure for _, pure in parts)
        if isinstance(e.op, ast.And):
            fn = "andb" if allpure else "andE"
        elif isinstance(e.op, ast.Or):
            fn = "orb" if allpure else "orE"
        else:
            fail(p, e, "boolean operator")
        terms = [t if allpure else as_monadic(t, pure) for t, pure in parts]
        out = terms[-1]
        for t in reversed(terms[:-1]):
            out = f"({fn} {t} {out})"
        return out, BOOL, allpure
    if isinstance(e, ast.Compare):
        return compare(env, e)
    if isinstance(e, ast.List):
        if not e.elts:
            return "[]", ANYLIST, True
        if len(e.elts) == 1:
            if is_list(want) and want != ANYLIST:
                t, pure = typed(env, e, e.elts[0], want[1])
                ty = want[1]
            else:
                t, ty, pure = expr(env, e.elts[0])
            if ty in (ANYLIST, NONE):
                fail(p, e, "list literal " + txt[:60])
            out, pure2 = seq(env, [(t, pure)], lambda a: f"[{a}]")
            return out, tlist(ty), pure2
        if want == tlist(TEXT):
            parts = [typed(env, e, x, TEXT) for x in e.elts]
            out, pure = seq(env, parts, lambda *a: "[" + "; ".join(a) + "]")
            return out, tlist(TEXT), pure
        fail(p, e, "list literal " + txt[:60])
    if isinstance(e, (ast.ListComp, ast.GeneratorExp)):
        t, ety, pure = comprehension(env, e)
        return t, tlist(ety), pure
    if isinstance(e, ast.DictComp):
        return dict_comprehension(env, e)
    if isinstance(e, ast.BinOp):
        if isinstance(e.op, ast.Div):
            a, ap = typed(env, e, e.left, PATH)
            b, bp = typed(env, e, e.right, PATH)
            out, pure = seq(env, [(a, ap), (b, bp)], lambda x, y: f"({x} ++ {y})")
            return out, PATH, pure
        if isinstance(e.op, ast.Add):
            a, aty, ap = expr(env, e.left, want)
            b, bty, bp = expr(env, e.right, want)
            ty = unify(aty, bty)
            if ty is None or not is_list(ty) or ty == ANYLIST:
                fail(p, e, f"`+` of values of types {aty}, {bty}")
            out, pure = seq(env, [(a, ap), (b, bp)], lambda x, y: f"({x} ++ {y})")
            return out, ty, pure
        if isinstance(e.op, ast.Sub):
            a, ap = typed(env, e, e.left, ZINT)
            b, bp = typed(env, e, e.right, ZINT)
            out, pure = seq(env, [(a, ap), (b, bp)], lambda x, y: f"({x} - {y})%Z")
            return out, ZINT, pure
        fail(p, e, "binary operator " + txt[:60])
    if isinstance(e, ast.Call):
        return call(env, e, want)
    fail(p, e, "expression " + txt[:60])


def truth(env, e):
    """truth value of an operand of and / or / if -> (term : bool, pure)"""
    t, ty, pure = expr(env, e)
    if ty == BOOL:
        return t, pure
    if ty == topt(TEXT):
        out, pure2 = seq(env, [(t, pure)], lambda a: f"(opt_text_truthy {a})")
        return out, pure2
    if is_list(ty) and ty != ANYLIST:
        out, pure2 = seq(env, [(t, pure)], lambda a: f"(negb (list_is_empty {a}))")
        return out, pure2
    fail(env.path, e, f"truth value of a value of type {ty}")


def subscript(env, e):
    p = env.path
    if isinstance(e.value, ast.Attribute) and e.value.attr == "subroutines":
        _, oty, _ = expr(env, e.value.value)
        if oty != TEAL or env.cls != "PrinterHumanSummary":
            fail(p, e, f".subroutines of a value of type {oty}")
        k, kp = typed(env, e, e.slice, TEXT)
        out, _ = seq(env, [(k, kp)], lambda a: f"(sub_lookup {a})", monadic_result=True)
        return out, SUB, False
    l, lty, lp = expr(env, e.value)
    if isinstance(lty, tuple) and lty[0] == "dict":
        k, kp = typed(env, e, e.slice, lty[1])
        if lty[1] != INT:
            fail(p, e, f"dictionary with keys of type {lty[1]}")
        out, _ = seq(env, [(l, lp), (k, kp)], lambda a, b: f"(dict_get {a} {b})", monadic_result=True)
        return out, lty[2], False
    if not is_list(lty) or lty == ANYLIST:
        fail(p, e, f"subscript of a value of type {lty}")
    s = e.slice
    if isinstance(s, ast.Constant) and isinstance(s.value, int) and not isinstance(s.value, bool) and s.value >= 0:
        out, _ = seq(env, [(l, lp)], lambda a: f"(subscript {a} {s.value})", monadic_result=True)
        return out, lty[1], False
    if text_of(s) == "-1":
        out, _ = seq(env, [(l, lp)], lambda a: f"(lst_last {a})", monadic_result=True)
        return out, lty[1], False
    fail(p, e, "subscript index " + text_of(s))


def fstring(env, e):
    p = env.path
    tpl, holes = template_of(env, e)
    if tpl not in TEXT_TEMPLATES:
        fail(p, e, f"f-string template {tpl!r} is not in the table TEXT_TEMPLATES")
    tys = TEXT_TEMPLATES[tpl]
    parts = []
    for h, ty in zip(holes, tys):
        if ty == INSOBJ:  # str(ins)
            t, pure = typed(env, e, h, INSOBJ)
            out, _ = seq(env, [(t, pure)], lambda a: f"(ins_str {a})", monadic_result=True)
            parts.append((out, False))
        else:
            parts.append(typed(env, e, h, ty))

    def build(*a):
        pieces, k = [], 0
        for v in e.values:
            if isinstance(v, ast.Constant):
                pieces.append(coq_str(v.value))
            else:
                pieces.append(f"(py_str_int {a[k]})" if tys[k] == INT else f"(py_str_z {a[k]})" if tys[k] == ZINT else a[k])
                k += 1
        out = pieces[-1]
        for x in reversed(pieces[:-1]):
            out = f"(String.append {x} {out})"
        return out

    out, pure = seq(env, parts, build)
    return out, TEXT, pure


def dict_literal(env, e):
    p = env.path
    if any(k is None or not is_str(k) for k in e.keys):
        fail(p, e, "dict literal with a non-constant key")
    keys = tuple(k.value for k in e.keys)
    if keys not in DICT_TEMPLATES:
        fail(p, e, f"dict literal with keys {keys} is not in the table DICT_TEMPLATES")
    parts = [typed(env, v, v, JSON) for v in e.values]
    out, pure = seq(env, parts, lambda *a: "[" + "; ".join(f"({coq_str(k)}, {x})" for k, x in zip(keys, a)) + "]")
    return out, JDICT, pure


def compare(env, e):
    p = env.path
    if len(e.ops) != 1:
        fail(p, e, "comparison chain " + text_of(e))
    op, rhs = e.ops[0], e.comparators[0]
    if isinstance(op, (ast.Is, ast.IsNot)):
        if not is_none(rhs):
            fail(p, e, "`is` with something else than None")
        t, ty, pure = expr(env, e.left)
        if not is_opt(ty):
            fail(p, e, f"`is None` test of a value of type {ty}")
        build = (lambda a: f"(opt_is_some {a})") if isinstance(op, ast.IsNot) else (lambda a: f"(negb (opt_is_some {a}))")
        out, pure2 = seq(env, [(t, pure)], build)
        return out, BOOL, pure2
    if isinstance(op, (ast.In, ast.NotIn)):
        l, lty, lp = expr(env, e.left)
        r, rty, rp = expr(env, rhs)
        neg = isinstance(op, ast.NotIn)
        if isinstance(rty, tuple) and rty[0] == "dict" and rty[1] == lty == INT:
            out, pure = seq(env, [(l, lp), (r, rp)], lambda a, b: (f"(negb (dict_mem {b} {a}))" if neg else f"(dict_mem {b} {a})"))
            return out, BOOL, pure
        fail(p, e, f"membership test of {lty} in {rty}")
    l, lty, lp = expr(env, e.left)
    r, rty, rp = expr(env, rhs, lty if lty in (TEXT, ZINT) else None)
    if isinstance(op, (ast.Eq, ast.NotEq)):
        if lty == rty == INT:
            fn = "Nat.eqb"
        elif lty == rty == TEXT:
            fn = "String.eqb"
        elif lty == rty == ZINT:
            fn = "Z.eqb"
        else:
            fail(p, e, f"comparison of {lty} with {rty}")
        neg = isinstance(op, ast.NotEq)
        out, pure = seq(env, [(l, lp), (r, rp)], lambda a, b: (f"(negb ({fn} {a} {b}))" if neg else f"({fn} {a} {b})"))
        return out, BOOL, pure
    if isinstance(op, ast.GtE) and lty == rty == INT:
        out, pure = seq(env, [(l, lp), (r, rp)], lambda a, b: f"(Nat.leb {b} {a})")
        return out, BOOL, pure
    if isinstance(op, ast.Gt) and lty == rty == INT:
        out, pure = seq(env, [(l, lp), (r, rp)], lambda a, b: f"(Nat.ltb {b} {a})")
        return out, BOOL, pure
    fail(p, e, "comparison " + text_of(e))


def comprehension(env, e):
    """[elt for x in it] / the generator form -> (term : list, element type, pure)"""
    p = env.path
    if len(e.generators) != 1:
        fail(p, e, "comprehension with several generators")
    g = e.generators[0]
    if g.is_async or not is_name(g.target) or g.ifs:
        fail(p, e, "comprehension " + text_of(e)[:60])
    x = g.target.id
    check_name(env, x, e)
    if x in env.vars:
        fail(p, e, f"comprehension variable {x} shadows a variable")
    it, ity, ip = expr(env, g.iter)
    if not is_list(ity) or ity == ANYLIST:
        fail(p, e, f"comprehension over a value of type {ity}")
    benv = env.child(**{x: ity[1]})
    el, ety, ep = expr(benv, e.elt)
    xt = coqty(ity[1], True)
    if ep:
        out, pure = seq(env, [(it, ip)], lambda l: f"(map (fun ({x} : {xt}) => {el}) {l})")
        return out, ety, pure
    out, _ = seq(env, [(it, ip)], lambda l: f"(comp (fun ({x} : {xt}) => (ret true)) (fun ({x} : {xt}) => {el}) {l})", monadic_result=True)
    return out, ety, False


def dict_comprehension(env, e):
    """{k(x): v(x) for x in it} with int keys -> association list built with dict_set_nat (a later equal key overwrites)"""
    p = env.path
    if len(e.generators) != 1 or e.generators[0].ifs or not is_name(e.generators[0].target):
        fail(p, e, "dict comprehension " + text_of(e)[:60])
    g = e.generators[0]
    x = g.target.id
    check_name(env, x, e)
    if x in env.vars:
        fail(p, e, f"comprehension variable {x} shadows a variable")
    it, ity, ip = expr(env, g.iter)
    if not is_list(ity) or ity == ANYLIST:
        fail(p, e, f"comprehension over a value of type {ity}")
    benv = env.child(**{x: ity[1]})
    k, kp = typed(benv, e, e.key, INT)
    v, vty, vp = expr(benv, e.value)
    if not kp or not isinstance(vty, str):
        fail(p, e, "dict comprehension " + text_of(e)[:60])
    xt = coqty(ity[1], True)
    acc, x0 = "dacc", x
    body = f"(bind {as_monadic(v, vp)} (fun dval => (ret (dict_set_nat {acc} {k} dval))))"
    out, _ = seq(env, [(it, ip)], lambda l: f"(fold_left (fun dst ({x0} : {xt}) => (bind dst (fun {acc} => {body}))) {l} (ret []))", monadic_result=True)
    return out, tdict(INT, vty), False


def str_elements(env, arg):
    """the iterable of a join whose elements are str(<int>) / repr(<block>): `str(e) for x in l`, `map(str, l)` -> (term : list nat, pure) or None"""
    if isinstance(arg, ast.GeneratorExp) and isinstance(arg.elt, ast.Call) and len(arg.elt.args) == 1 and not arg.elt.keywords:
        f = arg.elt.func
        if is_name(f, "str") and unbound(env, "str"):
            inner = ast.GeneratorExp(elt=arg.elt.args[0], generators=arg.generators)
            ast.copy_location(inner, arg)
            t, ety, pure = comprehension(env, inner)
            if ety != INT:
                return None
            return t, pure
        if is_name(f, "repr") and unbound(env, "repr"):  # repr(bb) = f"B{bb.idx}" (fingerprinted): read as the id
            inner = ast.GeneratorExp(elt=arg.elt.args[0], generators=arg.generators)
            ast.copy_location(inner, arg)
            t, ety, pure = comprehension(env, inner)
            if ety != BLK:
                fail(env.path, arg, f"repr() of a value of type {ety}")
            return t, pure
    if isinstance(arg, ast.Call) and is_name(arg.func, "map") and unbound(env, "map") and len(arg.args) == 2 and not arg.keywords and is_name(arg.args[0], "str") and unbound(env, "str"):
        t, ty, pure = expr(env, arg.args[1])
        if ty != tlist(INT):
            fail(env.path, arg, f"map(str, ..) over a value of type {ty}")
        return t, pure
    return None


def call(env, e, want=None):
    p = env.path
    f = e.func
    txt = text_of(e)
    if isinstance(f, ast.Attribute):
        # sep.join(..)
        if f.attr == "join" and is_str(f.value) and len(e.args) == 1 and not e.keywords:
            sep = f.value.value
            if sep in NUMS_SEPARATORS or (sep == ", " and env.cls == "PrinterHumanSummary"):
                r = str_elements(env, e.args[0])
                if r is None:
                    fail(p, e, "join of something else than str(<int>) elements: " + txt[:60])
                return r[0], tnums(sep), r[1]
            if sep in TEXTS_SEPARATORS:
                t, pure = typed(env, e, e.args[0], tlist(TEXT))
                return t, ttexts(sep), pure
            if sep == " " and env.fname == "_repr_num_list":
                a = e.args[0]
                if isinstance(a, ast.GeneratorExp) and isinstance(a.elt, ast.Call) and is_name(a.elt.func, "str") and unbound(env, "str") and len(a.elt.args) == 1 and not a.elt.keywords:
                    inner = ast.GeneratorExp(elt=a.elt.args[0], generators=a.generators)
                    ast.copy_location(inner, a)
                    t, ety, pure = comprehension(env, inner)
                    if ety != ZINT:
                        fail(p, e, f"str() of a value of type {ety}")
                    out, pure2 = seq(env, [(t, pure)], lambda l: f"(texts_join {coq_str(sep)} (map py_str_z {l}))")
                    return out, TEXT, pure2
                t, pure = typed(env, e, a, tlist(TEXT))
                out, pure2 = seq(env, [(t, pure)], lambda l: f"(texts_join {coq_str(sep)} {l})")
                return out, TEXT, pure2
            fail(p, e, f"join with separator {sep!r}")
        # output.to_json()
        if f.attr == "to_json" and not e.args and not e.keywords:
            t, pure = typed(env, e, f.value, OUTPUT)
            out, _ = seq(env, [(t, pure)], lambda a: f"(call_to_json {a})", monadic_result=True)
            return out, JSON, False
        # json.dumps(x, indent=2)
        if f.attr == "dumps" and is_name(f.value, "json") and "json" not in env.vars:
            if env.imports.get("json") != "<module>" or len(e.args) != 1 or [(k.arg, text_of(k.value)) for k in e.keywords] != [("indent", "2")]:
                fail(p, e, "json.dumps call " + txt[:60])
            t, pure = typed(env, e, e.args[0], JSON)
            return t, JTEXT, pure
        # self._repr_num_list(x)
        if f.attr == "_repr_num_list" and is_name(f.value, "self") and env.cls == "PrinterTransactionContext" and len(e.args) == 1 and not e.keywords:
            t, pure = typed(env, e, e.args[0], tlist(ZINT))
            out, _ = seq(env, [(t, pure)], lambda a: f"(repr_num_list_gen {a})", monadic_result=True)
            return out, TEXT, False
        # function.transaction_context(bi)
        if f.attr == "transaction_context" and is_name(f.value, "function_v") and env.vars.get("function_v") == "glue" and len(e.args) == 1 and not e.keywords:
            t, pure = typed(env, e, e.args[0], BLK)
            out, _ = seq(env, [(t, pure)], lambda a: f"(function_context {a})", monadic_result=True)
            return out, CTX, False
        # teal.subroutines.items()
        if f.attr == "items" and not e.args and not e.keywords and isinstance(f.value, ast.Attribute) and f.value.attr == "subroutines":
            _, oty, _ = expr(env, f.value.value)
            if oty != TEAL:
                fail(p, e, f".subroutines of a value of type {oty}")
            return "attr_subroutines_items", tlist(tprod(TEXT, SUB)), True
        fail(p, e, "method call " + txt[:60])
    if not isinstance(f, ast.Name):
        fail(p, e, "call " + txt[:60])
    fn = f.id
    if fn in env.vars:
        fail(p, e, f"call of the local variable {fn}")
    builtin = fn not in env.imports
    if fn == "len" and builtin and len(e.args) == 1 and not e.keywords:
        t, ty, pure = expr(env, e.args[0])
        if not is_list(ty) or ty == ANYLIST:
            fail(p, e, f"len of a value of type {ty}")
        out, pure2 = seq(env, [(t, pure)], lambda a: f"(length {a})")
        return out, INT, pure2
    if fn == "str" and builtin and len(e.args) == 1 and not e.keywords:
        t, ty, pure = expr(env, e.args[0])
        if ty == MODE:
            return t, MODE, pure  # str(teal.mode): read as the member of ExecutionMode
        if ty != INT:
            fail(p, e, f"str of a value of type {ty}")
        out, pure2 = seq(env, [(t, pure)], lambda a: f"(py_str_int {a})")
        return out, TEXT, pure2
    if fn == "sorted" and builtin and len(e.args) == 1 and not e.keywords:
        t, pure = typed(env, e, e.args[0], tlist(ZINT))
        out, pure2 = seq(env, [(t, pure)], lambda a: f"(z_sorted {a})")
        return out, tlist(ZINT), pure2
    if fn == "isinstance" and builtin and len(e.args) == 2 and not e.keywords and is_name(e.args[1], "ExecutionPaths"):
        if env.imports.get("ExecutionPaths") != "tealer.utils.output.ExecutionPaths":
            fail(p, e, "ExecutionPaths is not tealer.utils.output.ExecutionPaths")
        t, ty, pure = expr(env, e.args[0])
        if ty != tlist(OUTPUT) or not pure:
            fail(p, e, f"isinstance(.., ExecutionPaths) of a value of type {ty}")
        return "false", BOOL, True  # a list object is no ExecutionPaths (the class derives from Output only: checked)
    if fn == "Path" and len(e.args) == 1 and not e.keywords:
        if env.imports.get("Path") != "pathlib.Path":
            fail(p, e, "Path is not pathlib.Path")
        t, pure = typed(env, e, e.args[0], TEXT)
        out, pure2 = seq(env, [(t, pure)], lambda a: f"[{a}]")
        return out, PATH, pure2
    fail(p, e, "call " + txt[:60])


# ----------------------------------------------------------------------------- statements
def is_append(st, attr="append"):
    v = st.value
    return (
        isinstance(v, ast.Call) and isinstance(v.func, ast.Attribute) and v.func.attr == attr and is_name(v.func.value)
        and len(v.args) == 1 and not v.keywords
    )  # fmt: skip


def is_last_append(st):
    """xs[-1].append(v)"""
    v = st.value
    return (
        isinstance(v, ast.Call) and isinstance(v.func, ast.Attribute) and v.func.attr == "append" and isinstance(v.func.value, ast.Subscript)
        and is_name(v.func.value.value) and text_of(v.func.value.slice) == "-1" and len(v.args) == 1 and not v.keywords
    )  # fmt: skip


def is_print(st):
    return isinstance(st, ast.Expr) and isinstance(st.value, ast.Call) and is_name(st.value.func, "print")


def is_exit(st):
    return isinstance(st, ast.Expr) and isinstance(st.value, ast.Call) and text_of(st.value.func) == "sys.exit"


def emits(st):
    """the statement appends to the hidden variable `out`"""
    for n in ast.walk(st):
        if is_print(n) or isinstance(n, ast.With):
            return True
        if isinstance(n, ast.Call) and isinstance(n.func, ast.Attribute) and n.func.attr == "generate_output":
            return True
    return False


def assigned_names(stmts):
    out = []

    def add(n):
        if n not in out:
            out.append(n)

    for st in stmts:
        for node in ast.walk(st):
            if isinstance(node, ast.Name) and isinstance(node.ctx, ast.Store):
                add(node.id)
            if isinstance(node, ast.Subscript) and isinstance(node.ctx, ast.Store) and is_name(node.value):
                add(node.value.id)
            if isinstance(node, ast.Expr) and (is_append(node) or is_append(node, "extend")):
                add(node.value.func.value.id)
            if isinstance(node, ast.Expr) and is_last_append(node):
                add(node.value.func.value.value.id)
            if isinstance(node, ast.stmt) and not isinstance(node, (ast.If, ast.For)) and emits(node):
                add("out")
            if isinstance(node, ast.If) and emits(ast.Expr(value=node.test)):
                add("out")
    return out


def representable(ty):
    return ty != "glue" and not (isinstance(ty, tuple) and ty[0] == "fun")


def bind_var(env, name, node, t, ty, pure, rest_of):
    if name != "out":
        check_name(env, name, node)
    if not representable(ty) or ty == ANYLIST:
        fail(env.path, node, f"assignment of a value of type {ty} to {name}")
    if name in env.vars:
        old = env.vars[name]
        if old != ty and not (is_opt(old) and old[1] == ty) and not (old == NONE and isinstance(ty, str)):
            c = coerce("X", ty, old)
            if c is None or old == JSON:
                fail(env.path, node, f"re-assignment of {name} changes its type from {old} to {ty}")
            if pure:
                t = coerce(t, ty, old)
            else:
                v = env.fresh()
                t = f"(bind {t} (fun {v} => (ret {coerce(v, ty, old)})))"
            ty = old
    rest = rest_of(env.child(**{name: ty}))
    if ty == NONE:
        return rest
    if pure:
        return f"(let {name} := {t} in\n{rest})"
    return f"(bind {t} (fun {name} =>\n{rest}))"


def emit_event(env, node, term, pure, rest_of):
    """out := out ++ [event]"""
    if env.result != "report":
        fail(env.path, node, "a statement that prints / writes outside a function of kind report")
    out, pure2 = seq(env, [(term, pure)], lambda a: f"(out ++ [{a}])")
    return bind_var(env, "out", node, out, tlist(EVENT), pure2, rest_of)


def do_return(env, st, value):
    p = env.path
    if env.depth:
        fail(p, st, "return in a loop body")
    r = env.result
    if r == "report":
        if value is not None and not is_none(value):
            fail(p, st, "return of a value")
        return "(ret (out, @None Z))"
    if isinstance(r, tuple) and r[0] == "update":
        if value is not None and not is_none(value):
            fail(p, st, "return of a value")
        return f"(ret {r[1]})"
    if value is None:
        fail(p, st, "bare return")
    t, pure = typed(env, st, value, r)
    return as_monadic(t, pure)


def end_of_function(env, node):
    r = env.result
    if env.depth == 0 and (r == "report" or (isinstance(r, tuple) and r[0] == "update")):
        return do_return(env, node, None)
    raise TranslateError(f"translator: {env.path}:{getattr(node, 'lineno', '?')}: control reaches the end of the function without return")


def print_event(env, st):
    """print(<message>) -> (event term, pure)"""
    p = env.path
    v = st.value
    if v.keywords or len(v.args) != 1 or not unbound(env, "print"):
        fail(p, st, "print call " + text_of(st)[:60])
    a = v.args[0]
    if isinstance(a, ast.JoinedStr):
        tpl, holes = template_of(env, a)
        if tpl not in PRINTS:
            fail(p, st, f"printed message {tpl!r} is not in the table PRINTS")
        ctor, tys = PRINTS[tpl]
        parts = [typed(env, st, h, ty) for h, ty in zip(holes, tys)]
        return seq(env, parts, lambda *x: f"({ctor} " + " ".join(x) + ")")
    t, ty, pure = expr(env, a)
    if ty != JTEXT:
        fail(p, st, "printed expression " + text_of(a)[:60])
    return seq(env, [(t, pure)], lambda x: f"(RepJsonStdout {x})")


def with_open(env, st, rest_of):
    p = env.path
    ok = (
        len(st.items) == 1 and isinstance(st.items[0].context_expr, ast.Call) and is_name(st.items[0].context_expr.func, "open")
        and unbound(env, "open") and is_name(st.items[0].optional_vars, "f") and "f" not in env.vars
    )  # fmt: skip
    if ok:
        c = st.items[0].context_expr
        ok = (
            len(c.args) == 2 and text_of(c.args[1]) == "'w'" and [(k.arg, text_of(k.value)) for k in c.keywords] == [("encoding", "'utf-8'")]
            and len(st.body) == 1 and isinstance(st.body[0], ast.Expr) and isinstance(st.body[0].value, ast.Call)
            and text_of(st.body[0].value.func) == "f.write" and len(st.body[0].value.args) == 1 and not st.body[0].value.keywords
        )  # fmt: skip
    if not ok or env.depth:
        fail(p, st, "with statement " + text_of(st)[:60])
    f, fp = typed(env, st, st.items[0].context_expr.args[0], PATH)
    x, xp = typed(env, st, st.body[0].value.args[0], JTEXT)
    t, pure = seq(env, [(f, fp), (x, xp)], lambda a, b: f"(RepJsonFile {a} {b})")
    return emit_event(env, st, t, pure, rest_of)


def block(env, stmts, fall):
    p = env.path
    stmts = strip_doc(stmts)
    if not stmts:
        if fall is None:
            return end_of_function(env, env.fn)
        return fall(env)
    st, rest = stmts[0], stmts[1:]
    rest_of = lambda env2: block(env2, rest, fall)  # noqa: E731
    if same_text(st, "os.makedirs(output_directory, exist_ok=True)"):
        if env.imports.get("os") != "<module>" or env.vars.get("output_directory") != PATH:
            fail(p, st, "os.makedirs statement")
        return rest_of(env)
    if isinstance(st, ast.Return):
        if rest:
            fail(p, rest[0], "statement after return")
        return do_return(env, st, st.value)
    if isinstance(st, ast.Pass):
        return rest_of(env)
    if isinstance(st, (ast.Assign, ast.AnnAssign)):
        return assign(env, st, rest_of)
    if isinstance(st, ast.AugAssign):
        return aug_assign(env, st, rest_of)
    if isinstance(st, ast.Expr):
        v = st.value
        if is_print(st):
            if env.cls == "PrinterHumanSummary":
                return summary_print(env, st, rest)
            t, pure = print_event(env, st)
            return emit_event(env, st, t, pure, rest_of)
        if is_exit(st):
            if rest or env.depth or env.result != "report" or env.imports.get("sys") != "<module>" or "sys" in env.vars:
                fail(p, st, "sys.exit here")
            if len(v.args) != 1 or v.keywords or not re.fullmatch(r"-?\d+", text_of(v.args[0])):
                fail(p, st, "sys.exit argument")
            return f"(ret (out, Some ({text_of(v.args[0])})%Z))"
        if is_append(st) or is_append(st, "extend"):
            x = v.func.value.id
            ty = env.vars.get(x)
            if not is_list(ty) or ty == ANYLIST:
                fail(p, st, f".{v.func.attr} on {x} of type {ty}")
            if v.func.attr == "append":
                t, pure = typed(env, st, v.args[0], ty[1])
                out, pure2 = seq(env, [(t, pure)], lambda a: f"({x} ++ [{a}])")
            else:
                t, pure = typed(env, st, v.args[0], ty)
                out, pure2 = seq(env, [(t, pure)], lambda a: f"({x} ++ {a})")
            return bind_var(env, x, st, out, ty, pure2, rest_of)
        if is_last_append(st):
            x = v.func.value.value.id
            ty = env.vars.get(x)
            if not (is_list(ty) and is_list(ty[1])):
                fail(p, st, f"[-1].append on {x} of type {ty}")
            t, pure = typed(env, st, v.args[0], ty[1][1])
            out, _ = seq(env, [(t, pure)], lambda a: f"(append_last {x} {a})", monadic_result=True)
            return bind_var(env, x, st, out, ty, False, rest_of)
        if isinstance(v, ast.Call) and is_name(v.func, "handle_output"):
            return call_handle_output(env, st, rest)
        fail(p, st, "expression statement " + text_of(st)[:60])
    if isinstance(st, ast.With):
        return with_open(env, st, rest_of)
    if isinstance(st, ast.If):
        return if_stmt(env, st, rest, fall)
    if isinstance(st, ast.For):
        if update_loop_shape(env, st):
            return update_loop(env, st, rest_of)
        return for_term(env, st, rest_of)
    if isinstance(st, ast.FunctionDef):
        return nested_def(env, st, rest_of)
    fail(p, st, "statement " + text_of(st)[:60])


def call_handle_output(env, st, rest):
    """handle_output(args, results_detectors, tealer.contracts[contract_name], error) in tail position"""
    p = env.path
    v = st.value
    if rest or env.depth or env.result != "report" or v.keywords or len(v.args) != 4 or not is_name(v.args[0], "args") or env.imports.get("handle_output") != "<local>":
        fail(p, st, "handle_output call " + text_of(st)[:60])
    if env.vars.get("args_json") != topt(TEXT):
        fail(p, st, "handle_output call without args_json")
    parts = [("args_json", True), typed(env, st, v.args[1], tlist(tlist(OUTPUT))), typed(env, st, v.args[2], TEAL), typed(env, st, v.args[3], topt(TEXT))]
    call_t, _ = seq(env, parts, lambda *a: "(handle_output_gen " + " ".join(a) + ")", monadic_result=True)
    tmp = env.fresh()
    return f"(bind {call_t} (fun {tmp} => (ret (out ++ (fst {tmp}), (snd {tmp})))))"


def assign(env, st, rest_of):
    p = env.path
    want = None
    if isinstance(st, ast.Assign):
        if len(st.targets) != 1:
            fail(p, st, "chained assignment")
        tg, value = st.targets[0], st.value
    else:
        tg, value = st.target, st.value
        ann = text_of(st.annotation)
        if value is None or not is_name(tg) or ann not in ANNOTATIONS:
            fail(p, st, "annotated assignment " + text_of(st)[:60])
        want = ANNOTATIONS[ann]
    if is_name(tg):
        if env.cls == "PrinterHumanSummary" and is_str(value):
            if value.value not in SUMMARY_CONSTANTS:
                fail(p, st, f"string constant {value.value!r} is not in the table SUMMARY_CONSTANTS")
            return bind_var(env, tg.id, st, "(@nil summary_item)", tlist(SITEM), True, rest_of)
        if want is None and isinstance(value, ast.List) and not value.elts:
            want = LOCAL_LISTS.get(env.fname, {}).get(tg.id)
            if want is None:
                fail(p, st, f"the type of the empty list {tg.id} is not in the table LOCAL_LISTS")
        if want is not None:
            t, pure = typed(env, st, value, want)
            ty = want
        elif tg.id in env.vars and representable(env.vars[tg.id]) and env.vars[tg.id] != NONE:
            old = env.vars[tg.id]
            want0 = old[1] if is_opt(old) else old
            t, ty, pure = expr(env, value, want0)
        else:
            t, ty, pure = expr(env, value)
        if isinstance(ty, tuple) and ty[0] in ("nums",) and env.cls != "PrinterHumanSummary":
            t, ty = coerce(t, ty, TEXT) if pure else None, TEXT
            if t is None:
                fail(p, st, "impure numbers join")
        return bind_var(env, tg.id, st, t, ty, pure, rest_of)
    if isinstance(tg, ast.Subscript) and is_name(tg.value) and env.vars.get(tg.value.id) == JDICT:
        d = tg.value.id
        if not is_str(tg.slice) or tg.slice.value not in DICT_SET_KEYS:
            fail(p, st, "dict key " + text_of(tg.slice))
        v, vp = typed(env, st, value, JSON)
        out, pure = seq(env, [(v, vp)], lambda b: f"(dict_set {d} {coq_str(tg.slice.value)} {b})")
        return bind_var(env, d, st, out, JDICT, pure, rest_of)
    fail(p, st, "assignment target " + text_of(tg)[:60])


def none_test(e):
    if isinstance(e, ast.Compare) and len(e.ops) == 1 and is_name(e.left) and is_none(e.comparators[0]):
        if isinstance(e.ops[0], ast.Is):
            return e.left.id, True
        if isinstance(e.ops[0], ast.IsNot):
            return e.left.id, False
    return None


def generate_output_call(test):
    """`not X.generate_output(d)` / `X.generate_output(d)` -> the call node"""
    c = test.operand if isinstance(test, ast.UnaryOp) and isinstance(test.op, ast.Not) else test
    if isinstance(c, ast.Call) and isinstance(c.func, ast.Attribute) and c.func.attr == "generate_output" and len(c.args) == 1 and not c.keywords:
        return c
    return None


def if_term(env, st, k):
    p = env.path
    nt = none_test(st.test)
    if nt is not None and nt[0] in env.vars and is_opt(env.vars[nt[0]]):
        x, none_branch_first = nt
        inner = env.vars[x][1]
        tmp = env.fresh()
        some_body, none_body = (st.orelse, st.body) if none_branch_first else (st.body, st.orelse)
        some_t = f"(let {x} := {tmp} in\n{block(env.child(**{x: inner}), some_body, k)})"
        none_t = block(env, none_body, k)
        return f"(match {x} with\n | Some {tmp} =>\n{indent(some_t)}\n | None =>\n{indent(none_t)}\n end)"
    gen = generate_output_call(st.test)
    if gen is not None:
        # the call is evaluated first: its result and the files it wrote are one event
        if env.result != "report":
            fail(p, st, "generate_output outside a function of kind report")
        o, op = typed(env, st, gen.func.value, OUTPUT)
        d, dp = typed(env, st, gen.args[0], PATH)
        call_t, _ = seq(env, [(o, op), (d, dp)], lambda a, b: f"(call_generate_output {a} {b})", monadic_result=True)
        env.counter[0] += 1
        w = f"wrote{env.counter[0]}"
        name = ast.Name(id=w, ctx=ast.Load())
        test2 = name if st.test is gen else ast.UnaryOp(op=ast.Not(), operand=name)
        st2 = ast.If(test=test2, body=st.body, orelse=st.orelse)
        ast.copy_location(st2, st)
        ast.fix_missing_locations(st2)
        env3 = env.child(**{"out": tlist(EVENT), w: BOOL})
        inner = if_term(env3, st2, k)
        return f"(bind {call_t} (fun {w} =>\n(let out := (out ++ [(RepGenerated (fst {w}) (snd {w}))]) in\n(let {w} := (fst {w}) in\n{inner}))))"
    if any(isinstance(n, ast.Call) and isinstance(n.func, ast.Attribute) and n.func.attr == "generate_output" for n in ast.walk(st.test)):
        fail(p, st, "generate_output inside a larger condition")
    t, pure = truth(env, st.test)
    if pure and t == "false":
        return block(env, st.orelse, k)  # statically dead branch (isinstance of a list)
    then_t = block(env, st.body, k)
    else_t = block(env, st.orelse, k)
    if pure:
        return f"(if {t}\n then\n{indent(then_t)}\n else\n{else_t})"
    return f"(ifE {t}\n{indent(then_t)}\n{else_t})"


def if_stmt(env, st, rest, fall):
    p = env.path
    if not rest:
        k = fall if fall is not None else (lambda env2: end_of_function(env2, st))
        return if_term(env, st, k)
    ends = []

    def probe(env2):
        ends.append(dict(env2.vars))
        return "K"

    saved = list(env.counter)
    if_term(env, st, probe)
    env.counter[:] = saved
    if not ends:
        fail(p, rest[0], "unreachable statement")
    if len(ends) == 1:
        return if_term(env, st, lambda env2: block(env2, rest, fall))
    cand = [v for v in assigned_names([st]) if all(v in end and representable(end[v]) for end in ends)]
    jtypes = {}
    for v in dict.fromkeys(cand):
        ty = ends[0][v]
        for end in ends[1:]:
            ty2 = unify(ty, end[v])
            if ty2 is None:
                fail(p, st, f"the type of {v} differs at the join point: {ty} / {end[v]}")
            ty = ty2
        if ty in (NONE, ANYLIST):
            fail(p, st, f"the type of {v} is not determined at the join point")
        jtypes[v] = ty
    join = list(jtypes)
    kn = env.fresh_join()
    kenv = env.child(**jtypes)
    body = block(kenv, rest, fall)
    params = " ".join(f"({v} : {coqty(jtypes[v], True)})" for v in join) or "(_ : unit)"

    def callk(env2):
        args = []
        for v in join:
            c = coerce(v, env2.vars[v], jtypes[v])
            if c is None:
                fail(p, st, f"the type of {v} differs at the join point: {env2.vars[v]} / {jtypes[v]}")
            args.append(c)
        return f"({kn} {' '.join(args) or 'tt'})"

    return f"(let {kn} := (fun {params} =>\n{indent(body, 2)}) in\n{if_term(env, st, callk)})"


def for_term(env, st, rest_of):
    p = env.path
    if st.orelse or getattr(st, "type_comment", None):
        fail(p, st, "for-else")
    it, lty, ipure = expr(env, st.iter)
    if not is_list(lty) or lty == ANYLIST:
        fail(p, st, f"iteration over a value of type {lty}")
    ety = lty[1]
    d = env.depth + 1
    body = strip_doc(st.body)
    for node in [n for b in body for n in ast.walk(b)]:
        if isinstance(node, (ast.Return, ast.Break, ast.Continue, ast.While, ast.Try, ast.With, ast.FunctionDef, ast.NamedExpr, ast.Delete, ast.Global, ast.Nonlocal, ast.Yield, ast.Raise)) or is_exit(node):
            fail(p, node, "statement/expression not accepted in a loop body: " + type(node).__name__)
    assigned = assigned_names(body)
    if is_name(st.target):
        x = st.target.id
        check_name(env, x, st)
        if x in env.vars:
            fail(p, st, f"loop variable {x} shadows a variable")
        new, lets, binder = {x: ety}, [], x
    elif isinstance(st.target, ast.Tuple) and len(st.target.elts) == 2 and all(is_name(z) for z in st.target.elts) and isinstance(ety, tuple) and ety[0] == "prod":
        binder = f"elt{d}"
        names = [z.id for z in st.target.elts]
        for n in names:
            check_name(env, n, st)
            if n in env.vars:
                fail(p, st, f"loop variable {n} shadows a variable")
        if names[0] == names[1]:
            fail(p, st, "loop target binds a name twice")
        new = {names[0]: ety[1], names[1]: ety[2]}
        lets = [(names[0], f"(fst {binder})"), (names[1], f"(snd {binder})")]
    else:
        fail(p, st, "loop target " + text_of(st.target))
    for n in ast.walk(st.iter):
        if isinstance(n, ast.Name) and n.id in assigned:
            fail(p, st, f"the loop body assigns {n.id}, which the loop header reads")
    state = [n for n in assigned if n in env.vars and representable(env.vars[n]) and n not in new]
    if not state:
        fail(p, st, "loop without carried variable")
    stys = [env.vars[n] for n in state]
    for n, ty in zip(state, stys):
        if ty in (NONE, ANYLIST):
            fail(p, st, f"the type of the carried variable {n} is not determined")
    stv, accv = f"st{d}", f"acc{d}"
    benv = env.child(**new)
    benv.depth = d

    def body_end(env2):
        args = []
        for n, ty in zip(state, stys):
            c = coerce(n, env2.vars[n], ty)
            if c is None:
                fail(p, st, f"loop body changes the type of {n} from {ty} to {env2.vars[n]}")
            args.append(c)
        return f"(ret {tuple_term(args)})"

    body_t = block(benv, body, body_end)
    for n, pr in reversed(lets):
        body_t = f"(let {n} := {pr} in\n{body_t})"
    for n, pr in reversed(list(zip(state, projections(len(state), stv)))):
        body_t = f"(let {n} := {pr} in\n{body_t})"
    lst = it if ipure else env.fresh()
    loop = f"(fold_left (fun {accv} {binder} => (bind {accv} (fun {stv} =>\n{indent(body_t, 2)})))\n  {lst} (ret {tuple_term(state)}))"
    tmp = env.fresh()
    after = rest_of(env)
    for n, pr in reversed(list(zip(state, projections(len(state), tmp)))):
        after = f"(let {n} := {pr} in\n{after})"
    out = f"(bind {loop} (fun {tmp} =>\n{after}))"
    if not ipure:
        out = f"(bind {it} (fun {lst} =>\n{out}))"
    return out


# ----------------------------------------------------------------------------- update loops
def update_body(env, x, body):
    """the statements of the body of `for x in L` as an update of x -> term : py <type of x> (None: not an update loop)"""
    xty = env.vars[x]
    body = strip_doc(body)
    if not body:
        return f"(ret {x})"
    st, rest = body[0], body[1:]
    if isinstance(st, ast.Expr) and isinstance(st.value, ast.Call) and isinstance(st.value.func, ast.Attribute) and st.value.func.attr == "filter_paths":
        c = st.value
        if not is_name(c.func.value, x) or xty != OUTPUT or len(c.args) != 1 or c.keywords:
            return None
        a, ap = typed(env, st, c.args[0], TEXT)
        if not ap:
            return None
        r = update_body(env, x, rest)
        return None if r is None else f"(bind (call_filter_paths {x} {a}) (fun {x} =>\n{r}))"
    if isinstance(st, ast.For) and is_name(st.iter, x) and is_name(st.target) and is_list(xty) and not st.orelse:
        y = st.target.id
        check_name(env, y, st)
        if y in env.vars:
            fail(env.path, st, f"loop variable {y} shadows a variable")
        inner = update_body(env.child(**{y: xty[1]}), y, st.body)
        r = update_body(env, x, rest)
        if inner is None or r is None:
            return None
        yt = coqty(xty[1], True)
        return f"(bind (comp (fun ({y} : {yt}) => (ret true)) (fun ({y} : {yt}) =>\n{indent(inner, 2)}) {x}) (fun {x} =>\n{r}))"
    if isinstance(st, ast.If) and not rest:
        t, pure = truth(env, st.test)
        if pure and t == "false":
            return update_body(env, x, st.orelse)
        return None
    return None


def update_loop_shape(env, st):
    """`for x in L: <only in-place updates of x>` with L a variable"""
    if not (is_name(st.iter) and is_name(st.target) and not st.orelse and is_list(env.vars.get(st.iter.id))):
        return False
    calls = [n for n in ast.walk(st) if isinstance(n, ast.Call) and isinstance(n.func, ast.Attribute) and n.func.attr == "filter_paths"]
    return bool(calls)


def update_loop(env, st, rest_of):
    p = env.path
    L, x = st.iter.id, st.target.id
    check_name(env, x, st)
    if x in env.vars or env.depth:
        fail(p, st, f"update loop over {L}")
    lty = env.vars[L]
    body = update_body(env.child(**{x: lty[1]}), x, st.body)
    if body is None:
        fail(p, st, "a loop that calls filter_paths is not of the form `for x in L: x.filter_paths(a)` (possibly nested)")
    xt = coqty(lty[1], True)
    t = f"(comp (fun ({x} : {xt}) => (ret true)) (fun ({x} : {xt}) =>\n{indent(body, 2)}) {L})"
    return bind_var(env, L, st, t, lty, False, rest_of)


# ----------------------------------------------------------------------------- source checks
def check_fingerprints():
    trees = {}
    for rel, cname, mname, text in FINGERPRINTS:
        path = os.path.join(T, rel)
        if rel not in trees:
            trees[rel] = parse(path)
        cls = find_class(trees[rel], cname, path)
        got = member_text(member(path, cls, mname))
        if not same_text(ast.parse(got), text):
            raise TranslateError(f"translator: {path}: {cname}.{mname} changed (its entry in the glue table of Gen/ReportGen.v is no longer justified):\n{got}")
    for rel, name, text in TOPLEVEL_FINGERPRINTS:
        path = os.path.join(T, rel)
        if rel not in trees:
            trees[rel] = parse(path)
        got = member_text(find_toplevel(trees[rel], name, path))
        if not same_text(ast.parse(got), text):
            raise TranslateError(f"translator: {path}: {name} changed (its entry in the glue table of Gen/ReportGen.v is no longer justified):\n{got}")


def check_output_classes(op, otree):
    """the subclasses of Output, over the whole tree; the opaque ones write no file"""
    found = {}
    for root, _, files in os.walk(T):
        for fn in sorted(files):
            if fn.endswith(".py"):
                fp = os.path.join(root, fn)
                for node in ast.walk(parse(fp)):
                    if isinstance(node, ast.ClassDef) and any(text_of(b).split(".")[-1] in OUTPUT_SUBCLASSES | {"Output"} for b in node.bases):
                        found[node.name] = (fp, node)
                    if isinstance(node, ast.Attribute) and isinstance(node.ctx, (ast.Store, ast.Del)) and node.attr in ("to_json", "generate_output", "filter_paths", "handle_output", "detector"):
                        fail(fp, node, f"assignment to the attribute {node.attr}")
    if set(found) != OUTPUT_SUBCLASSES:
        raise TranslateError(f"translator: the subclasses of Output are {sorted(found)}, expected {sorted(OUTPUT_SUBCLASSES)} (dispatch glue of Gen/ReportGen.v)")
    for name, (fp, node) in found.items():
        if fp != op or [text_of(b) for b in node.bases] != ["Output"] or node.keywords or node.decorator_list:
            fail(fp, node, f"class {name} is no longer `class {name}(Output)` of utils/output.py")
        if name != "ExecutionPaths":
            g = find_method(fp, node, "generate_output")
            for n in ast.walk(g):
                if isinstance(n, ast.With) or (isinstance(n, ast.Call) and is_name(n.func) and n.func.id in ("open", "full_cfg_to_dot", "subroutine_to_dot", "all_subroutines_to_dot")):
                    fail(fp, n, f"{name}.generate_output writes a file")
    base = find_class(otree, "Output", op)
    for n in base.body:
        if isinstance(n, ast.FunctionDef) and n.name in ("to_json", "filter_paths", "detector", "generate_output") and "abc.abstractmethod" not in [text_of(d) for d in n.decorator_list]:
            fail(op, n, f"Output.{n.name} is no longer abstract")


def rewrite_args(path, fn):
    """args.<f> -> the name args_<f>; any other use of `args` (but as first argument of handle_output) is rejected"""
    fn = copy.deepcopy(fn)
    used = []

    class R(ast.NodeTransformer):
        def visit_Attribute(self, node):
            if is_name(node.value, "args"):
                if node.attr not in ARGS_FIELDS or not isinstance(node.ctx, ast.Load):
                    fail(path, node, f"args.{node.attr} is not in the table ARGS_FIELDS")
                if node.attr not in used:
                    used.append(node.attr)
                return ast.copy_location(ast.Name(id="args_" + node.attr, ctx=ast.Load()), node)
            return self.generic_visit(node)

    fn = R().visit(fn)
    ast.fix_missing_locations(fn)
    for n in ast.walk(fn):
        if isinstance(n, ast.Call) and is_name(n.func, "handle_output") and n.args and is_name(n.args[0], "args"):
            n.args[0]._ok = True
    for n in ast.walk(fn):
        if is_name(n, "args") and not getattr(n, "_ok", False):
            fail(path, n, "use of the Namespace object args")
    return fn, used


# ----------------------------------------------------------------------------- emission
def emit_function(w, path, fn, gname, sig, vars_, result, imports, cls=None, fname=None, stmts=None, comment=None):
    """sig: [(coq name, coq type)]; vars_: python/coq name -> type"""
    env = Env(path, vars_, imports, result, cls=cls, fn=fn, fname=fname or fn.name)
    stmts = fn.body if stmts is None else stmts
    if result == "report":
        env.vars["out"] = tlist(EVENT)
    # python variables whose name is a Gallina identifier of the context are renamed
    for st in stmts:
        for node in ast.walk(st):
            if isinstance(node, ast.Name) and node.id in CLASH:
                node.id = node.id + "_v"
            if isinstance(node, ast.Name) and node.id.endswith("_v") and node.id[:-2] not in CLASH:
                fail(path, node, f"variable name {node.id}")
    body = block(env, stmts, None)
    if result == "report":
        body = f"(let out : list report_event := [] in\n{body})"
        rt = "(list report_event * option Z)"
    elif isinstance(result, tuple) and result[0] == "update":
        rt = coqty(vars_[result[1]])
    else:
        rt = coqty(result)
    ps = "".join(f" ({n} : {ty})" for n, ty in sig)
    if comment:
        w(f"  (* {comment} *)")
    w(f"  Definition {gname}{ps} : py {rt} :=\n{indent(body, 4)}.")
    w("")


def need_imports(path, imports, want):
    for n, o in want.items():
        if imports.get(n) != o:
            raise TranslateError(f"translator: {path}: name {n} is bound to {imports.get(n)}, expected {o}")


def find_unique_stmt(path, fn, pred, what):
    """the unique statement of fn (at any depth) that satisfies pred, with the statement list that contains it"""
    found = []
    for node in ast.walk(fn):
        for field in ("body", "orelse", "finalbody"):
            lst = getattr(node, field, None)
            if isinstance(lst, list):
                for i, st in enumerate(lst):
                    if isinstance(st, ast.stmt) and pred(st):
                        found.append((lst, i))
    if len(found) != 1:
        raise TranslateError(f"translator: {path}: expected exactly one statement `{what}` in {fn.name}, found {len(found)}")
    return found[0]


def emit_report(outdir):
    op, mp = os.path.join(T, OUT_REL), os.path.join(T, MAIN_REL)
    otree, mtree = parse(op), parse(mp)
    check_fingerprints()
    check_output_classes(op, otree)
    oimports, mimports = bound_names(otree), bound_names(mtree)
    need_imports(op, oimports, {"detector_terminal_description": "<local>", "ExecutionPaths": "<local>", "Output": "<local>"})
    check_single_binding(op, otree, ["detector_terminal_description", "ExecutionPaths", "Output", "InstructionsOutput", "GroupTransactionOutput"])
    need_imports(mp, mimports, {
        "json": "<module>", "os": "<module>", "sys": "<module>", "Path": "pathlib.Path", "handle_output": "<local>", "main": "<local>",
        "ROOT_OUTPUT_DIRECTORY": "tealer.utils.output.ROOT_OUTPUT_DIRECTORY", "ExecutionPaths": "tealer.utils.output.ExecutionPaths",
        "TealerException": "tealer.exceptions.TealerException",
    })  # fmt: skip
    check_single_binding(mp, mtree, ["json", "os", "sys", "Path", "handle_output", "main", "ROOT_OUTPUT_DIRECTORY", "ExecutionPaths"])

    L = []
    w = L.append
    w("(* GENERATED by tools/translate.py (translate_report) from /repo/tealer -- do not edit *)")
    w("(* utils/output.py (ExecutionPaths.to_json), __main__.py (handle_output, the reporting statements of main),")
    w("   printers/transaction_context.py, printers/human_summary.py: the VALUES that are reported, statement by statement.")
    w("   See tools/translate_report.py for the reading. *)")
    w("From Coq Require Import String List NArith ZArith Bool Arith Ascii.")
    w("From Tealer Require Import Tables LeafPrelude Syntax Parse Cfg Keys Analysis Domains Detect KeysGen Output OutputGen.")
    w("Import ListNotations.")
    w("Open Scope string_scope.")
    w("Open Scope list_scope.")
    w(PRELUDE_A.rstrip("\n"))
    w("")
    n = 0
    # ---- ExecutionPaths.to_json
    cls = find_class(otree, "ExecutionPaths", op)
    fn = find_method(op, cls, "to_json")
    check_signature(op, fn, [("self", None, None, None)], "Dict")
    emit_function(
        w, op, fn, "to_json_gen", [("self_paths", "list (list nat)"), ("self_detector", "string")],
        {"self_paths": tlist(tlist(BLK)), "self_detector": DETOBJ}, JSON, oimports, cls="ExecutionPaths",
        comment=f"{OUT_REL}: ExecutionPaths.to_json (line {fn.lineno})",
    )
    n += 1
    w("End PathsJson.")
    w(PRELUDE_B.rstrip("\n"))
    w("")
    # ---- handle_output
    fn0 = find_toplevel(mtree, "handle_output", mp)
    check_signature(
        mp, fn0,
        [("args", "argparse.Namespace", None, None), ("detector_results", "List['ListOutput']", None, None), ("teal", "'Teal'", None, None), ("error", "Optional[str]", None, None)],
        "None",
    )
    fn, used = rewrite_args(mp, fn0)
    if used != ["json"]:
        fail(mp, fn0, f"handle_output reads the fields {used} of args, expected ['json']")
    emit_function(
        w, mp, fn, "handle_output_gen",
        [("args_json", "option string"), ("detector_results", "list (list output)"), ("teal_v", "Cfg.teal"), ("error", "option string")],
        {"args_json": topt(TEXT), "detector_results": tlist(tlist(OUTPUT)), "teal_v": TEAL, "error": topt(TEXT)}, "report", mimports,
        comment=f"{MAIN_REL}: handle_output (line {fn0.lineno})",
    )
    n += 1
    # ---- main: the two reporting statements
    main0 = find_toplevel(mtree, "main", mp)
    if main0.args.args or main0.decorator_list:
        fail(mp, main0, "signature of main")
    for text in ("results_detectors: List['ListOutput'] = []", "error = None"):
        if sum(1 for st in main0.body if same_text(st, text)) != 1:
            fail(mp, main0, f"main no longer starts from `{text}`")
    mainf = main0
    lst, i = find_unique_stmt(mp, mainf, lambda st: isinstance(st, ast.If) and text_of(st.test) == "args.filter_paths is not None", "if args.filter_paths is not None")
    if i == 0 or not same_text(lst[i - 1], "results_detectors = tealer.run_detectors()"):
        fail(mp, lst[i], "the filter statement no longer follows `results_detectors = tealer.run_detectors()`")
    if len(lst) != i + 1:
        fail(mp, lst[i + 1], "a statement follows the filter statement in its block")
    emit_function(
        w, mp, mainf, "main_filter_gen", [("args_filter_paths", "option string"), ("results_detectors", "list (list output)")],
        {"args_filter_paths": topt(TEXT), "results_detectors": tlist(tlist(OUTPUT))}, ("update", "results_detectors"), mimports, fname="main", stmts=[rewrite_args(mp, lst[i])[0]],
        comment=f"{MAIN_REL}: main (line {main0.lineno}), the statement of line {lst[i].lineno} (after `results_detectors = tealer.run_detectors()`); returns results_detectors",
    )
    n += 1
    last = mainf.body[-1]
    if not (isinstance(last, ast.If) and not last.orelse and any(isinstance(x, ast.Call) and is_name(x.func, "handle_output") for x in ast.walk(last))):
        fail(mp, last, "the last statement of main is no longer the call of handle_output")
    if sum(1 for x in ast.walk(mainf) if isinstance(x, ast.Call) and is_name(x.func, "handle_output")) != 1:
        fail(mp, mainf, "handle_output is called more than once in main")
    emit_function(
        w, mp, mainf, "main_report_gen",
        [("args_json", "option string"), ("args_subcommand", "string"), ("results_detectors", "list (list output)"), ("tealer_contract", "py Cfg.teal"), ("error", "option string")],
        {"args_json": topt(TEXT), "args_subcommand": TEXT, "results_detectors": tlist(tlist(OUTPUT)), "tealer_contract": "glue", "error": topt(TEXT)},
        "report", mimports, fname="main", stmts=[rewrite_args(mp, last)[0]],
        comment=f"{MAIN_REL}: main, its last statement (line {last.lineno}); tealer_contract = tealer.contracts[contract_name] (None: the name is unbound / KeyError)",
    )
    n += 1
    w("End Report.")
    n += emit_printers(w)
    os.makedirs(outdir, exist_ok=True)
    with open(os.path.join(outdir, "ReportGen.v"), "w") as fh:
        fh.write("\n".join(L) + "\n")
    return n


def aug_assign(env, st, rest_of):
    """txt += <f-string of SUMMARY_TEMPLATES> / <constant of SUMMARY_CONSTANTS>: the items the text contains"""
    p = env.path
    if not (isinstance(st.op, ast.Add) and is_name(st.target) and env.vars.get(st.target.id) == tlist(SITEM)):
        fail(p, st, "augmented assignment " + text_of(st)[:60])
    x = st.target.id
    v = st.value
    if is_str(v):
        if v.value not in SUMMARY_CONSTANTS:
            fail(p, st, f"string constant {v.value!r} is not in the table SUMMARY_CONSTANTS")
        return rest_of(env)
    if not isinstance(v, ast.JoinedStr):
        fail(p, st, "augmented assignment " + text_of(st)[:60])
    tpl, holes = template_of(env, v)
    if tpl not in SUMMARY_TEMPLATES:
        fail(p, st, f"f-string template {tpl!r} is not in the table SUMMARY_TEMPLATES")
    tys, build = SUMMARY_TEMPLATES[tpl]
    parts = [typed(env, st, h, ty) for h, ty in zip(holes, tys)]
    out, pure = seq(env, parts, lambda *a: f"({x} ++ {build(a)})")
    return bind_var(env, x, st, out, tlist(SITEM), pure, rest_of)


def summary_print(env, st, rest):
    """print(txt) as the last statement: the function returns the items of txt"""
    v = st.value
    if rest or env.depth or v.keywords or len(v.args) != 1 or not is_name(v.args[0]) or env.vars.get(v.args[0].id) != tlist(SITEM) or not unbound(env, "print"):
        fail(env.path, st, "print call " + text_of(st)[:60])
    return f"(ret {v.args[0].id})"


def nested_def(env, st, rest_of):
    fail(env.path, st, "nested function " + st.name)


PRELUDE_C = r"""
(* ====================================================================== *)
(* PRELUDE, third part (fixed text): the printers                           *)
(* ====================================================================== *)
(* xs[-1]: IndexError on the empty list *)
Definition lst_last {A : Type} (xs : list A) : py A := match xs with [] => None | _ => nth_error xs (length xs - 1) end.
(* xs[-1].append(v) *)
Fixpoint append_last {A : Type} (xs : list (list A)) (v : A) : py (list (list A)) :=
  match xs with
  | [] => None
  | [x] => Some [x ++ [v]]
  | x :: r => bind (append_last r v) (fun r' => ret (x :: r'))
  end.
(* sorted(values) for ints (stable insertion sort: the order of equal ints is not observable) *)
Fixpoint z_insert (x : Z) (l : list Z) : list Z :=
  match l with [] => [x] | y :: r => if Z.leb x y then x :: l else y :: z_insert x r end.
Definition z_sorted (l : list Z) : list Z := fold_right z_insert [] l.
(* str(i) for an int *)
Definition py_str_z (z : Z) : string := string_of_Z z.
(* sep.join(l) for a list of str *)
Definition texts_join (sep : string) (l : list string) : string := join sep l.
(* {k: v}[k], `k in d`, d[k] = v for a dict with int keys (block ids): a later equal key overwrites, keeping its position *)
Fixpoint dict_get {V : Type} (d : list (nat * V)) (k : nat) : py V :=
  match d with [] => None | (k', v) :: r => if Nat.eqb k' k then Some v else dict_get r k end.
Definition dict_mem {V : Type} (d : list (nat * V)) (k : nat) : bool := existsb (fun kv => Nat.eqb (fst kv) k) d.
Fixpoint dict_set_nat {V : Type} (d : list (nat * V)) (k : nat) (v : V) : list (nat * V) :=
  match d with
  | [] => [(k, v)]
  | (k', v') :: r => if Nat.eqb k' k then (k', v) :: r else (k', v') :: dict_set_nat r k v
  end.

(* ---- printers/human_summary.py: what the text of the summary contains, in order (table SUMMARY_TEMPLATES of
   tools/translate_report.py: the exact template text is the fingerprint)
     'Program version: {0}
'          [SumVersion {0}]          'Mode: {0}
'                  [SumMode {0}]   (str(teal.mode))
     'Number of basic blocks: {0}
'   [SumBlocks {0}]           'Number of instructions: {0}
' [SumInstructions {0}]
     'Number of subroutines: {0}
'    [SumSubroutines {0}]      '	{0}
'                      [SumSubName {0}]
     '		"{0}"
'                     [SumSubBlocks {0}]        ({0} = ", ".join(repr(bi) ..), repr(bi) = "B<idx>": the ids)
   the constants "
", "Subroutines:
" contain no item. *)
Inductive summary_item :=
| SumVersion (v : nat) | SumMode (m : xmode) | SumBlocks (n : nat) | SumInstructions (n : nat) | SumSubroutines (n : nat)
| SumSubName (name : string) | SumSubBlocks (ids : list nat).
"""

PRELUDE_TC = r"""
Section TransactionContext.
  (* function = list(self.teal.functions.values())[0]: its graph and the result of the analysis (as in Gen/GroupGen.v)
       function.blocks                     the ids of fn_blocks f      (BasicBlock = its idx)
       function.transaction_context(bi)    ctx_of r bi KSelf           (Function.transaction_context = self._transaction_contexts[block])
       ctx.group_indices / ctx.group_sizes ctx_group_indices / ctx_group_sizes (plain attributes of BlockTransactionContext) *)
  Variable f : func.
  Variable r : fn_result.
  Definition function_blocks : list nat := map b_idx (fn_blocks f).
  Definition function_context (bi : nat) : py bctx := ret (Detect.ctx_of r bi KSelf).
  Definition attr_group_indices (c : bctx) : list Z := ctx_group_indices c.
  Definition attr_group_sizes (c : bctx) : list Z := ctx_group_sizes c.
"""

PRELUDE_HS = r"""
Section HumanSummary.
  (* self.teal *)
  Variable t : Cfg.teal.
  Definition attr_version : nat := N.to_nat (t_version t).
  Definition attr_mode : xmode := t_mode t.
  Definition attr_bbs : list nat := map b_idx (t_blocks t).
  (* teal.instructions: the instruction list parse_teal passes to Teal(..), from which it has removed the instructions of
     the unreachable blocks (Cfg.t_retained_ins: the positions kept; Gen/CfgGen.v) *)
  Definition attr_teal_instructions : list nat := t_retained_ins t.
  (* teal.subroutines: the dict name -> Subroutine, in insertion order (parse_teal: subroutines[name] = Subroutine(name, ..)) *)
  Definition attr_subroutines_items : list (string * Cfg.subroutine) := map (fun s => (s_name s, s)) (t_subs t).
  Definition attr_subroutine_names : list string := map s_name (t_subs t).
  Definition sub_lookup (name : string) : py Cfg.subroutine := find (fun s => String.eqb (s_name s) name) (t_subs t).
  Definition attr_sub_blocks (s : Cfg.subroutine) : list nat := s_blocks s.
"""

TC_PRINT_REST = [
    "filename = Path('transaction-context.dot')",
    "dest = ROOT_OUTPUT_DIRECTORY / Path(self.teal.contract_name) / Path(f'print-{self.NAME}')",
    "os.makedirs(dest, exist_ok=True)",
    "filename = dest / filename",
    "function = list(self.teal.functions.values())[0]",
    None,  # contexts = {..}
    None,  # def get_info
    "config = CFGDotConfig()",
    "config.bb_additional_comments = get_info",
    "full_cfg_to_dot(self.teal, config, filename)",
    "all_subroutines_to_dot(self.teal, dest, config, 'txn_ctx')",
    "print(f'\\nExported CFG with transaction context information to {filename}')",
]


def emit_printers(w):
    n = 0
    w(PRELUDE_C.rstrip("\n"))
    # ---- printers/transaction_context.py
    tp = os.path.join(T, TC_REL)
    ttree = parse(tp)
    timports = bound_names(ttree)
    need_imports(tp, timports, {"AbstractPrinter": "tealer.printers.abstract_printer.AbstractPrinter", "CFGDotConfig": "tealer.utils.output.CFGDotConfig", "full_cfg_to_dot": "tealer.utils.output.full_cfg_to_dot"})
    cls = find_class(ttree, "PrinterTransactionContext", tp)
    if [text_of(b) for b in cls.bases] != ["AbstractPrinter"] or cls.keywords or cls.decorator_list:
        fail(tp, cls, "bases of PrinterTransactionContext")
    cp = os.path.join(T, CTX_REL)
    ccls = find_class(parse(cp), "BlockTransactionContext", cp)
    for m in ccls.body:
        if isinstance(m, ast.FunctionDef) and m.name in ("group_indices", "group_sizes"):
            fail(cp, m, "group_indices / group_sizes are no longer plain attributes of BlockTransactionContext")
    fp = os.path.join(T, FUN_REL)
    fcls = find_class(parse(fp), "Function", fp)
    for name, text in (
        ("blocks", "@property\ndef blocks(self) -> List['BasicBlock']:\n    return self._blocks"),
        ("transaction_context", "def transaction_context(self, block: 'BasicBlock') -> 'BlockTransactionContext':\n    return self._transaction_contexts[block]"),
    ):
        if not same_text(ast.parse(member_text(member(fp, fcls, name))), text):
            fail(fp, fcls, f"Function.{name} changed (glue table of Gen/ReportGen.v)")
    fn = find_method(tp, cls, "_repr_num_list")
    check_signature(tp, fn, [("values", "List[int]", None, None)], "str", ["staticmethod"])
    w("(* printers/transaction_context.py: PrinterTransactionContext._repr_num_list (line %d) *)" % fn.lineno)
    L2 = []
    emit_function(L2.append, tp, fn, "repr_num_list_gen", [("values", "list Z")], {"values": tlist(ZINT)}, TEXT, timports, cls="PrinterTransactionContext")
    w("\n".join(l[2:] if l.startswith("  ") else l for l in "\n".join(L2).split("\n")))
    n += 1
    w(PRELUDE_TC.strip("\n"))
    w("")
    pr = find_method(tp, cls, "print")
    check_signature(tp, pr, [("self", None, None, None)], "None")
    body = strip_doc(pr.body)
    if len(body) != len(TC_PRINT_REST):
        fail(tp, pr, "PrinterTransactionContext.print changed")
    for st, text in zip(body, TC_PRINT_REST):
        if text is not None and not same_text(st, text):
            fail(tp, st, "PrinterTransactionContext.print changed: expected `" + text + "`")
    ctxs, gi = body[5], body[6]
    if not (isinstance(ctxs, ast.Assign) and len(ctxs.targets) == 1 and is_name(ctxs.targets[0], "contexts") and isinstance(ctxs.value, ast.DictComp)):
        fail(tp, ctxs, "the statement `contexts = {..}` of PrinterTransactionContext.print")
    if not (isinstance(gi, ast.FunctionDef) and gi.name == "get_info" and not gi.decorator_list and [a.arg for a in gi.args.args] == ["bb"] and not gi.args.defaults):
        fail(tp, gi, "the closure get_info of PrinterTransactionContext.print")
    if sum(1 for x in ast.walk(pr) if isinstance(x, ast.Name) and x.id == "contexts" and isinstance(x.ctx, ast.Store)) != 1:
        fail(tp, pr, "contexts is re-assigned")
    emit_function(
        w, tp, pr, "get_info_gen", [("bb", "nat")], {"bb": BLK, "function_v": "glue"}, tlist(TEXT), timports, cls="PrinterTransactionContext",
        fname="get_info", stmts=[ctxs] + gi.body,
        comment=f"{TC_REL}: PrinterTransactionContext.print (line {pr.lineno}): the value of get_info(bb), `contexts` being the dict of line {ctxs.lineno}",
    )
    n += 1
    w("End TransactionContext.")
    # ---- printers/human_summary.py
    hp = os.path.join(T, HS_REL)
    htree = parse(hp)
    himports = bound_names(htree)
    need_imports(hp, himports, {"AbstractPrinter": "tealer.printers.abstract_printer.AbstractPrinter"})
    hcls = find_class(htree, "PrinterHumanSummary", hp)
    if [text_of(b) for b in hcls.bases] != ["AbstractPrinter"] or hcls.keywords or hcls.decorator_list:
        fail(hp, hcls, "bases of PrinterHumanSummary")
    ap = os.path.join(T, AP_REL)
    init = find_method(ap, find_class(parse(ap), "AbstractPrinter", ap), "__init__")
    if not same_text(strip_doc(init.body)[0], "self.teal = teal") or [x.arg for x in init.args.args] != ["self", "teal"]:
        fail(ap, init, "AbstractPrinter.__init__ no longer starts with self.teal = teal")
    hpr = find_method(hp, hcls, "print")
    check_signature(hp, hpr, [("self", None, None, None)], "None")
    w(PRELUDE_HS.rstrip("\n"))
    w("")
    emit_function(w, hp, hpr, "summary_gen", [], {}, tlist(SITEM), himports, cls="PrinterHumanSummary", comment=f"{HS_REL}: PrinterHumanSummary.print (line {hpr.lineno}); returns the items of the printed text")
    n += 1
    w("End HumanSummary.")
    return n


def main():
    outdir = sys.argv[1] if len(sys.argv) > 1 else os.path.join(os.path.dirname(os.path.abspath(__file__)), "..", "coq", "Gen")
    try:
        n = emit_report(outdir)
    except TranslateError as e:
        print(str(e))
        sys.exit(2)
    print(f"translate_report: {n} report functions -> {outdir}/ReportGen.v")


if __name__ == "__main__":
    main()
