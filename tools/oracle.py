"""Property oracle used by the violation search: evaluates properties C01, C06-C10 *directly on the
implementation's output* with the concrete interpreter (tools/avm.py) over sampled region representatives."""
import re

import avm

MTC = 272000
MAXU = 2**64 - 1
FRESH = "FRESHATTACKERADDRESS"

ADDR_KEYS = {"RekeyTo": "RekeyTo", "CloseRemainderTo": "CloseRemainderTo", "AssetCloseTo": "AssetCloseTo", "Sender": "Sender"}


def program_constants(text):
    ints = set()
    addrs = set()
    for line in text.split("\n"):
        t = avm.tokenize(line)
        if not t:
            continue
        if t[0] in ("int", "pushint") and len(t) > 1:
            try:
                ints.add(avm.named_int(t[1]))
            except ValueError:
                pass
        if t[0] == "intcblock":
            for x in t[1:]:
                ints.add(avm.parse_int(x))
        if t[0] == "addr":
            addrs.add(t[1])
    return ints, addrs


def make_envs(text, rng, n):
    ints, addrs = program_constants(text)
    fee_vals = sorted({0, 1000, MTC, MTC + 1, MAXU} | {max(0, c - 1) for c in ints} | set(ints) | {min(MAXU, c + 1) for c in ints})
    addr_vals = [avm.ZERO, "CREATOR", FRESH] + sorted(addrs)
    envs = []
    for _ in range(n):
        size = rng.choice([1, 1, 2, 2, 3, 4, 8, 15, 16, 16]) if rng.random() < 0.7 else rng.randrange(1, 17)
        group = []
        for i in range(size):
            txn = {"_index": i}
            txn["Fee"] = rng.choice(fee_vals)
            for f in ("RekeyTo", "CloseRemainderTo", "AssetCloseTo"):
                txn[f] = ("addr", rng.choice(addr_vals) if rng.random() < 0.7 else avm.ZERO)
            txn["Sender"] = ("addr", rng.choice(addr_vals[1:]))
            txn["Receiver"] = ("addr", rng.choice(addr_vals[1:]))
            txn["TypeEnum"] = rng.randrange(1, 7)
            txn["OnCompletion"] = rng.randrange(0, 6) if txn["TypeEnum"] == 6 else 0
            txn["ApplicationID"] = rng.choice([0, 7]) if txn["TypeEnum"] == 6 else 0
            txn["Amount"] = rng.choice([0, 5, 1000])
            txn["NumAppArgs"] = rng.randrange(0, 3)
            txn["FirstValid"] = rng.choice([1, 10])
            txn["LastValid"] = rng.choice([5, 10, 20])
            group.append(txn)
        envs.append({"group": group, "index": rng.randrange(0, size), "creator": "CREATOR"})
    # directed part: a program that looks at the kind of a transaction is run on EVERY kind valuation
    # (TypeEnum, OnCompletion, ApplicationID) of the governed transaction and of every other member, on copies of the
    # sampled groups (no further draw from rng: the sampled part above stays the same stream)
    if envs and re.search(r"\b(TypeEnum|OnCompletion|ApplicationID)\b", text):
        triples = [(t, 0, 0) for t in range(1, 6)] + [(6, oc, app) for oc in range(0, 6) for app in (0, 7)]
        base = len(envs)
        for k, (ty, oc, app) in enumerate(triples):
            src = envs[k % base]
            group = [dict(t) for t in src["group"]]
            for t in group:
                t["TypeEnum"], t["OnCompletion"], t["ApplicationID"] = ty, oc, app
            envs.append({"group": group, "index": src["index"], "creator": src["creator"]})
    return envs


def addr_name(v):
    """name under which tealer lists a concrete address"""
    if v == "CREATOR":
        return "CREATOR_ADDRESS"
    return v


def parse_addr(s):
    flags, lst = s.split(":", 1)
    return "A" in flags, "N" in flags, set(x for x in lst.split(",") if x)


def ctx_get(ctx, key, default):
    return ctx.get(key, default)


def admits_addr(ctxs, key, value):
    """ctx value for an address key admits the concrete non-zero address `value`"""
    s = ctxs.get(key, "A:")
    anyf, _nof, lst = parse_addr(s)
    if anyf:
        return True
    return addr_name(value) in lst


ALL_TYPES = "Acfg,Appl,ApplClearState,ApplCloseOut,ApplCreation,ApplDeleteApplication,ApplNoOp,ApplOptIn,ApplUpdateApplication,Axfer,KeyReg,Pay"


def appid_zero_pattern(text):
    """known finding D16 concerns the ApplicationID patterns the tool INTERPRETS: a comparison with the constant 0 and the bare
    use of the field as a condition.  A comparison of ApplicationID with a NON-ZERO literal carries no kind information for
    the tool (and must not: `ApplicationID != 7` says nothing about creation).  True iff some ApplicationID read of the
    program is not visibly such a non-zero comparison (then the coarse D16 mask applies)."""
    lines = [l.split("//")[0].strip() for l in text.split("\n")]
    lines = [l for l in lines if l]

    def nonzero_push(l):
        m = re.match(r"^(int|pushint)\s+(0x[0-9a-fA-F]+|\d+)$", l)
        if not m:
            return False
        try:
            return avm.parse_int(m.group(2)) != 0
        except Exception:  # pylint: disable=broad-except
            return False
    for k, l in enumerate(lines):
        if re.search(r"\bApplicationID\b", l):
            nxt = lines[k + 1] if k + 1 < len(lines) else ""
            prv = lines[k - 1] if k > 0 else ""
            cmp_after = lines[k + 2] if k + 2 < len(lines) else ""
            std = nonzero_push(nxt) and cmp_after in ("==", "!=")
            swp = nonzero_push(prv) and nxt in ("==", "!=")
            if not (std or swp):
                return True
    return False


def relevant_labels(txn):
    out = []
    if txn["TypeEnum"] == 1:
        out.append("Pay")
    if txn["TypeEnum"] == 4:
        out.append("Axfer")
    if txn["TypeEnum"] == 6 and txn["OnCompletion"] == 4:
        out.append("ApplUpdateApplication")
    if txn["TypeEnum"] == 6 and txn["OnCompletion"] == 5:
        out.append("ApplDeleteApplication")
    return out


def check_txn_against(ctxs, fam, txn, text, viol, where, props, masks=True):
    """the context family `fam` (self / atI / absI / relK) must admit the field values of txn"""
    # C09 / C10 fee
    fee = ctxs.get(fam + ":Fee", str(MAXU))
    if fee != "unk" and txn["Fee"] > int(fee):
        viol.append((props["fee"], f"{where}: {fam}:Fee bound {fee} < approved fee {txn['Fee']}"))
    # C08 / C10 addresses
    runtime_cmp = bool(re.search(r"^\s*(txn|gtxn \d+|gtxns) (Receiver|Sender)\s*$", text, re.M)) and False
    for f in ADDR_KEYS:
        v = txn[f][1]
        if v == avm.ZERO:
            continue
        if not admits_addr(ctxs, fam + ":" + f, v):
            viol.append((props["addr"], f"{where}: {fam}:{f} = {ctxs.get(fam + ':' + f)} does not admit approved address {v}"))
    # C07 / C10 kinds (with the D16 masks)
    ts = set(ctxs.get(fam + ":TransactionType", ALL_TYPES).split(",")) if ctxs.get(fam + ":TransactionType", ALL_TYPES) else set()
    for lab in relevant_labels(txn):
        if masks and lab in ("Pay", "Axfer") and (re.search(r"\bOnCompletion\b", text) or appid_zero_pattern(text)):
            continue  # known finding D16: OnCompletion/ApplicationID comparisons drop Pay/Axfer
        if masks and lab.startswith("Appl") and (re.search(r"\bTypeEnum\b", text) or appid_zero_pattern(text)):
            continue  # known finding D16: TypeEnum/ApplicationID comparisons drop Appl<OnCompletion> labels
        if lab not in ts:
            viol.append((props["type"], f"{where}: {fam}:TransactionType = {sorted(ts)} lacks {lab} of an approved transaction"))


def check_program(text, impl, envs, masks=True, path_prefix=None):
    """returns (violations, stats). impl: implementation's analyze JSON for `text`.
    path_prefix (list of block ids): only the approved executions whose block sequence STARTS WITH that path are judged
    (C12: the contexts of a function cut out by a dispatch path speak about exactly those executions)."""
    viol = []
    stats = {"envs": 0, "approved": 0, "unsupported": 0, "facts": 0}
    if "err" in impl or "ctx" not in impl:
        return viol, stats
    try:
        prog = avm.Program(text)
    except Exception:  # pylint: disable=broad-except
        stats["unsupported"] += 1
        return viol, stats
    line_block = {}
    for b in impl["blocks"]:
        for ln in b["lines"]:
            line_block[ln] = b["idx"]
    abs_blocks = set()
    for b in impl["blocks"]:
        for s in b["ins"]:
            if re.match(r"^(gtxn|gtxna|Gtxnas|gtxnas) ", s):
                abs_blocks.add(b["idx"])
        ins = b["ins"]
        for k, s in enumerate(ins):
            if re.match(r"^(Gtxns|gtxns|Gtxnsa|gtxnsa|gtxnsas) ", s) and k > 0 and re.match(r"^(int|pushint|intc)", ins[k - 1]):
                abs_blocks.add(b["idx"])
    seen_viol = set()
    for env in envs:
        stats["envs"] += 1
        try:
            ok, trace = avm.run(prog, env)
        except avm.Unsupported:
            stats["unsupported"] += 1
            continue
        except (KeyError, IndexError, ValueError):
            stats["unsupported"] += 1
            continue
        if not ok:
            continue
        stats["approved"] += 1
        blocks = []
        for ln in trace:
            b = line_block.get(ln)
            if b is not None and (not blocks or blocks[-1] != b):
                blocks.append(b)
        if path_prefix is not None and blocks[:len(path_prefix)] != list(path_prefix):
            continue
        # known finding D27: an execution that starts with the path and later RE-ENTERS a path block before the last one
        # leaves it through a successor that the cut replaced by an error block; such executions are lost by the cut
        # function (recorded, replayed by its own entry) and are not judged here
        if path_prefix is not None and masks and any(b in list(path_prefix)[:-1] for b in blocks[len(path_prefix):]):
            continue
        stats["on_path"] = stats.get("on_path", 0) + 1
        group = env["group"]
        i = env["index"]
        me = group[i]
        size = len(group)
        v = []
        # C09, second clause: a block is credited with a bound (here: 'bounded by something the tool cannot evaluate') only if a
        # comparison of Fee constrains EVERY accepting path through it -- an approved execution that never even reads the Fee
        # field is constrained by none
        fee_lines = {n for n, l in enumerate(text.split("\n"), start=1) if re.search(r"\b(txn|gtxn \d+|gtxns) Fee\b", l)}
        if not (set(trace) & fee_lines):
            for b in dict.fromkeys(blocks):
                cx = impl["ctx"].get(str(b)) or {}
                if cx.get("self:Fee") == "unk":
                    v.append(("C09", f"block {b}: credited with an (unknown) fee bound although the approved execution {blocks} never reads the Fee field"))
                    break
        for b in dict.fromkeys(blocks):
            ctxs = impl["ctx"].get(str(b))
            if ctxs is None:
                v.append(("C04", f"approved execution visits line of block {b} which is not in the function"))
                continue
            where = f"block {b}"
            sizes = ctxs.get("self:GroupSize", "")
            idxs = ctxs.get("self:GroupIndex", "")
            stats["facts"] += 2
            if str(size) not in sizes.split(","):
                v.append(("C06", f"{where}: group sizes [{sizes}] lack approved size {size}"))
            if str(i) not in idxs.split(","):
                v.append(("C06", f"{where}: group indices [{idxs}] lack approved index {i}"))
            check_txn_against(ctxs, "self", me, text, v, where, {"fee": "C09", "addr": "C08", "type": "C07"}, masks)
            check_txn_against(ctxs, f"at{i}", me, text, v, where + f" gtxn_context({i})", {"fee": "C10", "addr": "C10", "type": "C10"}, masks)
            for j in range(size):
                check_txn_against(ctxs, f"abs{j}", group[j], text, v, where + f" absolute_context({j})", {"fee": "C10", "addr": "C10", "type": "C10"}, masks)
            for k in range(-15, 16):
                if k != 0 and 0 <= i + k < size:
                    check_txn_against(ctxs, f"rel{k}", group[i + k], text, v, where + f" relative_context({k})", {"fee": "C10", "addr": "C10", "type": "C10"}, masks)
            stats["facts"] += 3 * (1 + 1 + size)
        # C01: detectors
        paths = impl.get("paths", {})

        def silent(d):
            return isinstance(paths.get(d), list) and len(paths[d]) == 0

        t = me["TypeEnum"]
        if me["RekeyTo"][1] == FRESH and silent("rekey-to"):
            v.append(("C01", "rekey-to silent although a group with RekeyTo = fresh address is approved"))
        if me["CloseRemainderTo"][1] == FRESH and t == 1 and silent("can-close-account") and not (masks and re.search(r"\b(OnCompletion|ApplicationID)\b", text)):
            v.append(("C01", "can-close-account silent although a pay with CloseRemainderTo = fresh address is approved"))
        if me["AssetCloseTo"][1] == FRESH and t == 4 and silent("can-close-asset") and not (masks and re.search(r"\b(OnCompletion|ApplicationID)\b", text)):
            v.append(("C01", "can-close-asset silent although an axfer with AssetCloseTo = fresh address is approved"))
        if me["Fee"] > MTC and silent("missing-fee-check"):
            v.append(("C01", f"missing-fee-check silent although Fee = {me['Fee']} is approved"))
        d16 = masks and re.search(r"\b(TypeEnum|ApplicationID)\b", text)
        if t == 6 and me["OnCompletion"] == 4 and not d16:
            if silent("is-updatable"):
                v.append(("C01", "is-updatable silent although an UpdateApplication call is approved"))
            if me["Sender"][1] == FRESH and silent("unprotected-updatable"):
                v.append(("C01", "unprotected-updatable silent although an UpdateApplication call from a fresh sender is approved"))
        if t == 6 and me["OnCompletion"] == 5 and not d16:
            if silent("is-deletable"):
                v.append(("C01", "is-deletable silent although a DeleteApplication call is approved"))
            if me["Sender"][1] == FRESH and silent("unprotected-deletable"):
                v.append(("C01", "unprotected-deletable silent although a DeleteApplication call from a fresh sender is approved"))
        # known finding D21: an absolute-index read that only lies on a cycle (loop body / repeated call) is cut
        # away by the per-activation loop cut, so only acyclic block traces are judged here
        if size == 16 and (len(set(blocks)) == len(blocks) or not masks) and any(b in abs_blocks for b in blocks) and silent("group-size-check"):
            v.append(("C01", "group-size-check silent although a group of 16 reading by absolute index is approved"))
        stats["facts"] += 9
        for pid, msg in v:
            if (pid, msg) not in seen_viol:
                seen_viol.add((pid, msg))
                viol.append({"property": pid, "what": msg, "env": env, "trace_blocks": blocks})
    return viol, stats
