#!/bin/bash
# confirm a seeded change in a scratch worktree: demo passes on original, fails with change, suite stays green
name=$1
d=/verif/seeded/$name
w=/tmp/cs/$name
rm -rf $w; mkdir -p /tmp/cs
git -C /repo worktree add -q --detach $w HEAD || exit 2
{
echo "== demo on original tree"
(cd $w && PYTHONPATH=$w timeout 900 /venv/bin/python $d/demo.py > /tmp/cs/$name.orig.out 2>&1; echo "exit=$?"; tail -2 /tmp/cs/$name.orig.out)
git -C $w apply $d/patch.diff && echo "== patch applied"
echo "== demo on changed tree"
(cd $w && PYTHONPATH=$w timeout 900 /venv/bin/python $d/demo.py > /tmp/cs/$name.chg.out 2>&1; echo "exit=$?"; tail -2 /tmp/cs/$name.chg.out)
echo "== suite on changed tree"
(cd $w && PYTHONPATH=$w timeout 2400 /venv/bin/python -m pytest -q -p no:cacheprovider --timeout=900 -n 10 2>&1 | tail -2)
} > $d/confirm.log 2>&1
git -C /repo worktree remove --force $w
rm -f /tmp/cs/$name.*.out
