"""Seeded generators of TEAL programs for the correspondence check and the violation search.

Three streams (DESIGN 2.2): enumerated micro-programs, structured random programs, adversarial layouts.
Every random choice comes from one random.Random(seed)."""
import random

ADDRS = [
    "AAAAAAAAAAAAAAAAAAAAAAAAAAAAAAAAAAAAAAAAAAAAAAAAAAAAY5HFKQ",  # zero address
    "OWQEGN2AZIA77YIE7YZEZLUN2JKVRUCTSFY3U3YH7PXWIDIQIPRA4IUKII",
    "7Z5PWO2C6LFNQFGHWKSK5H47IQP5OJW2M3HA2QPXTY3WTNP5NU2MHBW27M",
    "6ZHGHH5Z5CTPCF5WCESXMGRSVK7QJETR63M3NY5FJCUYDHO57VTCMJOBGY",
]
FEE_CONSTS = [0, 1, 999, 1000, 1001, 2000, 271999, 272000, 272001, 1000000, 2**64 - 1]
CMPS = ["==", "!=", "<", "<=", ">", ">="]
TYPE_NAMES = ["pay", "keyreg", "acfg", "axfer", "afrz", "appl"]
OC_NAMES = ["NoOp", "OptIn", "CloseOut", "ClearState", "UpdateApplication", "DeleteApplication"]
ADDR_FIELDS = ["RekeyTo", "CloseRemainderTo", "AssetCloseTo", "Sender"]


class G:
    def __init__(self, rng, version=None, intc=None, kf_free=False):
        # kf_free: avoid the shapes listed in known_findings.json and the comparisons with run-time values the
        # properties exclude, so that the property oracle can be applied without masks
        self.kf_free = kf_free
        self.r = rng
        self.version = version if version is not None else rng.choice([4, 5, 6, 6, 7, 8, 8])
        self.lab = 0
        # intcblock constants (entry block) when the program uses intc spellings
        self.intcs = intc
        self.features = set()
        self.subs = []  # names of subroutines that may be called

    def label(self, p="l"):
        self.lab += 1
        return f"{p}{self.lab}"

    # ---------------------------------------------------------------- integer spellings
    def int_push(self, v, allow_named=None):
        r = self.r
        if allow_named is not None and r.random() < 0.4:
            self.features.add("named-const")
            return [f"int {allow_named}"]
        if self.intcs is not None and v in self.intcs and r.random() < 0.6:
            k = self.intcs.index(v)
            self.features.add("intc")
            if k < 4 and r.random() < 0.7:
                return [f"intc_{k}"]
            return [f"intc {k}"]
        c = r.random()
        if c < 0.15:
            self.features.add("pushint")
            return [f"pushint {v}"]
        if c < 0.25:
            self.features.add("hex-int")
            return [f"int 0x{v:x}"]
        if c < 0.30 and v > 0:
            self.features.add("oct-int")
            return [f"int 0{v:o}"]
        return [f"int {v}"]

    # ---------------------------------------------------------------- field reads
    def read(self, fld):
        """read `fld` of own / other transaction; returns (lines, how)"""
        r = self.r
        c = r.random()
        if c < 0.55:
            return [f"txn {fld}"], "self"
        i = r.randrange(0, 16) if r.random() < 0.8 else r.randrange(0, 4)
        if c < 0.72:
            self.features.add("gtxn")
            return [f"gtxn {i} {fld}"], f"abs{i}"
        if c < 0.82:
            self.features.add("gtxns-abs")
            return self.int_push(i) + [f"gtxns {fld}"], f"abs{i}"
        k = r.randrange(1, 4)
        self.features.add("gtxns-rel")
        if c < 0.90:
            return ["txn GroupIndex"] + self.int_push(k) + ["+", f"gtxns {fld}"], f"rel{k}"
        if c < 0.95:
            return self.int_push(k) + ["txn GroupIndex", "+", f"gtxns {fld}"], f"rel{k}"
        return ["txn GroupIndex"] + self.int_push(k) + ["-", f"gtxns {fld}"], f"rel-{k}"

    # ---------------------------------------------------------------- atomic conditions (push one value)
    def atom(self, kind=None):
        r = self.r
        kind = kind or r.choice(["fee", "addr", "addr", "type", "oc", "appid", "gsize", "gindex", "unknown", "unknown"])
        self.features.add("cond-" + kind)
        swap = r.random() < 0.35
        if swap:
            self.features.add("operand-swapped")
        if kind == "fee":
            a, _ = self.read("Fee")
            c = r.choice(FEE_CONSTS)
            b = self.int_push(c) if (r.random() < 0.9 or self.kf_free) else ["global MinTxnFee"]
            op = r.choice(CMPS)
            return (b + a if swap else a + b) + [op]
        if kind == "addr":
            f = r.choice(ADDR_FIELDS)
            a, _ = self.read(f)
            c = r.random()
            if c < 0.5:
                b = ["global ZeroAddress"]
            elif c < 0.75:
                b = [f"addr {r.choice(ADDRS)}"]
            elif c < 0.9 or self.kf_free:
                b = ["global CreatorAddress"]
            else:
                b = [f"txn {r.choice(['Receiver', 'Sender'])}"]
                self.features.add("addr-runtime-comparand")
            op = r.choice(["==", "==", "!=", "<"]) if r.random() < 0.95 else "=="
            if op == "<":
                op = "=="
            return (b + a if swap else a + b) + [op]
        if kind == "type":
            a, _ = self.read("TypeEnum")
            k = r.randrange(1, 7)
            b = self.int_push(k, allow_named=TYPE_NAMES[k - 1])
            return (b + a if swap else a + b) + [r.choice(["==", "!="])]
        if kind == "oc":
            a, _ = self.read("OnCompletion")
            k = r.randrange(0, 6)
            b = self.int_push(k, allow_named=OC_NAMES[k])
            return (b + a if swap else a + b) + [r.choice(["==", "!="])]
        if kind == "appid":
            a, _ = self.read("ApplicationID")
            c = r.random()
            if c < 0.3:
                return a
            if c < 0.45:
                return a + ["!"]
            b = self.int_push(0 if r.random() < 0.85 else 7)
            return (b + a if swap else a + b) + [r.choice(["==", "!="])]
        if kind == "gsize":
            n = r.choice([1, 2, 3, 4, 8, 15, 16, 17, 0])
            a = ["global GroupSize"]
            b = self.int_push(n)
            op = r.choice(CMPS)
            if self.kf_free and op not in ("==", "!="):
                swap = False  # D2: operand order of < <= > >= is ignored for GroupSize/GroupIndex
            return (b + a if swap else a + b) + [op]
        if kind == "gindex":
            n = r.choice([0, 1, 2, 3, 7, 14, 15, 16])
            a = ["txn GroupIndex"]
            b = self.int_push(n)
            op = r.choice(CMPS)
            if self.kf_free and op not in ("==", "!="):
                swap = False
            return (b + a if swap else a + b) + [op]
        # unknown / unrelated
        c = r.random()
        if c < 0.3:
            return ["txn Amount"] + self.int_push(r.choice([0, 5, 1000])) + [r.choice(CMPS)]
        if c < 0.5:
            return [f"load {r.randrange(0, 4)}"]
        if c < 0.7:
            return ['byte "a"', "txn Note", "=="]
        if c < 0.85:
            return ["txn NumAppArgs"] + self.int_push(r.randrange(0, 3)) + ["=="]
        return ["txn FirstValid", "txn LastValid", "<"]

    def cond(self, depth=None, kind=None):
        r = self.r
        if depth is None:
            depth = r.choice([0, 0, 0, 1, 1, 2])
        if depth == 0:
            return self.atom(kind)
        c = r.random()
        if c < 0.2:
            self.features.add("not")
            return self.cond(depth - 1, kind) + ["!"]
        op = "&&" if c < 0.65 else "||"
        self.features.add(op)
        return self.cond(depth - 1, kind) + self.cond(r.randrange(0, depth), None if r.random() < 0.7 else kind) + [op]

    # ---------------------------------------------------------------- statements (stack-neutral)
    def pad(self):
        r = self.r
        c = r.randrange(0, 8)
        return [
            ["int 1", "pop"],
            ['byte "x"', "pop"],
            ["int 1", "int 2", "+", "pop"],
            [f"load {r.randrange(0,4)}", f"store {r.randrange(0,4)}"],
            ["int 7", "dup", "pop", "pop"],
            ["int 1", "int 2", "swap", "pop", "pop"],
            ["txn Amount", "store 5"],
            ["int 3", "int 4", "dig 1", "pop", "pop", "pop"],
        ][c]

    def stmts(self, n, depth, in_sub=False, in_loop=False):
        out = []
        for _ in range(n):
            out += self.stmt(depth, in_sub, in_loop)
        return out

    def stmt(self, depth, in_sub, in_loop):
        r = self.r
        c = r.random()
        if c < 0.34:
            self.features.add("assert")
            return self.cond() + ["assert"]
        if c < 0.46:
            return self.pad()
        if c < 0.64 and depth > 0:
            return self.if_stmt(depth, in_sub, in_loop)
        if c < 0.67 and depth > 0 and self.version >= 4:
            return self.loop_stmt(depth, in_sub)
        if c < 0.70 and depth > 0 and self.version >= 4:
            return self.dowhile_stmt(depth, in_sub)
        if c < 0.84 and self.subs:
            self.features.add("callsub")
            # kf_free: never let a label follow a callsub directly (D3: return point that is a jump target)
            return [f"callsub {r.choice(self.subs)}"] + (["int 1", "pop"] if self.kf_free else [])
        if c < 0.88 and depth > 0 and self.version >= 8:
            return self.switch_stmt(depth, in_sub, in_loop)
        if c < 0.93:
            # early exit guarded by a condition
            self.features.add("early-exit")
            l = self.label("skip")
            if self.kf_free and in_sub:
                ex = r.choice([["err"], ["int 0", "return"]])  # D4: a subroutine that both returns and approves
            else:
                ex = r.choice([["err"], ["int 0", "return"], ["int 1", "return"], self.cond(0) + ["return"]])
            return self.cond() + [f"{r.choice(['bz', 'bnz'])} {l}"] + ex + [f"{l}:"]
        return self.cond() + ["assert"]

    def if_stmt(self, depth, in_sub, in_loop):
        r = self.r
        self.features.add("if")
        e, d = self.label("else"), self.label("end")
        then_b = self.stmts(r.randrange(0, 3), depth - 1, in_sub, in_loop)
        else_b = self.stmts(r.randrange(0, 3), depth - 1, in_sub, in_loop)
        c = self.cond()
        if r.random() < 0.5:
            return c + [f"bz {e}"] + then_b + [f"b {d}", f"{e}:"] + else_b + [f"{d}:"]
        return c + [f"bnz {e}"] + else_b + [f"b {d}", f"{e}:"] + then_b + [f"{d}:"]

    def loop_stmt(self, depth, in_sub):
        r = self.r
        self.features.add("loop")
        lo, dn = self.label("loop"), self.label("done")
        slot = r.randrange(10, 14)
        body = self.stmts(r.randrange(1, 3), depth - 1, in_sub, True)
        return (
            ["int 0", f"store {slot}", f"{lo}:", f"load {slot}", f"int {r.randrange(1,4)}", "<", f"bz {dn}"]
            + body
            + [f"load {slot}", "int 1", "+", f"store {slot}", f"b {lo}", f"{dn}:"]
        )

    def dowhile_stmt(self, depth, in_sub):
        """do-while: the back edge targets the first block of the body, which may end in a callsub, an assert, a branch ..."""
        r = self.r
        self.features.add("dowhile")
        lo = self.label("dw")
        slot = r.randrange(14, 18)
        first = []
        if self.subs and r.random() < 0.6:
            self.features.add("loop-head-callsub")
            first = [f"callsub {r.choice(self.subs)}"] + (["int 1", "pop"] if self.kf_free else [])
        body = first + self.stmts(r.randrange(0, 3), depth - 1, in_sub, True)
        return (["int 0", f"store {slot}", f"{lo}:"] + body
                + [f"load {slot}", "int 1", "+", f"store {slot}", f"load {slot}", f"int {r.randrange(1,4)}", "<", f"bnz {lo}"])

    def switch_stmt(self, depth, in_sub, in_loop):
        r = self.r
        self.features.add("switch")
        n = r.randrange(1, 4)
        labs = [self.label("case") for _ in range(n)]
        end = self.label("swend")
        out = ["txn NumAppArgs", "switch " + " ".join(labs)] if r.random() < 0.6 else ['byte "a"', 'byte "b"', "txna ApplicationArgs 0", "match " + " ".join(labs[:2])]
        if out[-1].startswith("match"):
            labs = labs[:2]
        out += self.stmts(r.randrange(0, 2), depth - 1, in_sub, in_loop) + [f"b {end}"]
        for l in labs:
            out += [f"{l}:"] + self.stmts(r.randrange(0, 2), depth - 1, in_sub, in_loop) + [f"b {end}"]
        out += [f"{end}:"]
        return out

    # ---------------------------------------------------------------- whole programs
    def program(self):
        r = self.r
        use_intc = r.random() < 0.3
        if use_intc:
            pool = [0, 1, 2, 3, 4, 5, 6, 1000, 272000, 272001, 16, 15]
            r.shuffle(pool)
            self.intcs = pool[: r.randrange(2, 8)]
        nsubs = r.choice([0, 0, 1, 1, 2, 3, 4]) if self.version >= 4 else 0
        names = [f"sub{i}" for i in range(nsubs)]
        # acyclic call order (sub i may call sub j>i), occasionally recursive
        bodies = {}
        for i in reversed(range(nsubs)):
            self.subs = names[i + 1 :]
            if r.random() < 0.08:
                self.subs = names[i:]  # allows recursion
                self.features.add("recursion-possible")
            b = self.stmts(r.randrange(1, 4), r.choice([0, 1, 1, 2]), in_sub=True)
            c = r.random()
            if c < 0.12 and not self.kf_free:
                self.features.add("sub-approves-internally")
                l = self.label("cont")
                b += self.cond() + [f"bz {l}", "int 1", "return", f"{l}:"]
            if c > 0.85:
                self.features.add("sub-multi-retsub")
                l = self.label("r")
                b = self.cond() + [f"bz {l}"] + self.stmts(1, 0, True) + ["retsub", f"{l}:"] + b
            bodies[names[i]] = [f"{names[i]}:"] + b + ["retsub"]
        self.subs = names
        main = self.stmts(r.randrange(1, 6), r.choice([0, 1, 2, 2, 3]))
        endc = r.random()
        if endc < 0.75:
            main += ["int 1", "return"]
        elif endc < 0.9:
            main += self.cond() + ["return"]
            self.features.add("return-cond")
        else:
            l = self.label("ok")
            main += self.cond() + [f"bnz {l}", "err", f"{l}:", "int 1", "return"]
        head = [f"#pragma version {self.version}"]
        if self.intcs is not None:
            head.append("intcblock " + " ".join(str(x) for x in self.intcs))
        sub_lines = []
        order = list(names)
        r.shuffle(order)
        for n in order:
            sub_lines += bodies[n]
        if nsubs and r.random() < 0.25:
            self.features.add("subs-before-main")
            return head + ["b main_start"] + sub_lines + ["main_start:"] + main
        return head + main + sub_lines


BOTTOM_GUARDS = [
    (["txn RekeyTo", "global ZeroAddress", "=="], "bnz"), (["txn Fee", "int 1000", ">"], "bz"),
    (["txn CloseRemainderTo", "global ZeroAddress", "!="], "bz"), (["global GroupSize", "int 3", "=="], "bnz"),
    (["txn AssetCloseTo", "global ZeroAddress", "==", "txn Fee", "int 2000", "<=", "&&"], "bnz"),
    (["txn Sender", "global CreatorAddress", "==", "!"], "bz"),
]


def random_program(rng, kf_free=False):
    text, feats = random_program_plain(rng, kf_free)
    if rng.random() < 0.08:
        # layout variant: the first check of the contract sits at the BOTTOM of the file and its conditional branch,
        # the last instruction of the program, jumps back up to the rest of the code
        lines = text.split("\n")
        head, body = (lines[:1], lines[1:]) if lines and lines[0].startswith("#pragma") else ([], lines)
        if body and not body[0].startswith("intcblock"):
            cond, br = rng.choice(BOTTOM_GUARDS)
            text = "\n".join(head + ["b bottom_guard", "after_guard:"] + body + ["bottom_guard:"] + cond + [f"{br} after_guard"])
            feats = sorted(set(feats) | {"bottom-guard"})
    if rng.random() < 0.06:
        # the contract accepts exactly two (three) own indices, one below 8 and one at or above 8
        lines = text.split("\n")
        k = 1 if lines and lines[0].startswith("#pragma") else 0
        if k < len(lines) and lines[k].startswith("intcblock"):
            k += 1
        a, b = rng.randrange(0, 8), rng.randrange(8, 16)
        pre = ["txn GroupIndex", f"int {a}", "==", "txn GroupIndex", f"int {b}", "==", "||"]
        if rng.random() < 0.3:
            pre += ["txn GroupIndex", f"int {rng.randrange(0, 16)}", "==", "||"]
        text = "\n".join(lines[:k] + pre + ["assert"] + lines[k:])
        feats = sorted(set(feats) | {"index-alternatives"})
    return text, feats


def random_program_plain(rng, kf_free=False):
    g = G(rng, kf_free=kf_free)
    lines = g.program()
    return "\n".join(lines), sorted(g.features)


def decorate(rng, text):
    """whitespace / comment variation that must not change anything (kept out of the default stream)"""
    out = []
    for l in text.split("\n"):
        c = rng.random()
        if c < 0.1:
            out.append("// comment")
        if c < 0.2 and not l.startswith("#pragma"):
            out.append("    " + l + "   // trailing")
        elif c < 0.3:
            out.append("\t" + l)
        else:
            out.append(l)
        if rng.random() < 0.05:
            out.append("")
    return "\n".join(out)


# ------------------------------------------------------------------ enumerated micro-programs

def micro_programs():
    """deterministic grid: comparison operator x operand order x negation depth x consumer x constants"""
    out = []

    def emit(name, cond_lines, ver=6, extra_head=None):
        for consumer in ("assert", "bz", "bnz", "return"):
            head = [f"#pragma version {ver}"] + (extra_head or [])
            if consumer == "assert":
                body = cond_lines + ["assert", "int 1", "return"]
            elif consumer == "return":
                body = cond_lines + ["return"]
            elif consumer == "bz":
                body = cond_lines + ["bz fail", "int 1", "return", "fail:", "err"]
            else:
                body = cond_lines + ["bnz ok", "err", "ok:", "int 1", "return"]
            out.append((f"{name}/{consumer}", "\n".join(head + body)))

    for op in CMPS:
        for swap in (False, True):
            for neg in (0, 1, 2):
                for c in (0, 1, 999, 1000, 1001, 272000, 272001, 2**64 - 1):
                    a, b = ["txn Fee"], [f"int {c}"]
                    emit(f"fee/{op}/{'swap' if swap else 'std'}/neg{neg}/{c}", (b + a if swap else a + b) + [op] + ["!"] * neg)
                for c in (0, 1, 2, 15, 16, 17):
                    a, b = ["global GroupSize"], [f"int {c}"]
                    emit(f"gsize/{op}/{'swap' if swap else 'std'}/neg{neg}/{c}", (b + a if swap else a + b) + [op] + ["!"] * neg)
                    a = ["txn GroupIndex"]
                    emit(f"gindex/{op}/{'swap' if swap else 'std'}/neg{neg}/{c}", (b + a if swap else a + b) + [op] + ["!"] * neg)
    for fld in ADDR_FIELDS:
        for op in ("==", "!="):
            for swap in (False, True):
                for neg in (0, 1):
                    for b in (["global ZeroAddress"], [f"addr {ADDRS[1]}"], [f"addr {ADDRS[0]}"], ["global CreatorAddress"], ["txn Receiver"]):
                        a = [f"txn {fld}"]
                        emit(f"addr/{fld}/{op}/{'swap' if swap else 'std'}/neg{neg}/{b[0].split()[-1][:6]}", (b + a if swap else a + b) + [op] + ["!"] * neg)
    for op in ("==", "!="):
        for swap in (False, True):
            for neg in (0, 1):
                for k in range(0, 8):
                    for spell in ("num", "name"):
                        if spell == "name" and not 1 <= k <= 6:
                            continue
                        b = [f"int {TYPE_NAMES[k-1]}" if spell == "name" else f"int {k}"]
                        a = ["txn TypeEnum"]
                        emit(f"type/{op}/{'swap' if swap else 'std'}/neg{neg}/{k}{spell}", (b + a if swap else a + b) + [op] + ["!"] * neg)
                for k in range(0, 7):
                    for spell in ("num", "name"):
                        if spell == "name" and k > 5:
                            continue
                        b = [f"int {OC_NAMES[k]}" if spell == "name" else f"int {k}"]
                        a = ["txn OnCompletion"]
                        emit(f"oc/{op}/{'swap' if swap else 'std'}/neg{neg}/{k}{spell}", (b + a if swap else a + b) + [op] + ["!"] * neg)
                for k in (0, 1):
                    a, b = ["txn ApplicationID"], [f"int {k}"]
                    emit(f"appid/{op}/{'swap' if swap else 'std'}/neg{neg}/{k}", (b + a if swap else a + b) + [op] + ["!"] * neg)
    for neg in (0, 1, 2):
        emit(f"appid/bare/neg{neg}", ["txn ApplicationID"] + ["!"] * neg)
    # index forms x i,k
    for fld, rhs in (("RekeyTo", "global ZeroAddress"), ("Fee", "int 1000")):
        op = "==" if fld == "RekeyTo" else "<="
        for i in range(0, 17):
            emit(f"idx/gtxn/{fld}/{i}", [f"gtxn {i} {fld}", rhs, op]) if i < 16 else None
            emit(f"idx/gtxns/{fld}/{i}", [f"int {i}", f"gtxns {fld}", rhs, op])
            if i > 0:
                emit(f"idx/rel+/{fld}/{i}", ["txn GroupIndex", f"int {i}", "+", f"gtxns {fld}", rhs, op])
                emit(f"idx/rel+swap/{fld}/{i}", [f"int {i}", "txn GroupIndex", "+", f"gtxns {fld}", rhs, op])
                emit(f"idx/rel-/{fld}/{i}", ["txn GroupIndex", f"int {i}", "-", f"gtxns {fld}", rhs, op])
                emit(f"idx/rel-swap/{fld}/{i}", [f"int {i}", "txn GroupIndex", "-", f"gtxns {fld}", rhs, op])
    # int spellings
    for sp in (["int 1000"], ["pushint 1000"], ["int 0x3e8"], ["int 01750"], ["intc_0"], ["intc 0"], ["intc_1"], ["intc 5"]):
        emit(f"spell/{sp[0].replace(' ', '_')}", ["txn Fee"] + sp + ["<="], extra_head=["intcblock 1000 7"])
    # and/or with unknown leaves
    base = ["txn RekeyTo", "global ZeroAddress", "=="]
    unk = ["load 0"]
    for combo, lines in (
        ("and-known-unknown", base + unk + ["&&"]),
        ("and-unknown-known", unk + base + ["&&"]),
        ("or-known-unknown", base + unk + ["||"]),
        ("or-unknown-known", unk + base + ["||"]),
        ("and-and", base + ["txn Fee", "int 1000", "<=", "&&"] + ["txn CloseRemainderTo", "global ZeroAddress", "==", "&&"]),
        ("or-and", base + ["txn Fee", "int 1000", "<=", "||"] + ["txn CloseRemainderTo", "global ZeroAddress", "==", "&&"]),
        ("not-and", base + ["txn Fee", "int 1000", "<=", "&&", "!"]),
        ("not-or-not", base + ["!", "txn Fee", "int 1000", ">", "||", "!"]),
        ("stack-bottom-and", ["&&"]),
        ("stack-bottom-eq", ["txn RekeyTo", "=="]),
    ):
        emit(f"bool/{combo}", lines)
    # one field admitted as the creator OR a literal OR a second literal (symbolic and literal entries in ONE record)
    for fld in ADDR_FIELDS:
        a = [f"txn {fld}"]
        cr, l0, l1 = ["global CreatorAddress"], [f"addr {ADDRS[0]}"], [f"addr {ADDRS[1]}"]
        for combo, lines in (
            ("creator-or-lit", a + cr + ["=="] + a + l0 + ["==", "||"]),
            ("lit-or-creator", a + l0 + ["=="] + cr + a + ["==", "||"]),
            ("creator-or-lit-or-lit", a + cr + ["=="] + a + l0 + ["==", "||"] + a + l1 + ["==", "||"]),
            ("lit-or-lit", a + l0 + ["=="] + a + l1 + ["==", "||"]),
            ("neither-creator-nor-lit", a + cr + ["!="] + a + l0 + ["!=", "&&", "!"]),
            # a set merged with a strict superset / subset of itself, in both orders
            ("sub-then-super", a + l0 + ["=="] + a + l0 + ["=="] + a + l1 + ["==", "||", "||"]),
            ("super-then-sub", a + l0 + ["=="] + a + l1 + ["==", "||"] + a + l0 + ["==", "||"]),
        ):
            emit(f"addrmix/{fld}/{combo}", lines)
        # two branches that admit {A} and {A, B}, merged at a join (either branch first in the text)
        one, two = a + l0 + ["==", "assert"], a + l0 + ["=="] + a + l1 + ["==", "||", "assert"]
        for nm, first, second in (("join-sub-super", one, two), ("join-super-sub", two, one)):
            out.append((f"addrmix/{fld}/{nm}", "\n".join(["#pragma version 6", "txn NumAppArgs", "bz second"] + first + ["b join", "second:"] + second + ["join:", "int 1", "return"])))
            out.append((f"addrmix/{fld}/{nm}-sub", "\n".join(["#pragma version 6", "txn NumAppArgs", "bz second"] + first + ["callsub fin", "second:"] + second + ["callsub fin", "fin:", "int 1", "return"])))
    # an operand of && / || that was pushed in an EARLIER block (unknown to the block-local reconstruction), combined with a
    # comparison whose false / true set is informative, consumed on either outcome
    cmps = {"RekeyTo": (["txn RekeyTo", "global ZeroAddress"], ["==", "!="]), "Fee": (["txn Fee", "int 1000"], ["<=", ">"]),
            "OnCompletion": (["txn OnCompletion", "int UpdateApplication"], ["==", "!="]), "GroupSize": (["global GroupSize", "int 16"], ["==", "!="])}
    for fld, (operands, ops) in cmps.items():
        for op in ops:
            for conn in ("&&", "||"):
                for unk in (["load 0"], ["int 0"], ["int 1"]):
                    for order in ("unk-first", "cmp-first"):
                        first = unk if order == "unk-first" else operands + [op]
                        second = operands + [op] if order == "unk-first" else unk
                        head = ["#pragma version 6"] + first + ["b join", "join:"] + second + [conn]
                        for cons, tail in (("bnz-fall", ["bnz bad", "int 1", "return", "bad:", "err"]), ("bz-jump", ["bz good", "err", "good:", "int 1", "return"]),
                                           ("not-assert", ["!", "assert", "int 1", "return"]), ("assert", ["assert", "int 1", "return"])):
                            out.append((f"unkop/{fld}/{op}/{conn}/{unk[0].replace(' ', '')}/{order}/{cons}", "\n".join(head + tail)))
    # guard at the bottom: the LAST instruction of the source is a conditional branch back to an accepting label; not taking it
    # falls off the end of the program (rejected)
    for fld, pos, negd in (("RekeyTo", ["txn RekeyTo", "global ZeroAddress", "=="], ["txn RekeyTo", "global ZeroAddress", "!="]),
                           ("Fee", ["txn Fee", "int 1000", "<="], ["txn Fee", "int 1000", ">"])):
        out.append((f"bottom/{fld}/bnz", "\n".join(["#pragma version 6", "b check", "ok:", "int 1", "return", "check:"] + pos + ["bnz ok"])))
        out.append((f"bottom/{fld}/bz", "\n".join(["#pragma version 6", "b check", "ok:", "int 1", "return", "check:"] + negd + ["bz ok"])))
    # a Fee check against a value the tool cannot evaluate on ONE arm only, merged with an unconstrained arm (either arm first)
    unkfee = ["txn Fee", "global MinTxnFee", "<=", "assert"]
    sel = ["txn TypeEnum", "int pay", "=="]
    out.append(("feeunk/checked-falls-through", "\n".join(["#pragma version 6"] + sel + ["bz join"] + unkfee + ["join:", "int 1", "return"])))
    out.append(("feeunk/checked-jumps", "\n".join(["#pragma version 6"] + sel + ["bnz check", "b join", "check:"] + unkfee + ["join:", "int 1", "return"])))
    out.append(("feeunk/checked-in-sub", "\n".join(["#pragma version 6"] + sel + ["bz skip", "callsub chk", "b join", "skip:", "int 7", "pop", "join:", "int 1", "return", "chk:"] + unkfee + ["retsub"])))
    out.append(("feeunk/three-arms", "\n".join(["#pragma version 6"] + sel + ["bnz check", "txn TypeEnum", "int axfer", "==", "bnz other", "b join", "check:"] + unkfee + ["b join", "other:", "txn Fee", "int 300000", "<=", "assert", "join:", "int 1", "return"])))
    # a leaf block that asserts one check and RETURNS another computed condition
    chk = {"RekeyTo": ["txn RekeyTo", "global ZeroAddress", "=="], "Fee": ["txn Fee", "int 1000", "<="], "CloseRemainderTo": ["txn CloseRemainderTo", "global ZeroAddress", "=="],
           "OnCompletion": ["txn OnCompletion", "int UpdateApplication", "!="], "GroupSize": ["global GroupSize", "int 2", "=="], "unrelated": ["txn NumAppArgs", "int 1", "=="]}
    for a_name, a in chk.items():
        for b_name, b in chk.items():
            if a_name != b_name and a_name != "unrelated":
                out.append((f"retmix/{a_name}/{b_name}/same-block", "\n".join(["#pragma version 6"] + a + ["assert"] + b + ["return"])))
                out.append((f"retmix/{a_name}/{b_name}/after-join", "\n".join(["#pragma version 6", "txn NumAppArgs", "bz leaf", "int 7", "pop", "leaf:"] + a + ["assert"] + b + ["return"])))
    return out


# ------------------------------------------------------------------ adversarial layouts (valid TEAL, odd shapes)

def adversarial_programs():
    P = "#pragma version 8\n"
    progs = {
        "dead-branches-into-live": P + "b live\ndead:\nint 1\nbnz live\nother:\nint 1\nreturn\nlive:\nint 1\nbnz other\nint 0\nreturn",
        # a subroutine whose ONLY call site is unreachable still is a subroutine, and the calls inside it are retained call sites
        "dead-callsite-chain": P + "int 1\nreturn\ncallsub sb\nerr\nsb:\ncallsub sc\nretsub\nsc:\ncallsub sa\nretsub\nsa:\nint 1\nretsub",
        "dead-callsite-self-and-other": P + "callsub live\nint 1\nreturn\ndead:\ncallsub helper\nerr\nhelper:\ncallsub live\ncallsub helper\nretsub\nlive:\nint 1\nretsub",
        # unreachable code next to blocks that belong to two routines (main and a subroutine share `fail`; two subroutines share a tail)
        "shared-fail-and-dead": P + "txn Fee\nint 1000\n<=\nbz fail\ncallsub f\nint 1\nreturn\ndead:\nint 7\npop\nfail:\nerr\nf:\ntxn RekeyTo\nglobal ZeroAddress\n==\nbz fail\nretsub",
        "shared-tail-and-dead-jump": P + "callsub f\ncallsub g\nint 1\nreturn\ndead:\nint 1\nbnz tail\nerr\nf:\nint 1\nb tail\ng:\nint 2\nb tail\ntail:\npop\nretsub",
        # an unreachable callsub directly before a label that stays reachable by a jump: the label is NOT a return point
        "dead-callsub-before-live-label": P + "b live\ndead:\ncallsub f\nlive:\ncallsub f\nint 1\nreturn\nf:\nretsub",
        "dead-callsub-before-live-label-2": P + "txn Fee\nint 1000\n<=\nbnz live\nerr\ndead:\ncallsub f\nlive:\nint 1\nreturn\nf:\nint 1\nretsub",
        # an unreachable conditional branch INSIDE a subroutine body whose jump target is a live block of that subroutine
        "dead-cond-branch-in-subroutine": P + "callsub f\nint 1\nreturn\nf:\nint 1\nb live\ndead:\nint 1\nbz live\nint 2\npop\nlive:\nretsub",
        "dead-switch-in-subroutine": P + "callsub f\nint 1\nreturn\nf:\nb live\ndead:\nint 0\nswitch live other\nother:\nint 1\npop\nlive:\ntxn RekeyTo\nglobal ZeroAddress\n==\nassert\nretsub",
        "dead-calls": P + "int 1\nreturn\ndead:\ncallsub f\nint 1\nreturn\nf:\ntxn RekeyTo\nglobal ZeroAddress\n==\nassert\nretsub",
        "dead-three-successors": P + "b live\ndead:\nint 0\nswitch a b live\na:\nint 1\nreturn\nb:\nint 1\nreturn\nlive:\nint 1\nbnz a\nint 1\nbnz b\nint 1\nreturn",
        "labels-at-end": P + "int 1\nbnz end\nint 1\nreturn\nend:",
        "back-to-back-labels": P + "int 1\nbnz a\nerr\na:\nb:\nc:\nint 1\nreturn",
        "empty-subroutine": P + "callsub e\nint 1\nreturn\ne:\nretsub",
        "branch-to-next-line-bnz": P + "txn RekeyTo\nglobal ZeroAddress\n==\nbnz next\nnext:\nint 1\nreturn",
        "branch-to-next-line-bz": P + "txn Fee\nint 1000\n<=\nbz next\nnext:\nint 1\nreturn",
        "b-to-next-line": P + "b next\nnext:\nint 1\nreturn",
        "bz-last-instruction": P + "int 1\nstart:\ntxn Fee\nint 1000\n<\nbz start",
        # the index of a gtxns read is computed from ANOTHER member's GroupIndex field (not this transaction's index)
        "foreign-groupindex-plus": P + "gtxn 1 GroupIndex\nint 1\n+\ngtxns RekeyTo\nglobal ZeroAddress\n==\nassert\nint 1\nreturn",
        "foreign-groupindex-self": P + "gtxn 2 GroupIndex\ngtxns Fee\nint 1000\n<=\nassert\nint 1\nreturn",
        "foreign-groupindex-minus": P + "int 1\ngtxns GroupIndex\nint 1\n-\ngtxns CloseRemainderTo\nglobal ZeroAddress\n==\nassert\nint 1\nreturn",
        "foreign-groupindex-swapped": P + "int 2\ngtxn 0 GroupIndex\n+\ngtxns AssetCloseTo\naddr OWQEGN2AZIA77YIE7YZEZLUN2JKVRUCTSFY3U3YH7PXWIDIQIPRA4IUKII\n==\nassert\nint 1\nreturn",
        # same shape with and without a read through an absolute index (group-size-check reports only the first)
        "gsize-abs-read": P + "gtxn 1 Fee\nint 1000\n<=\nbnz ok\nerr\nok:\nint 1\nreturn",
        "gsize-plain": P + "txn Fee\nint 1000\n<=\nbnz ok\nerr\nok:\nint 1\nreturn",
        "gsize-abs-read-in-second-block": P + "txn Fee\nint 1000\n<=\nbnz ok\nerr\nok:\ngtxn 0 RekeyTo\nglobal ZeroAddress\n==\nreturn",
        # two possible own indices, one below 8 and one at or above 8 (set iteration order differs from numeric order)
        **{f"index-pair-{a}-{b}": P + f"txn GroupIndex\nint {a}\n==\ntxn GroupIndex\nint {b}\n==\n||\nassert\ntxn RekeyTo\nglobal ZeroAddress\n==\nassert\ntxn Fee\nint 1000\n<=\nassert\nint 1\nreturn"
           for a, b in ((1, 8), (2, 9), (3, 8), (0, 15), (7, 8), (9, 10), (8, 1), (12, 4))},
        **{f"index-triple-{a}-{b}-{c}": P + f"txn GroupIndex\nint {a}\n==\ntxn GroupIndex\nint {b}\n==\n||\ntxn GroupIndex\nint {c}\n==\n||\nbz fail\ntxn CloseRemainderTo\nglobal ZeroAddress\n==\nassert\nint 1\nreturn\nfail:\nerr"
           for a, b, c in ((1, 8, 9), (0, 8, 15), (5, 13, 2))},
        # guard laid out at the bottom of the file: the LAST instruction is a conditional branch back to the accepting code
        "guard-at-bottom-rekey-bnz": P + "b check\nok:\nint 1\nreturn\ncheck:\ntxn RekeyTo\nglobal ZeroAddress\n==\nbnz ok",
        "guard-at-bottom-fee-bz": P + "b check\nok:\nint 1\nreturn\ncheck:\ntxn Fee\nint 1000\n>\nbz ok",
        "guard-at-bottom-oc-bnz": P + "b check\nok:\nint 1\nreturn\ncheck:\ntxn OnCompletion\nint UpdateApplication\n!=\nbnz ok",
        "guard-at-bottom-gsize-bz": P + "b check\nok:\nint 1\nreturn\ncheck:\nglobal GroupSize\nint 2\n!=\nbz ok",
        "guard-at-bottom-and": P + "b check\nok:\nint 1\nreturn\ncheck:\ntxn RekeyTo\nglobal ZeroAddress\n==\ntxn CloseRemainderTo\nglobal ZeroAddress\n==\n&&\ntxn Fee\nint 1000\n<=\n&&\nbnz ok",
        "guard-at-bottom-or-not": P + "b check\nok:\nint 1\nreturn\ncheck:\ntxn RekeyTo\nglobal ZeroAddress\n!=\ntxn AssetCloseTo\nglobal ZeroAddress\n==\n!\n||\nbz ok",
        "guard-at-bottom-in-sub": P + "callsub g\nint 1\nreturn\nok:\nretsub\ng:\ntxn RekeyTo\nglobal ZeroAddress\n==\nbnz ok",
        "bnz-last-instruction": P + "start:\ntxn RekeyTo\nglobal ZeroAddress\n==\nbnz start",
        "callsub-last-instruction-returns": P + "b main\nf:\ntxn RekeyTo\nglobal ZeroAddress\n==\nassert\nretsub\nmain:\nint 1\ncallsub f",
        "callsub-last-instruction-approves": P + "b main\nf:\nint 1\nreturn\nmain:\ncallsub f",
        "label-after-callsub-is-jump-target": P + "txn RekeyTo\nglobal ZeroAddress\n==\nbz skip\ncallsub f\nskip:\nint 1\nreturn\nf:\ntxn RekeyTo\nglobal ZeroAddress\n==\nassert\nretsub",
        "sub-approves-internally": P + "callsub f\nerr\nf:\nint 1\nreturn",
        "sub-approves-or-returns": P + "callsub f\ntxn RekeyTo\nglobal ZeroAddress\n==\nassert\nint 1\nreturn\nf:\ntxn Fee\nint 0\n==\nbz cont\nint 1\nreturn\ncont:\nretsub",
        "retsub-in-main": P + "int 1\nretsub",
        "typeenum-zero": P + "txn TypeEnum\nint 0\n==\nassert\nint 1\nreturn",
        "typeenum-seven": P + "txn TypeEnum\nint 7\n!=\nassert\nint 1\nreturn",
        "oncompletion-six": P + "txn OnCompletion\nint 6\n==\nbnz x\nint 1\nreturn\nx:\nerr",
        "recursion-direct": P + "callsub f\nint 1\nreturn\nf:\ntxn Fee\nint 1000\n<\nbz out\ncallsub f\nout:\nretsub",
        "recursion-mutual": P + "callsub f\nint 1\nreturn\nf:\nint 1\nbz fo\ncallsub g\nfo:\nretsub\ng:\nint 1\nbz go\ncallsub f\ngo:\nretsub",
        "shared-sub-two-sites": P + "txn OnCompletion\nint UpdateApplication\n==\nbnz p2\ntxn RekeyTo\nglobal ZeroAddress\n==\nassert\ncallsub s\nint 1\nreturn\np2:\ncallsub s\nint 1\nreturn\ns:\nint 2\npop\nretsub",
        "nested-subs": P + "callsub a\nint 1\nreturn\na:\ncallsub b\ncallsub b\nretsub\nb:\ntxn Fee\nint 1000\n<=\nassert\nretsub",
        "call-in-loop": P + "int 0\nstore 0\nl:\nload 0\nint 3\n<\nbz d\ncallsub s\nload 0\nint 1\n+\nstore 0\nb l\nd:\nint 1\nreturn\ns:\ntxn CloseRemainderTo\nglobal ZeroAddress\n==\nassert\nretsub",
        "loop-in-sub": P + "callsub s\nint 1\nreturn\ns:\nint 0\nstore 0\nl:\nload 0\nint 3\n<\nbz d\ntxn Fee\nint 500\n<\nassert\nload 0\nint 1\n+\nstore 0\nb l\nd:\nretsub",
        "no-pragma": "int 1\nreturn",
        "only-pragma": "#pragma version 6",
        "comment-first": "// hello\n#pragma version 6\nint 1\nreturn",
        "edge-ignored-backward": P + "txn Sender\nglobal CreatorAddress\n==\nbnz done\nglobal GroupSize\nint 1\n==\nbz fail\ndone:\nint 1\nreturn\nfail:\nerr",
        "sub-before-main": P + "b main\ns:\ntxn RekeyTo\nglobal ZeroAddress\n==\nassert\nretsub\nmain:\ncallsub s\nint 1\nreturn",
        "two-asserts-one-block": P + "txn Fee\nint 2000\n<\nassert\ntxn Fee\nint 1000\n<\nassert\nint 1\nreturn",
        "return-zero": P + "txn Fee\nint 1000\n<\nbnz ok\nint 0\nreturn\nok:\nint 1\nreturn",
        "return-intc-zero": "#pragma version 6\nintcblock 0 1\ntxn Fee\nint 1000\n<\nbnz ok\nintc_0\nreturn\nok:\nintc_1\nreturn",
        "intcblock-not-entry": "#pragma version 6\nint 1\nbnz n\nerr\nn:\nintcblock 1000 1\ntxn Fee\nintc_0\n<=\nassert\nintc_1\nreturn",
        "two-intcblocks": "#pragma version 6\nintcblock 1000 1\nintcblock 5 6\ntxn Fee\nintc_0\n<=\nassert\nintc_1\nreturn",
        "intc-out-of-range": "#pragma version 6\nintcblock 1000 1\ntxn Fee\nintc 7\n<=\nassert\nintc_1\nreturn",
        "match-v8": P + 'byte "a"\nbyte "b"\ntxna ApplicationArgs 0\nmatch la lb\nerr\nla:\ntxn RekeyTo\nglobal ZeroAddress\n==\nassert\nint 1\nreturn\nlb:\nint 1\nreturn',
        "switch-last-instruction": P + "b main\na:\nint 1\nreturn\nc:\ntxn RekeyTo\nglobal ZeroAddress\n==\nreturn\nmain:\ntxn NumAppArgs\nswitch a c",
        "switch-last-shared-target": P + "txn NumAppArgs\nbz c\na:\nint 1\nreturn\nc:\ntxn NumAppArgs\nint 1\n-\nswitch a c a",
        "match-last-in-subroutine": P + "callsub s\nint 1\nreturn\nla:\nint 1\nretsub\nlb:\ntxn Fee\nint 1000\n<=\nassert\nretsub\ns:\nbyte \"a\"\nbyte \"b\"\ntxna ApplicationArgs 0\nmatch la lb",
        "switch-same-target-twice": P + "txn NumAppArgs\nswitch a a\nerr\na:\nint 1\nreturn",
        "gtxn-own-index-check": P + "txn GroupIndex\nint 1\n==\nassert\ngtxn 1 RekeyTo\nglobal ZeroAddress\n==\nassert\nint 1\nreturn",
        "gtxn-other-index-check": P + "txn GroupIndex\nint 0\n==\nassert\ngtxn 1 RekeyTo\nglobal ZeroAddress\n==\nassert\nint 1\nreturn",
        "groupsize-with-absolute": P + "gtxn 1 Amount\nint 5\n==\nassert\nint 1\nreturn",
        "groupsize-checked": P + "global GroupSize\nint 2\n==\nassert\ngtxn 1 Amount\nint 5\n==\nassert\nint 1\nreturn",
        "loop-head-callsub-callee-returns": P + "int 0\nstore 0\nl:\ncallsub s\nload 0\nint 1\n+\nstore 0\nload 0\nint 2\n<\nbnz l\nint 1\nreturn\ns:\ntxn Fee\nint 0\n==\nbz c\nint 1\nreturn\nc:\nretsub",
        "loop-at-entry": "start:\nint 1\nbz start\nint 1\nreturn",
        "loop-at-sub-entry": P + "callsub s\nint 1\nreturn\ns:\ntxn Fee\nint 1000\n<\nbz s\nretsub",
        "goto-loop": P + "int 0\nstore 0\nb chk\nbody:\ntxn RekeyTo\nglobal ZeroAddress\n==\nassert\nload 0\nint 1\n+\nstore 0\nchk:\nload 0\nint 2\n<\nbnz body\nint 1\nreturn",
        "nested-loops": P + "int 0\nstore 0\no:\nload 0\nint 2\n<\nbz od\nint 0\nstore 1\ni:\nload 1\nint 2\n<\nbz id\ntxn Fee\nint 1000\n<=\nassert\nload 1\nint 1\n+\nstore 1\nb i\nid:\nload 0\nint 1\n+\nstore 0\nb o\nod:\nint 1\nreturn",
        "two-calls-same-block-seq": P + "callsub a\ncallsub a\ncallsub b\nint 1\nreturn\na:\ncallsub b\nretsub\nb:\nint 1\npop\nretsub",
        "frame-ops": P + "callsub f\nint 1\nreturn\nf:\nproto 0 0\nint 5\nframe_bury 0\nframe_dig 0\npop\nretsub",
    }
    return sorted(progs.items())
