"""Writes MANIFEST.json from the claims table below (kept in one place so that it stays valid)."""
import json, os
ROOT = os.path.dirname(os.path.dirname(os.path.abspath(__file__)))
props = [json.loads(l) for l in open(os.path.join(ROOT, "properties.jsonl"))]
ids = [p["id"] for p in props]

COMMON_NOTE = ("Trusted: Coq 8.16.1 kernel (vm_compute used, no native_compute); the fail-closed Python-ast translator "
               "(tools/translate*.py) that regenerates coq/Gen from /repo on every run; extraction (ExtrOcamlBasic, "
               "ExtrOcamlNativeString, no Extract Constant) + ocaml/main.ml; the hand-written algorithmic model coq/Model/*.v, "
               "tied to the code by the sampled correspondence check (tools/corr.py); Spec/*.v read as the meaning of the property. "
               "Theorems are 'Closed under the global context' (no axioms) unless the evidence lists some. ")

CLAIMS = {
 "C02": dict(text="Proof: search_paths model = declarative GoodPath (sound, complete, duplicate-free, fuel-monotone) for every function graph, validation predicate and fuel; tie: model/implementation correspondence on ordered path lists of all nine detectors + an independent declarative path checker run on the implementation's reported paths.",
             note="Theorems are about Model/Detect.v `search`; Spec/Paths.v (69 lines) is the trusted reading of 'genuine path'. The 'no validated block' clause is proved for the model's validated predicate; rendering ('0 -> 2 -> 5') is compared by correspondence only.",
             tech="Coq proof (induction on fuel / GoodPath derivations) + correspondence", ref="5 C02"),
 "C04": dict(text="Proof: for every instruction list the block scan partitions the instructions in source order, blocks are single-entry/single-exit, next/prev mirror each other inside the graph without duplicates, successors are the blocks of the exit instruction's successors, bz/bnz order fall-through before target. Tie: correspondence on full graph dumps incl. adversarial layouts + graph-law checker on the implementation's dumps.",
             note="Proved about Model/Cfg.v create_bb/build_blocks. The clause 'every concrete execution is a walk of the graph' is checked by the interpreter-based oracle (approved executions only visit function blocks), not yet a theorem: partial.",
             tech="Coq proof (scan invariant) + correspondence", ref="5 C04"),
 "C06": dict(text="Proof: the six comparison operators give exactly the implied subsets of the universe (regenerated leaf), &&/||/! combination is sound and exact (literal reading, other leaves free) for every nesting; worklist solver = least solution independent of order (SolverLemmas). Tie: regenerated leaf functions, correspondence on group_sizes/group_indices of every block, interpreter oracle over (size,index) pairs.",
             note="Known findings D2 (operand order of < <= > >= ignored; pinned by the suite) and D12 (backward pass ignores edge constraints: exactness only) are excluded explicitly. Block-level soundness along runs is composed in Lemmas/RunLemmas when present; until then that step is covered by the oracle: partial.",
             tech="Coq proof over regenerated definitions + correspondence", ref="5 C06"),
 "C08": dict(text="Proof: ANY/NO marker algebra: union/intersection regenerated from source are the exact lattice operations under the concretisation and preserve the never-mixed invariant; condition combination sound for every nesting. Tie: regenerated _union/_intersection, correspondence on the four address fields of every block, interpreter oracle over {zero, literals, creator, fresh}.",
             note="Known finding D19 (ZERO_ADDRESS constant is a real non-zero address; pinned by tests). Pattern-level soundness of _get_asserted_txn_gtxn (SingleLemmas) and run-level composition are separate lemma files; where absent the oracle covers them: partial.",
             tech="Coq proof over regenerated definitions + correspondence", ref="5 C08"),
 "C09": dict(text="Proof: for all six operators, both operand orders, every constant k and every uint64 fee: the regenerated _get_asserted_max_value is sound on both sides, equals the implied-bound table and the bound is attained (tight); the chain lattice operations are exact. Tie: regenerated leaf functions, correspondence on max_fee/max_fee_unknown of every block, interpreter oracle on boundary fees.",
             note="The documented heuristic (comparison with a non-constant => 'unknown bounded') is outside the claim. Run-level composition as for C06.",
             tech="Coq proof (lia over regenerated definitions) + correspondence", ref="5 C09"),
 "C11": dict(text="Proof: for every instruction sequence, every arity-respecting opcode semantics and every initial stack, the reconstructed operand trees denote position-wise the values actually consumed; producers are earlier instructions of the block. Tie: arities regenerated from instructions.py (186 classes), correspondence of pop/push per parsed line over all parser rules and immediates.",
             note="Arity table = AVM arity is established against Spec/AvmTables.v (hand transcription, trusted) in TableLemmas when present; known finding D9 (frame_bury) is listed there.",
             tech="Coq proof (induction over the block) + correspondence", ref="5 C11"),
}

CLAIMS.update({
 "C05": dict(text="Proof: for every program: subroutines = callsub targets (dead code included), subroutine blocks = local reachability from the entry (LIFO DFS with sufficient fuel), caller tables = retained call sites, return point = the following block or none; for structured programs the function graph satisfies all mirror/coverage facts (graph_wf) the dataflow proofs need. Tie: correspondence on subroutine tables and graph dumps + independent law checker on the implementation's dumps.",
             note="Proved about Model/Cfg.v parse_teal / Model/Detect.v whole_function. The call-graph printer (DOT export) is not yet read back: that clause is partial.",
             tech="Coq proof (DFS invariant, boolean reflection) + correspondence", ref="5 C05"),
 "C07": dict(text="Proof (partial by a recorded finding): the finite obligation table over the REGENERATED label universes: for every comparison pattern x side x detector-relevant label, the label of every concrete (TypeEnum, OnCompletion, ApplicationID) passing that side is kept -- except exactly the 32 triples of known finding D16 (table computed by vm_compute, proved exact in both directions); full statement refuted with witness. Tie: regenerated enums, correspondence on transaction_types of every block, interpreter oracle over all kind valuations.",
             note="D16 is pinned by tests/transaction_context/test_transaction_types.py and therefore recorded, not repaired. A new dropped label falsifies C07_dropped_table_is.",
             tech="Coq finite computation lifted by lemma (vm_compute + forallb_forall) + correspondence", ref="5 C07"),
 "C10": dict(text="Proof: index classification (gtxn i / int i; gtxns / GroupIndex +- k; gtxns, both operand orders) and key matching attribute every read to the transaction the AVM really reads (Spec/Eval.v), for all groups and indices. Tie: correspondence on all 63 sub-contexts (at-index, absolute, relative) of every block; interpreter oracle on other group members' values.",
             note="Soundness of the sub-contexts along runs follows the same composition as C06/C08/C09 (RunLemmas/ExecLemmas) for the absolute and relative families; the at-index refinement (_update_gtxn_constraints) is covered by correspondence + oracle: partial.",
             tech="Coq proof over a concrete group semantics + correspondence", ref="5 C10"),
 "C19": dict(text="Proof: regenerated opcode/field tables = AVM specification tables (versions, modes, per-version costs 1..8, field versions) by kernel computation over all 178 opcode classes, with explicit (now almost empty) exclusion lists; _verify_version / mode detection / block cost hand-modelled and tied by correspondence (flags parsed from stderr, costs from block comments).",
             note="Spec/AvmTables.v is a hand transcription of the AVM spec (trusted; no assembler offline). Remaining exclusions: Method version (pseudo-op, uncertain). Known finding D22: ed25519verify is LogicSig-only in v1-v4 programs (single mode per class in the tool).",
             tech="Coq vm_compute over regenerated tables vs spec tables + correspondence", ref="5 C19"),
 "C01": dict(text="Proof (composition): every approving concrete execution (Spec/Exec.v) passes only through blocks whose contexts admit its field values (ExecLemmas: C06/C08/C09/C10 end to end) ; every accepting run whose blocks are unvalidated cuts down to a genuine activation-simple path (PathCut) ; the DFS reports every genuine path (SearchLemmas) ; hence a path is reported (Compose; per-detector instances in Lemmas/NoMiss.v when present). Tie: regenerated checks_field predicates, correspondence on paths + contexts of all nine detectors; property oracle: concrete interpreter over sampled groups vs run_detectors().",
             note="Hypotheses = the recorded findings: every call returns and the program ends at a return (D4, D17), return points are not jump targets (D3, via struct_ok), no recursion, comparisons against constants only; group-size-check additionally D21 (absolute read only on a cycle). Kind-based detectors are limited by D16 (C07). The per-detector last link is proved for missing-fee-check and rekey-to only (NoMiss.v); for the others it is covered by the oracle: partial.",
             tech="Coq proof (composition of L5, cycle cutting, DFS completeness) + correspondence + oracle", ref="5 C01"),
 "C16": dict(text="Proof over the REGENERATED ordered rule list: every key dispatches to its own rule also when followed by arbitrary immediates (exception list = [replace], whose continuations are the opcodes replace2/replace3); decimal/hex/octal spellings parse to the same number (all n); printed form parses back for every immediate-free opcode of the table, int/pushint/intc/pragma (all n), txn/gtxn/gtxns/global over all table fields, branches/labels/addr under an explicit token predicate; leading/trailing whitespace and comments are irrelevant. Tie: regenerated rules and print formats, correspondence of parse_line/str over all rules x immediates x decorations.",
             note="The reference grammar is the model's reading of TEAL lines (no assembler offline). base64/base32 literals are decoded in the model and compared by correspondence only. Array-field and byte-literal round trips are correspondence-only: partial.",
             tech="Coq proof (prefix lemmas + vm_compute over the generated table, digit induction) + correspondence", ref="5 C16"),
 "C20": dict(text="Proof: reported matches = exactly the straight-line occurrences reachable from the label (independent reachability definition), no duplicates, listed in order; covered instructions all lie on a path to a match and every match is reached through covered instructions; completeness of 'covered' refuted (D14). Tie: correspondence on match lists and covered sets over programs x labels x patterns.",
             note="Known finding D14 (covered set incomplete at joins/loops). parse of the regex file header (re module) is not modelled.",
             tech="Coq proof (DFS relation, mutual induction) + correspondence", ref="5 C20"),
})

CLAIMS.update({
 "C03": dict(text="Proof: exactness of the dataflow result (ExactLemmas, L6): with an exact leaf concretisation every value in a block's solver result is justified by a literal accepting path through the block, and with the soundness laws + graph_wf the result is exactly the literal reading; hence if no literal accepting path admits the dangerous value no block of any candidate path is unvalidated and the DFS reports nothing; && / || / ! exactness for every nesting. Tie: regenerated leaf functions and checks_* predicates, correspondence on contexts and path lists; literal-reading oracle (tools/oracle.py) that enumerates accepting paths with literal constraint reading and demands silence.",
             note="Exactness is stated per domain for the forward/backward composition the model implements; the independence of two-field detectors is the model's `validated_in_block` (a conjunction over fields). Known findings D12 (backward pass ignores edge constraints), D2, D25 (Fee > 2^64-1 literal) excluded explicitly. Subroutines called from several sites: merged call sites are part of the literal reading (as in the property's C06 exception).",
             tech="Coq proof (least-fixpoint exactness, induction over worklist runs) + correspondence + literal oracle", ref="5 C03"),
 "C12": dict(text="Proof: construct_function on path [B0] returns the whole-contract function itself (record equality: blocks, instruction text, lines, edges, shared subroutines) for every structured program, with a refutation showing the hypothesis is needed; accepted dispatch paths = duplicate-free successor chains from B0; for longer paths every successor of a path block other than the next path block is a fresh err block (single custom err instruction, no successors, constraint = null in every domain). Contexts: the function is analysed by the same `run_all` whose C06-C10 theorems are stated for any func value. Tie: correspondence on function dumps (blocks/edges/err blocks/contexts) for random dispatch paths; construction purity checked by re-dumping the contract's graph after building functions in different orders.",
             note="The statement 'contains exactly the executions that start with the path' is derived from the cut-spec + C04 walk property, not yet composed into one theorem: partial. Fixed defect D24 (9981add) lives here.",
             tech="Coq proof (structural, list surgery lemmas) + correspondence", ref="5 C12"),
 "C13": dict(text="Proof: txn_vulnerable = true iff eligible and neither own contracts, nor absolute-index readers, nor offset readers clear the value at every exit (vulnerable_iff); offset inversion is exact under distinct transaction ids (relative_accessors_spec: other reads t at offset off iff other's configured relative index off points to t); a group of one transaction with one logic-sig gives the single-contract criterion (single_logic_sig). Tie: correspondence on verdict lists over random group configurations x detectors (model verdict vs tealer group-mode detector output).",
             note="The semantic clause ('whenever a concrete group consistent with the configuration is approved by every contract ...') reduces to C01/C10 per member contract; the composition over several contracts is not a theorem: partial. YAML parsing of the configuration is outside the model (configurations are built through the Python API).",
             tech="Coq proof (boolean reflection of the verdict function) + correspondence", ref="5 C13"),
 "C14": dict(text="Proof: the analysis result is a function of the program text only: the worklist solver reaches the same least solution for every processing order (SolverLemmas.order_independence, any worklist discipline, any fuel that suffices), paths are a deterministic function of the graph. Runtime part (hash seeds, process history, detector order, byte-identical JSON) cannot be exhibited by a pure model: decided by differential runs of the real CLI/API under several PYTHONHASHSEED values (0, 1, 7, 99, 4242, 31337), repeated and re-ordered analyses in one process, detector re-registration; every run must equal the (deterministic) model output.",
             note="Partial: the theorem covers schedule independence of the algorithm; independence from interpreter state is established by runs (tie against the deterministic extracted model, which by construction has no history or seed).",
             tech="Coq proof (confluence of the worklist iteration) + correspondence under varied seeds/orders/histories", ref="5 C14"),
 "C15": dict(text="Proof: integer spelling (dec/hex/octal, all n), indentation/trailing blanks/comments, pushint vs int, named type/completion constants over the regenerated tables, intc/intc_k vs int, injective label renaming (whole parse result equal up to label names), comment/blank-line insertion (only line numbers shift; line numbers never influence the graph). Tie: metamorphic correspondence: each program and its rewrites are run through the implementation, contexts and verdicts must coincide modulo line renumbering, and both must match the model.",
             note="Stack-neutral padding and moving subroutine bodies change block numbering/contents; they are covered by the metamorphic runs only (no theorem): partial.",
             tech="Coq proof (parser lemmas over regenerated tables) + metamorphic correspondence", ref="5 C15"),
 "C17": dict(text="Proof: every table/graph lookup the analyses perform is defined on structured programs (graph_ok: successors/predecessors/callsub tables/return points name existing blocks; no dangling block), fuel exhaustion is an explicit outcome that the driver reports (never observed; a termination theorem for the fuelled solver is not yet proved). Tie: the real CLI (detect text+JSON, all five printers) is run on generated programs incl. dead branches/calls, loops, recursion, trailing branch/call; any traceback or non-zero exit without a user-level error is a violation; the model's Exn/OutOfFuel outcomes are compared too.",
             note="Partial: completion of Python code is a runtime property; the theorem covers the lookups and fixpoint termination of the model, the CLI sweep covers the glue. Known findings D3/D4/D17 shapes are listed; fixed defects D7, D8, D24.",
             tech="Coq proof (definedness of lookups, termination measure) + CLI sweep", ref="5 C17"),
 "C18": dict(text="Proof: the list the JSON/text report is produced from has no duplicates and is exactly the DFS result (count = length), retained blocks are duplicate-free (one node per block). Tie: DOT/JSON artefacts of the real CLI are read back: node set = model blocks with instruction text and line numbers, edge set = model global graph (callsub/retsub edges per C05), subroutine-cfg call boxes per call site, path DOT marks = path blocks, count/success fields, --filter-paths = regex filter on the short notation.",
             note="Partial: rendering is Python glue; it is compared artefact-by-artefact against the model, not proved. Fixed defects D11a (21edef0), D11b (6b980c8), D8 (2b49d90).",
             tech="Coq proof (NoDup/length facts of the reported list) + artefact read-back correspondence", ref="5 C18"),
})


def check_entry(pid, c):
    return {
        "property_id": pid,
        "quick_cmd": f"./check {pid}",
        "thorough_cmd": f"./check {pid} --tier thorough",
        "evidence_file": f"/verif/evidence/{pid}.json",
        "replay_cmd_template": f"./check {pid} --replay {{path}}",
        "engine": "coq-model-correspondence",
        "level_claimed": {"category": "proof", "text": c["text"], "design_ref": c["ref"]},
        "level_note": COMMON_NOTE + c["note"],
        "technique": c["tech"],
    }

m = {
    "version": 1,
    "setup_cmd": "./setup.sh",
    "hooks": {"guard": "TEALER_VERIF", "enable": "no source hooks are used: checks import /repo through PYTHONPATH=/repo (tools/implrun.py) and read its source with ast (tools/translate.py)",
              "baseline_off_cmd": "cd /repo && /venv/bin/python -m pytest -ra -q -p no:cacheprovider --timeout=900 --continue-on-collection-errors",
              "source_commits": [], "add_only": True},
    "engines": [{"name": "coq-model-correspondence", "path": "/verif/check", "serves_properties": sorted(CLAIMS),
                 "kind_free_text": "Coq 8.16 proofs about a Gallina model (coq/), regenerated tables + leaf functions, extracted OCaml driver diffed against tealer"}],
    "checks": [check_entry(p, CLAIMS[p]) for p in ids if p in CLAIMS],
    "not_applicable": [{"property_id": p, "reason": "check under construction in this round (model/proofs not yet registered)"} for p in ids if p not in CLAIMS],
    "notes": "Fixes committed to /repo (all `fix:`): 51e625d 0d60042 157916e 17bdcba 398c4f0 52a41ad 25f0d78 ba5e9b1 de2251e 9981add 21edef0 6b980c8 2b49d90 (see known_findings.json `fixed`). Known findings: /verif/known_findings.json. Seeded changes and which checks catch them: DESIGN.md section 8.",
}
json.dump(m, open(os.path.join(ROOT, "MANIFEST.json"), "w"), indent=1)
print("claimed:", sorted(CLAIMS))
