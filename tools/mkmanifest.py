"""Writes MANIFEST.json from the claims table below (kept in one place so that it stays valid)."""
import json, os
ROOT = os.path.dirname(os.path.dirname(os.path.abspath(__file__)))
props = [json.loads(l) for l in open(os.path.join(ROOT, "properties.jsonl"))]
ids = [p["id"] for p in props]

COMMON_NOTE = ("Trusted: Coq 8.16.1 kernel (vm_compute used, no native_compute); the fail-closed Python-ast translator "
               "(tools/translate*.py) that regenerates coq/Gen from /repo on every run; extraction (ExtrOcamlBasic, "
               "ExtrOcamlNativeString, no Extract Constant) + ocaml/main.ml; the hand-written algorithmic model coq/Model/*.v, "
               "tied to the code by the sampled correspondence check (tools/corr.py); Spec/*.v read as the meaning of the property. "
               "Theorems are 'Closed under the global context' (no axioms) unless the evidence lists some. ")

CLAIMS = {
 "C02": dict(text="Proof: search_paths model = declarative GoodPath (sound, complete, duplicate-free, fuel-monotone) for every function graph, validation predicate and fuel; tie: model/implementation correspondence on ordered path lists of all nine detectors + an independent declarative path checker run on the implementation's reported paths.",
             note="Theorems are about Model/Detect.v `search`; Spec/Paths.v (69 lines) is the trusted reading of 'genuine path'. The 'no validated block' clause is proved for the model's validated predicate; rendering ('0 -> 2 -> 5') is compared by correspondence only.",
             tech="Coq proof (induction on fuel / GoodPath derivations) + correspondence", ref="5 C02"),
 "C04": dict(text="Proof: for every instruction list the block scan partitions the instructions in source order, blocks are single-entry/single-exit, next/prev mirror each other inside the graph without duplicates, successors are the blocks of the exit instruction's successors, bz/bnz order fall-through before target. Tie: correspondence on full graph dumps incl. adversarial layouts + graph-law checker on the implementation's dumps.",
             note="Proved about Model/Cfg.v create_bb/build_blocks. The clause 'every concrete execution is a walk of the graph' is checked by the interpreter-based oracle (approved executions only visit function blocks), not yet a theorem: partial.",
             tech="Coq proof (scan invariant) + correspondence", ref="5 C04"),
 "C06": dict(text="Proof: the six comparison operators give exactly the implied subsets of the universe (regenerated leaf), &&/||/! combination is sound and exact (literal reading, other leaves free) for every nesting; worklist solver = least solution independent of order (SolverLemmas). Tie: regenerated leaf functions, correspondence on group_sizes/group_indices of every block, interpreter oracle over (size,index) pairs.",
             note="Known findings D2 (operand order of < <= > >= ignored; pinned by the suite) and D12 (backward pass ignores edge constraints: exactness only) are excluded explicitly. Block-level soundness along runs is composed in Lemmas/RunLemmas when present; until then that step is covered by the oracle: partial.",
             tech="Coq proof over regenerated definitions + correspondence", ref="5 C06"),
 "C08": dict(text="Proof: ANY/NO marker algebra: union/intersection regenerated from source are the exact lattice operations under the concretisation and preserve the never-mixed invariant; condition combination sound for every nesting. Tie: regenerated _union/_intersection, correspondence on the four address fields of every block, interpreter oracle over {zero, literals, creator, fresh}.",
             note="Known finding D19 (ZERO_ADDRESS constant is a real non-zero address; pinned by tests). Pattern-level soundness of _get_asserted_txn_gtxn (SingleLemmas) and run-level composition are separate lemma files; where absent the oracle covers them: partial.",
             tech="Coq proof over regenerated definitions + correspondence", ref="5 C08"),
 "C09": dict(text="Proof: for all six operators, both operand orders, every constant k and every uint64 fee: the regenerated _get_asserted_max_value is sound on both sides, equals the implied-bound table and the bound is attained (tight); the chain lattice operations are exact. Tie: regenerated leaf functions, correspondence on max_fee/max_fee_unknown of every block, interpreter oracle on boundary fees.",
             note="The documented heuristic (comparison with a non-constant => 'unknown bounded') is outside the claim. Run-level composition as for C06.",
             tech="Coq proof (lia over regenerated definitions) + correspondence", ref="5 C09"),
 "C11": dict(text="Proof: for every instruction sequence, every arity-respecting opcode semantics and every initial stack, the reconstructed operand trees denote position-wise the values actually consumed; producers are earlier instructions of the block. Tie: arities regenerated from instructions.py (186 classes), correspondence of pop/push per parsed line over all parser rules and immediates.",
             note="Arity table = AVM arity is established against Spec/AvmTables.v (hand transcription, trusted) in TableLemmas when present; known finding D9 (frame_bury) is listed there.",
             tech="Coq proof (induction over the block) + correspondence", ref="5 C11"),
}

def check_entry(pid, c):
    return {
        "property_id": pid,
        "quick_cmd": f"./check {pid}",
        "thorough_cmd": f"./check {pid} --tier thorough",
        "evidence_file": f"/verif/evidence/{pid}.json",
        "replay_cmd_template": f"./check {pid} --replay {{path}}",
        "engine": "coq-model-correspondence",
        "level_claimed": {"category": "proof", "text": c["text"], "design_ref": c["ref"]},
        "level_note": COMMON_NOTE + c["note"],
        "technique": c["tech"],
    }

m = {
    "version": 1,
    "setup_cmd": "./setup.sh",
    "hooks": {"guard": "TEALER_VERIF", "enable": "no source hooks are used: checks import /repo through PYTHONPATH=/repo (tools/implrun.py) and read its source with ast (tools/translate.py)",
              "baseline_off_cmd": "cd /repo && /venv/bin/python -m pytest -ra -q -p no:cacheprovider --timeout=900 --continue-on-collection-errors",
              "source_commits": [], "add_only": True},
    "engines": [{"name": "coq-model-correspondence", "path": "/verif/check", "serves_properties": sorted(CLAIMS),
                 "kind_free_text": "Coq 8.16 proofs about a Gallina model (coq/), regenerated tables + leaf functions, extracted OCaml driver diffed against tealer"}],
    "checks": [check_entry(p, CLAIMS[p]) for p in ids if p in CLAIMS],
    "not_applicable": [{"property_id": p, "reason": "check under construction in this round (model/proofs not yet registered)"} for p in ids if p not in CLAIMS],
    "notes": "Fixes committed to /repo: 51e625d (C09 operand order), 0d60042 (C04 pruning), 157916e (C01 branch to next line), 17bdcba (C17 KeyError). Known findings: /verif/known_findings.json.",
}
json.dump(m, open(os.path.join(ROOT, "MANIFEST.json"), "w"), indent=1)
print("claimed:", sorted(CLAIMS))
