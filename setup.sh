#!/bin/bash
# Build the framework from files on disk only (offline).
set -e
cd "$(dirname "$0")"
exec ./check --setup
