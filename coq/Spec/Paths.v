(* Specification: what "a genuine, unvalidated accepting path" of a function is.

   Declarative: no fuel, no reference to the analyzer's search procedure.  A good path
     - starts at the function's entry block in main's activation;
     - follows control-flow edges of the global CFG: an ordinary edge, a call (callsub block -> entry of the
       callee, pushing a frame), or a return (retsub block -> the block after *its own* callsub, popping the frame);
     - ends at a block where execution can terminate (leaf_global), never at a callsub / retsub;
     - visits no block twice within one subroutine activation, and never calls a subroutine already on the stack;
     - contains no block at which the detector's condition is validated. *)
From Coq Require Import String List Bool Arith.
From Tealer Require Import Syntax Cfg Analysis.
Import ListNotations.
Open Scope string_scope.
Open Scope list_scope.

Section Paths.
  Variable f : func.
  Variable validated : nat -> bool.

  (* a call-stack frame: (callsub block that created it, or None for main ; name of the subroutine, "" for main).
     The LAST element of a stack is the innermost frame. *)
  Definition frame := (option nat * string)%type.
  (* configuration = (call stack, for each frame the blocks already visited in that activation) *)
  Definition config := (list frame * list (list nat))%type.

  (* block n may be entered in configuration c *)
  Definition enterable (c : config) (n : nat) : Prop :=
    validated n = false /\ ~ In n (last (snd c) []).

  (* record n as visited in the innermost activation *)
  Definition visit (ex : list (list nat)) (n : nat) : list (list nat) :=
    removelast ex ++ [last ex [] ++ [n]].

  (* pstep c b c' b': block b is entered in configuration c, is not a leaf, and the path may continue
     with block b' in configuration c' *)
  Inductive pstep : config -> nat -> config -> nat -> Prop :=
  | PS_call st ex b blk l s :                     (* callsub l: go to the entry of l in a fresh activation *)
      enterable (st, ex) b -> fblock f b = Some blk -> leaf_global f blk = false ->
      fexit_op f blk = Some (ICallsub l) ->
      ~ In l (map snd st) ->                      (* the callee is not already on the call stack *)
      f_find_sub f l = Some s ->
      pstep (st, ex) b (st ++ [(Some b, l)], visit ex b ++ [[]]) (s_entry s)
  | PS_ret st ex b blk cs name cb rp :            (* retsub: back to the block after the innermost frame's callsub *)
      enterable (st, ex) b -> fblock f b = Some blk -> leaf_global f blk = false ->
      fexit_op f blk = Some IRetsub ->
      last st (None, "") = (Some cs, name) ->
      fblock f cs = Some cb -> sub_return_point cb = Some rp ->
      pstep (st, ex) b (removelast st, removelast (visit ex b)) rp
  | PS_edge st ex b blk b' :                      (* ordinary control-flow edge inside the current activation *)
      enterable (st, ex) b -> fblock f b = Some blk -> leaf_global f blk = false ->
      f_is_callsub f blk = false -> f_is_retsub f blk = false ->
      In b' (b_next blk) ->
      pstep (st, ex) b (st, visit ex b) b'.

  (* GoodPathFrom c b suffix: suffix = b :: ... is a run of psteps from b in configuration c
     that ends in an enterable leaf block *)
  Inductive GoodPathFrom : config -> nat -> list nat -> Prop :=
  | GP_leaf c b blk :
      enterable c b -> fblock f b = Some blk -> leaf_global f blk = true ->
      GoodPathFrom c b [b]
  | GP_step c b c' b' rest :
      pstep c b c' b' -> GoodPathFrom c' b' rest ->
      GoodPathFrom c b (b :: rest).

  (* the initial configuration: main's frame, nothing visited *)
  Definition init_config : config := ([(None, "")], [[]]).

  Definition GoodPath (p : list nat) : Prop := GoodPathFrom init_config (fn_entry f) p.
End Paths.
