(* Specification: interprocedural runs (executions) of a function's global control-flow graph.

   Declarative: no fuel, no worklists, no reference to the analysis.  Unlike Spec/Paths.v (the detector's
   DFS paths) a run may visit a block any number of times and may call a subroutine recursively: real
   executions loop.

   A configuration is (current block, call stack); the call stack lists the callsub blocks of the
   activations that have not returned yet, INNERMOST LAST ([] = executing main).  A run
     - starts at the function's entry block with an empty stack;
     - CALL : a callsub block goes to the entry of the callee and pushes itself on the stack;
     - RET  : a retsub block pops the innermost callsub block cs and goes to the block after cs;
     - EDGE : any other block goes to one of its local successors, the stack is unchanged.
   An accepting run ends at a block where execution terminates (leaf_global); the stack may be non-empty
   there (a subroutine may terminate the program). *)
From Coq Require Import String List Bool Arith.
From Tealer Require Import Syntax Cfg Analysis.
Import ListNotations.
Open Scope list_scope.

Section Runs.
  Variable f : func.

  Definition rconfig := (nat * list nat)%type.

  Inductive rstep : rconfig -> rconfig -> Prop :=
  | RS_call b st blk l s :
      fblock f b = Some blk -> fexit_op f blk = Some (ICallsub l) -> f_find_sub f l = Some s ->
      rstep (b, st) (s_entry s, st ++ [b])
  | RS_ret b st cs blk cb rp :
      fblock f b = Some blk -> fexit_op f blk = Some IRetsub ->
      fblock f cs = Some cb -> sub_return_point cb = Some rp ->
      rstep (b, st ++ [cs]) (rp, st)
  | RS_edge b st blk b' :
      fblock f b = Some blk -> f_is_callsub f blk = false -> f_is_retsub f blk = false ->
      In b' (b_next blk) ->
      rstep (b, st) (b', st).

  (* RunFrom c cfgs: cfgs = c :: ... is a non-empty sequence of configurations, consecutive ones related by rstep *)
  Inductive RunFrom : rconfig -> list rconfig -> Prop :=
  | RF_one c : RunFrom c [c]
  | RF_step c c' rest : rstep c c' -> RunFrom c' rest -> RunFrom c (c :: rest).

  Definition Run (cfgs : list rconfig) : Prop := RunFrom (fn_entry f, []) cfgs.

  (* the last configuration of a run *)
  Definition final (cfgs : list rconfig) : rconfig := last cfgs (fn_entry f, []).

  Definition AcceptingRun (cfgs : list rconfig) : Prop :=
    Run cfgs /\ exists blk, fblock f (fst (final cfgs)) = Some blk /\ leaf_global f blk = true.

  (* every subroutine invoked on the run has returned: the run ends in main's activation.
     (Lemmas/RunLemmas.v, returns_all_matched: then every CALL step of the run is followed, later on the
      run, by the RET step that pops the frame it pushed.) *)
  Definition returns_all (cfgs : list rconfig) : Prop := snd (final cfgs) = [].

  (* the run lets a value through: the value passes every block of the run without failing (okb) and can
     take every edge b -> b' between consecutive configurations of the run (oke) *)
  Section Admissibility.
    Variable okb : nat -> Prop.
    Variable oke : nat -> nat -> Prop.
    Definition run_passes (cfgs : list rconfig) : Prop :=
      (forall c, In c cfgs -> okb (fst c)) /\
      (forall pre c c' post, cfgs = pre ++ c :: c' :: post -> oke (fst c) (fst c')).
  End Admissibility.
End Runs.
