(* Independent, declarative specification of RFC 4648 base64 / base32 ENCODING of a byte string, and of the
   lower-case hexadecimal rendering of a byte string.

   Nothing here refers to the model (Model/Parse.v).  The encoding is defined the way RFC 4648 sections 4 and 6
   describe it: the input bytes are read as one big-endian bit stream, the stream is cut into 6-bit (base64) or
   5-bit (base32) groups, the last partial group is completed with zero bits, every group is the index of a
   character in the alphabet, and the output is optionally completed with "=" to a multiple of 4 (base64) or
   8 (base32) characters.

   A byte string is a [list N] whose elements are < 256 ([is_bytes]); [bytes_of_string] gives the bytes of a
   Coq [string] (always [is_bytes]). *)
From Coq Require Import String List NArith Ascii Bool.
Import ListNotations.
Open Scope N_scope.

Definition is_bytes (bs : list N) : Prop := Forall (fun b => b < 256) bs.
Definition bytes_of_string (s : string) : list N := map N_of_ascii (list_ascii_of_string s).

(* ---------------------------------------------------------------- bytes -> bit stream (most significant bit first) *)
Definition bits_of_byte (b : N) : list bool := map (N.testbit b) [7; 6; 5; 4; 3; 2; 1; 0].
Definition bits_of_bytes (bs : list N) : list bool := flat_map bits_of_byte bs.

(* big-endian value of a bit group *)
Definition bits_val (l : list bool) : N :=
  fold_left (fun a (b : bool) => 2 * a + (if b then 1 else 0)) l 0.

(* ---------------------------------------------------------------- bit stream -> groups of k bits, last one zero-filled *)
Definition pad_to (k : nat) (l : list bool) : list bool := l ++ repeat false (k - length l).
Fixpoint chunks_fuel (fuel k : nat) (l : list bool) : list (list bool) :=
  match fuel with
  | O => []
  | S f =>
      match l with
      | [] => []
      | _ => pad_to k (firstn k l) :: chunks_fuel f k (skipn k l)
      end
  end.
Definition chunks (k : nat) (l : list bool) : list (list bool) := chunks_fuel (length l) k l.

(* ---------------------------------------------------------------- alphabets (RFC 4648 tables 1 and 3) *)
Definition b64_alphabet : string := "ABCDEFGHIJKLMNOPQRSTUVWXYZabcdefghijklmnopqrstuvwxyz0123456789+/".
Definition b32_alphabet : string := "ABCDEFGHIJKLMNOPQRSTUVWXYZ234567".
Definition hex_alphabet : string := "0123456789abcdef".

(* the character with index [v] of an alphabet ("=" never happens for in-range indices) *)
Definition sym (alphabet : string) (v : N) : ascii :=
  match String.get (N.to_nat v) alphabet with Some c => c | None => "="%char end.

(* ---------------------------------------------------------------- encoders *)
Definition encode_nopad (alphabet : string) (k : nat) (bs : list N) : string :=
  string_of_list_ascii (map (fun g => sym alphabet (bits_val g)) (chunks k (bits_of_bytes bs))).

Definition b64_encode_nopad (bs : list N) : string := encode_nopad b64_alphabet 6 bs.
Definition b32_encode_nopad (bs : list N) : string := encode_nopad b32_alphabet 5 bs.

(* [n] padding characters *)
Fixpoint eqs (n : nat) : string :=
  match n with O => EmptyString | S m => String "="%char (eqs m) end.
(* number of "=" needed to reach a multiple of [q] characters *)
Definition pad_count (q n : nat) : nat := Nat.modulo (q - Nat.modulo n q) q.

Definition b64_encode (bs : list N) : string :=
  let s := b64_encode_nopad bs in (s ++ eqs (pad_count 4 (String.length s)))%string.
Definition b32_encode (bs : list N) : string :=
  let s := b32_encode_nopad bs in (s ++ eqs (pad_count 8 (String.length s)))%string.

(* ---------------------------------------------------------------- lower-case hex: two digits per byte, high nibble first *)
Fixpoint hex_spec (bs : list N) : string :=
  match bs with
  | [] => EmptyString
  | b :: t => String (sym hex_alphabet (b / 16)) (String (sym hex_alphabet (b mod 16)) (hex_spec t))
  end.

(* ---------------------------------------------------------------- RFC 4648 section 10 test vectors, through the spec *)
Example rfc_b64_0 : b64_encode (bytes_of_string "") = ""%string.            Proof. vm_compute. reflexivity. Qed.
Example rfc_b64_1 : b64_encode (bytes_of_string "f") = "Zg=="%string.       Proof. vm_compute. reflexivity. Qed.
Example rfc_b64_2 : b64_encode (bytes_of_string "fo") = "Zm8="%string.      Proof. vm_compute. reflexivity. Qed.
Example rfc_b64_3 : b64_encode (bytes_of_string "foo") = "Zm9v"%string.     Proof. vm_compute. reflexivity. Qed.
Example rfc_b64_4 : b64_encode (bytes_of_string "foob") = "Zm9vYg=="%string.   Proof. vm_compute. reflexivity. Qed.
Example rfc_b64_5 : b64_encode (bytes_of_string "fooba") = "Zm9vYmE="%string.  Proof. vm_compute. reflexivity. Qed.
Example rfc_b64_6 : b64_encode (bytes_of_string "foobar") = "Zm9vYmFy"%string. Proof. vm_compute. reflexivity. Qed.

Example rfc_b32_0 : b32_encode (bytes_of_string "") = ""%string.                  Proof. vm_compute. reflexivity. Qed.
Example rfc_b32_1 : b32_encode (bytes_of_string "f") = "MY======"%string.         Proof. vm_compute. reflexivity. Qed.
Example rfc_b32_2 : b32_encode (bytes_of_string "fo") = "MZXQ===="%string.        Proof. vm_compute. reflexivity. Qed.
Example rfc_b32_3 : b32_encode (bytes_of_string "foo") = "MZXW6==="%string.       Proof. vm_compute. reflexivity. Qed.
Example rfc_b32_4 : b32_encode (bytes_of_string "foob") = "MZXW6YQ="%string.      Proof. vm_compute. reflexivity. Qed.
Example rfc_b32_5 : b32_encode (bytes_of_string "fooba") = "MZXW6YTB"%string.     Proof. vm_compute. reflexivity. Qed.
Example rfc_b32_6 : b32_encode (bytes_of_string "foobar") = "MZXW6YTBOI======"%string. Proof. vm_compute. reflexivity. Qed.

Example rfc_b64_nopad_1 : b64_encode_nopad (bytes_of_string "f") = "Zg"%string.       Proof. vm_compute. reflexivity. Qed.
Example rfc_b64_nopad_5 : b64_encode_nopad (bytes_of_string "fooba") = "Zm9vYmE"%string. Proof. vm_compute. reflexivity. Qed.
Example rfc_b32_nopad_1 : b32_encode_nopad (bytes_of_string "f") = "MY"%string.       Proof. vm_compute. reflexivity. Qed.
Example rfc_b32_nopad_6 : b32_encode_nopad (bytes_of_string "foobar") = "MZXW6YTBOI"%string. Proof. vm_compute. reflexivity. Qed.

(* RFC 4648 section 10 base16 vectors are upper-case; tealer (Python bytes.hex()) and this spec use lower case *)
Example hex_foobar : hex_spec (bytes_of_string "foobar") = "666f6f626172"%string. Proof. vm_compute. reflexivity. Qed.
Example hex_edges : hex_spec [0; 9; 10; 15; 16; 171; 255] = "00090a0f10abff"%string. Proof. vm_compute. reflexivity. Qed.
(* all 64 / 32 symbols, in order: the encodings of the byte strings whose bit streams enumerate the groups *)
Example b64_all_symbols :
  b64_encode_nopad [0;16;131;16;81;135;32;146;139;48;211;143;65;20;147;81;85;151;97;150;155;113;215;159;130;24;163;146;89;167;162;154;171;178;219;175;195;28;179;211;93;183;227;158;187;243;223;191]
  = b64_alphabet.
Proof. vm_compute. reflexivity. Qed.
Example b32_all_symbols :
  b32_encode_nopad [0;68;50;20;199;66;84;182;53;207;132;101;58;86;215;198;117;190;119;223] = b32_alphabet.
Proof. vm_compute. reflexivity. Qed.
