(* ==========================================================================================
   Spec/AvmTables.v  --  AVM (TEAL) opcode and field tables, program versions 1..8.

   THIS FILE IS A HAND TRANSCRIPTION OF THE AVM SPECIFICATION (go-algorand data/transactions/logic:
   README / TEAL_opcodes.md / langspec, as of program version 8) WRITTEN FROM KNOWLEDGE OF THE
   SPECIFICATION, *not* derived from the analyzer's source nor from Gen/Tables.v.  It is the
   independent "second source" against which Lemmas/TableLemmas.v compares the generated tables,
   and therefore IT IS PART OF THE TRUSTED BASE: an error here is an error in the statement of
   property C19 / C11, not something any proof can detect.

   Conventions
   - a_version : program version in which the opcode became available.
   - a_mode    : MStateless = LogicSig only, MStateful = application only, MAny = both.
                 (final, v8, classification; see the remark on ed25519verify.)
   - a_pops / a_pushes : number of stack values consumed / produced, as a function of the
                 immediates.  For the deep-stack opcodes we use the "window" convention
                 (the instruction pops the whole window it touches and pushes it back):
                   dig n     pops n+1 pushes n+2        cover n / uncover n  pop n+1 push n+1
                   bury n    pops n+1 pushes n          popn n  pops n       dupn n  pops 1 pushes n+1
                 frame_dig / frame_bury are relative to the frame pointer: net effect +1 / -1,
                 recorded as 0/1 and 1/0.  proto has no stack effect.
   - a_cost v  : opcode cost when executed in a program of version v.  Where the real cost has an
                 input-length-dependent part (base64_decode, json_ref; b-math is constant in v8)
                 only the constant part is recorded -- see comments.  Values for v below a_version
                 are meaningless (the opcode does not exist there) and just repeat the formula.
   - entries marked (* unsure *) are those where my recollection of the spec is not certain.
   ========================================================================================== *)
From Coq Require Import String List NArith Bool.
From Tealer Require Import Tables.
Import ListNotations.
Open Scope string_scope.
Open Scope N_scope.

Inductive arity :=
| ArK (k : nat)                 (* constant *)
| ArN (plus : nat)              (* first immediate n, plus a constant:  n + plus *)
| ArLen (plus : nat)            (* number of elements of the immediate list, plus a constant *)
| ArOpt (without_imm with_imm : nat).  (* pseudo-op whose arity depends on presence of the immediate *)

Record avm_op := { a_mnemonic : string; a_version : N; a_mode : xmode;
                   a_pops : arity; a_pushes : arity; a_cost : N (* program version *) -> N }.

(* helper constructors: constant arity / cost 1;  constant arity / constant cost;  general *)
Definition op  (mn : string) (v : N) (m : xmode) (po pu : nat) : avm_op :=
  Build_avm_op mn v m (ArK po) (ArK pu) (fun _ => 1).
Definition opc (mn : string) (v : N) (m : xmode) (po pu : nat) (c : N) : avm_op :=
  Build_avm_op mn v m (ArK po) (ArK pu) (fun _ => c).
Definition opg (mn : string) (v : N) (m : xmode) (po pu : arity) (c : N -> N) : avm_op :=
  Build_avm_op mn v m po pu c.
Definition one : N -> N := fun _ => 1.
(* v1 price, then the price from v2 on *)
Definition v1_then (c1 c2 : N) : N -> N := fun v => if N.leb v 1 then c1 else c2.

Notation App := MStateful (only parsing).
Notation Sig := MStateless (only parsing).
Notation Any := MAny (only parsing).

Definition avm_ops : list avm_op := [
  (* ------------------------------------------------------------------ v1 *)
  op  "err" 1 Any 0 0;
  opg "sha256"     1 Any (ArK 1) (ArK 1) (v1_then 7 35);
  opg "keccak256"  1 Any (ArK 1) (ArK 1) (v1_then 26 130);
  opg "sha512_256" 1 Any (ArK 1) (ArK 1) (v1_then 9 45);
  (* ed25519verify: LogicSig-only in program versions 1..4, any mode from v5 on; v8 table says Any *)
  opc "ed25519verify" 1 Any 3 1 1900;
  op  "+" 1 Any 2 1;  op "-" 1 Any 2 1;  op "/" 1 Any 2 1;  op "*" 1 Any 2 1;
  op  "<" 1 Any 2 1;  op ">" 1 Any 2 1;  op "<=" 1 Any 2 1; op ">=" 1 Any 2 1;
  op  "&&" 1 Any 2 1; op "||" 1 Any 2 1; op "==" 1 Any 2 1; op "!=" 1 Any 2 1;
  op  "!" 1 Any 1 1;
  op  "len" 1 Any 1 1; op "itob" 1 Any 1 1; op "btoi" 1 Any 1 1;
  op  "%" 1 Any 2 1;  op "|" 1 Any 2 1;  op "&" 1 Any 2 1;  op "^" 1 Any 2 1;
  op  "~" 1 Any 1 1;
  op  "mulw" 1 Any 2 2;
  op  "intcblock" 1 Any 0 0;
  op  "intc" 1 Any 0 1; op "intc_0" 1 Any 0 1; op "intc_1" 1 Any 0 1; op "intc_2" 1 Any 0 1; op "intc_3" 1 Any 0 1;
  op  "bytecblock" 1 Any 0 0;
  op  "bytec" 1 Any 0 1; op "bytec_0" 1 Any 0 1; op "bytec_1" 1 Any 0 1; op "bytec_2" 1 Any 0 1; op "bytec_3" 1 Any 0 1;
  op  "arg" 1 Sig 0 1; op "arg_0" 1 Sig 0 1; op "arg_1" 1 Sig 0 1; op "arg_2" 1 Sig 0 1; op "arg_3" 1 Sig 0 1;
  op  "txn" 1 Any 0 1;
  op  "global" 1 Any 0 1;
  op  "gtxn" 1 Any 0 1;
  op  "load" 1 Any 0 1;
  op  "store" 1 Any 1 0;
  op  "bnz" 1 Any 1 0;
  op  "pop" 1 Any 1 0;
  op  "dup" 1 Any 1 2;
  (* ------------------------------------------------------------------ v2 *)
  op  "addw" 2 Any 2 2;
  op  "txna" 2 Any 0 1;
  op  "gtxna" 2 Any 0 1;
  op  "bz" 2 Any 1 0;
  op  "b" 2 Any 0 0;
  op  "return" 2 Any 1 0;
  op  "dup2" 2 Any 2 4;
  op  "concat" 2 Any 2 1;
  op  "substring" 2 Any 1 1;
  op  "substring3" 2 Any 3 1;
  op  "balance" 2 App 1 1;
  op  "app_opted_in" 2 App 2 1;
  op  "app_local_get" 2 App 2 1;
  op  "app_local_get_ex" 2 App 3 2;
  op  "app_global_get" 2 App 1 1;
  op  "app_global_get_ex" 2 App 2 2;
  op  "app_local_put" 2 App 3 0;
  op  "app_global_put" 2 App 2 0;
  op  "app_local_del" 2 App 2 0;
  op  "app_global_del" 2 App 1 0;
  op  "asset_holding_get" 2 App 2 2;
  op  "asset_params_get" 2 App 1 2;
  (* ------------------------------------------------------------------ v3 *)
  op  "gtxns" 3 Any 1 1;
  op  "gtxnsa" 3 Any 1 1;
  op  "assert" 3 Any 1 0;
  opg "dig" 3 Any (ArN 1) (ArN 2) one;
  op  "swap" 3 Any 2 2;
  op  "select" 3 Any 3 1;
  op  "getbit" 3 Any 2 1;
  op  "setbit" 3 Any 3 1;
  op  "getbyte" 3 Any 2 1;
  op  "setbyte" 3 Any 3 1;
  op  "min_balance" 3 App 1 1;
  op  "pushbytes" 3 Any 0 1;
  op  "pushint" 3 Any 0 1;
  (* ------------------------------------------------------------------ v4 *)
  op  "gload" 4 App 0 1;
  op  "gloads" 4 App 1 1;
  op  "gaid" 4 App 0 1;
  op  "gaids" 4 App 1 1;
  op  "callsub" 4 Any 0 0;
  op  "retsub" 4 Any 0 0;
  op  "shl" 4 Any 2 1;
  op  "shr" 4 Any 2 1;
  opc "sqrt" 4 Any 1 1 4;
  op  "bitlen" 4 Any 1 1;
  op  "exp" 4 Any 2 1;
  opc "expw" 4 Any 2 2 10;
  opc "divmodw" 4 Any 4 4 20;
  opc "b+" 4 Any 2 1 10;
  opc "b-" 4 Any 2 1 10;
  opc "b/" 4 Any 2 1 20;
  opc "b*" 4 Any 2 1 20;
  op  "b<" 4 Any 2 1;  op "b>" 4 Any 2 1;  op "b<=" 4 Any 2 1;  op "b>=" 4 Any 2 1;
  op  "b==" 4 Any 2 1; op "b!=" 4 Any 2 1;
  opc "b%" 4 Any 2 1 20;
  opc "b|" 4 Any 2 1 6;
  opc "b&" 4 Any 2 1 6;
  opc "b^" 4 Any 2 1 6;
  opc "b~" 4 Any 1 1 4;
  op  "bzero" 4 Any 1 1;
  (* ------------------------------------------------------------------ v5 *)
  (* ecdsa_*: cost depends on the curve immediate; a_cost is the Secp256k1 (index 0) price,
     Secp256r1 (available from v7) is given by avm_curve_cost below *)
  opc "ecdsa_verify" 5 Any 5 1 1700;
  opc "ecdsa_pk_decompress" 5 Any 1 2 650;
  opc "ecdsa_pk_recover" 5 Any 4 2 2000;
  op  "loads" 5 Any 1 1;
  op  "stores" 5 Any 2 0;
  opg "cover" 5 Any (ArN 1) (ArN 1) one;
  opg "uncover" 5 Any (ArN 1) (ArN 1) one;
  op  "extract" 5 Any 1 1;
  op  "extract3" 5 Any 3 1;
  op  "extract_uint16" 5 Any 2 1;
  op  "extract_uint32" 5 Any 2 1;
  op  "extract_uint64" 5 Any 2 1;
  op  "app_params_get" 5 App 1 2;
  op  "log" 5 App 1 0;
  op  "itxn_begin" 5 App 0 0;
  op  "itxn_field" 5 App 1 0;
  op  "itxn_submit" 5 App 0 0;
  op  "itxn" 5 App 0 1;
  op  "itxna" 5 App 0 1;
  op  "txnas" 5 Any 1 1;
  op  "gtxnas" 5 Any 1 1;
  op  "gtxnsas" 5 Any 2 1;
  op  "args" 5 Sig 1 1;
  (* ------------------------------------------------------------------ v6 *)
  opc "bsqrt" 6 Any 1 1 40;
  op  "divw" 6 Any 3 1;
  op  "gloadss" 6 App 2 1;
  op  "acct_params_get" 6 App 1 2;
  op  "itxn_next" 6 App 0 0;
  op  "gitxn" 6 App 0 1;
  op  "gitxna" 6 App 0 1;
  op  "itxnas" 6 App 1 1;
  op  "gitxnas" 6 App 1 1;
  (* ------------------------------------------------------------------ v7 *)
  op  "replace2" 7 Any 2 1;
  op  "replace3" 7 Any 3 1;
  opc "base64_decode" 7 Any 1 1 1;        (* real cost: 1 + 1 per 16 bytes of A; constant part only *)
  opc "json_ref" 7 Any 2 1 25;            (* real cost: 25 + 2 per 7 bytes of A; constant part only *)
  opc "ed25519verify_bare" 7 Any 3 1 1900;
  opc "sha3_256" 7 Any 1 1 130;
  opc "vrf_verify" 7 Any 3 2 5700;
  op  "block" 7 Any 1 1;                  (* unsure about mode: no "Mode: Application" line in the spec as I recall it *)
  (* ------------------------------------------------------------------ v8 *)
  opg "bury" 8 Any (ArN 1) (ArN 0) one;
  opg "popn" 8 Any (ArN 0) (ArK 0) one;
  opg "dupn" 8 Any (ArK 1) (ArN 1) one;
  opg "pushbytess" 8 Any (ArK 0) (ArLen 0) one;
  opg "pushints" 8 Any (ArK 0) (ArLen 0) one;
  op  "proto" 8 Any 0 0;
  op  "frame_dig" 8 Any 0 1;
  op  "frame_bury" 8 Any 1 0;
  opg "switch" 8 Any (ArK 1) (ArK 0) one;
  opg "match" 8 Any (ArLen 1) (ArK 0) one;
  op  "box_create" 8 App 2 1;
  op  "box_extract" 8 App 3 1;
  op  "box_replace" 8 App 3 0;
  op  "box_del" 8 App 1 1;
  op  "box_len" 8 App 1 2;
  op  "box_get" 8 App 1 2;
  op  "box_put" 8 App 2 0
].

(* Assembler pseudo-ops (no opcode byte of their own; the assembler lowers them to real opcodes).
   int/byte/addr/method are lowered to intc*/bytec* (constant blocks) and are accepted in every
   version; `replace` lowers to replace3 (no immediate) or replace2 (one immediate). *)
Definition avm_pseudo_ops : list avm_op := [
  op  "int" 1 Any 0 1;
  op  "byte" 1 Any 0 1;
  op  "addr" 1 Any 0 1;
  op  "method" 1 Any 0 1;                 (* unsure: I recall the assembler accepting it in every version (it only emits a bytes constant); it was added to the assembler in the v5/v6 era *)
  opg "replace" 7 Any (ArOpt 3 2) (ArK 1) one
].

(* Version-dependent execution mode.  The only opcode whose mode changed: ed25519verify was
   LogicSig-only in program versions 1..4 and is available in both modes from v5 on. *)
Definition avm_mode_at (o : avm_op) (v : N) : xmode :=
  if String.eqb (a_mnemonic o) "ed25519verify" && N.leb v 4 then MStateless else a_mode o.

(* curve-dependent costs: (mnemonic, curve, curve introduction version, cost) *)
Definition avm_curve_cost : list (string * string * N * N) := [
  ("ecdsa_verify", "Secp256k1", 5, 1700);        ("ecdsa_verify", "Secp256r1", 7, 2500);
  ("ecdsa_pk_decompress", "Secp256k1", 5, 650);  ("ecdsa_pk_decompress", "Secp256r1", 7, 2400);
  ("ecdsa_pk_recover", "Secp256k1", 5, 2000)     (* ecdsa_pk_recover is not defined for Secp256r1 *)
].

(* meaning of an arity, given the instruction's immediates: value of the first immediate (if it is
   a number), length of the immediate list (if it is a list), and whether the optional immediate of a
   pseudo-op is present.  None = the arity is not defined for such immediates. *)
Definition arity_value (a : arity) (imm_n imm_len : option nat) (imm_present : option bool) : option nat :=
  match a with
  | ArK k => Some k
  | ArN p => option_map (fun n => (n + p)%nat) imm_n
  | ArLen p => option_map (fun n => (n + p)%nat) imm_len
  | ArOpt without_imm with_imm => option_map (fun b : bool => if b then with_imm else without_imm) imm_present
  end.

Fixpoint lookup_op_in (l : list avm_op) (mn : string) : option avm_op :=
  match l with
  | [] => None
  | o :: t => if String.eqb (a_mnemonic o) mn then Some o else lookup_op_in t mn
  end.
Definition lookup_op (mn : string) : option avm_op := lookup_op_in (avm_ops ++ avm_pseudo_ops) mn.

Fixpoint lookup_curve_in (l : list (string * string * N * N)) (mn curve : string) : option (N * N) :=
  match l with
  | [] => None
  | (m, c, v, k) :: t => if String.eqb m mn && String.eqb c curve then Some (v, k) else lookup_curve_in t mn curve
  end.
(* cost of opcode o when its (first) immediate is the curve name `curve`, in a version-v program *)
Definition avm_cost_curve (o : avm_op) (curve : string) (v : N) : N :=
  match lookup_curve_in avm_curve_cost (a_mnemonic o) curve with
  | Some (_, k) => k
  | None => a_cost o v
  end.

(* ------------------------------------------------------------------ field tables: (name, introduction version) *)
Definition avm_txn_fields : list (string * N) := [
  ("Sender", 1); ("Fee", 1); ("FirstValid", 1);
  ("FirstValidTime", 7);   (* unsure: listed (always failing, "reserved") since v1 in old specs; functional and versioned 7 in the v7+ spec *)
  ("LastValid", 1); ("Note", 1); ("Lease", 1); ("Receiver", 1); ("Amount", 1); ("CloseRemainderTo", 1);
  ("VotePK", 1); ("SelectionPK", 1); ("VoteFirst", 1); ("VoteLast", 1); ("VoteKeyDilution", 1);
  ("Type", 1); ("TypeEnum", 1); ("XferAsset", 1); ("AssetAmount", 1); ("AssetSender", 1);
  ("AssetReceiver", 1); ("AssetCloseTo", 1); ("GroupIndex", 1); ("TxID", 1);
  ("ApplicationID", 2); ("OnCompletion", 2); ("ApplicationArgs", 2); ("NumAppArgs", 2);
  ("Accounts", 2); ("NumAccounts", 2); ("ApprovalProgram", 2); ("ClearStateProgram", 2); ("RekeyTo", 2);
  ("ConfigAsset", 2); ("ConfigAssetTotal", 2); ("ConfigAssetDecimals", 2); ("ConfigAssetDefaultFrozen", 2);
  ("ConfigAssetUnitName", 2); ("ConfigAssetName", 2); ("ConfigAssetURL", 2); ("ConfigAssetMetadataHash", 2);
  ("ConfigAssetManager", 2); ("ConfigAssetReserve", 2); ("ConfigAssetFreeze", 2); ("ConfigAssetClawback", 2);
  ("FreezeAsset", 2); ("FreezeAssetAccount", 2); ("FreezeAssetFrozen", 2);
  ("Assets", 3); ("NumAssets", 3); ("Applications", 3); ("NumApplications", 3);
  ("GlobalNumUint", 3); ("GlobalNumByteSlice", 3); ("LocalNumUint", 3); ("LocalNumByteSlice", 3);
  ("ExtraProgramPages", 4);
  ("Nonparticipation", 5); ("Logs", 5); ("NumLogs", 5); ("CreatedAssetID", 5); ("CreatedApplicationID", 5);
  ("LastLog", 6); ("StateProofPK", 6);
  ("ApprovalProgramPages", 7); ("NumApprovalProgramPages", 7);
  ("ClearStateProgramPages", 7); ("NumClearStateProgramPages", 7)
].
(* the array-valued transaction fields (usable with txna/gtxna/...; subset of the above) *)
Definition avm_txn_array_fields : list (string * N) := [
  ("ApplicationArgs", 2); ("Accounts", 2); ("Assets", 3); ("Applications", 3); ("Logs", 5);
  ("ApprovalProgramPages", 7); ("ClearStateProgramPages", 7)
].
Definition avm_global_fields : list (string * N) := [
  ("MinTxnFee", 1); ("MinBalance", 1); ("MaxTxnLife", 1); ("ZeroAddress", 1); ("GroupSize", 1);
  ("LogicSigVersion", 2); ("Round", 2); ("LatestTimestamp", 2); ("CurrentApplicationID", 2);
  ("CreatorAddress", 3);
  ("CurrentApplicationAddress", 5); ("GroupID", 5);
  ("OpcodeBudget", 6); ("CallerApplicationID", 6); ("CallerApplicationAddress", 6)
].
Definition avm_asset_holding_fields : list (string * N) := [ ("AssetBalance", 2); ("AssetFrozen", 2) ].
Definition avm_asset_params_fields : list (string * N) := [
  ("AssetTotal", 2); ("AssetDecimals", 2); ("AssetDefaultFrozen", 2); ("AssetUnitName", 2); ("AssetName", 2);
  ("AssetURL", 2); ("AssetMetadataHash", 2); ("AssetManager", 2); ("AssetReserve", 2); ("AssetFreeze", 2);
  ("AssetClawback", 2); ("AssetCreator", 5)
].
Definition avm_app_params_fields : list (string * N) := [
  ("AppApprovalProgram", 5); ("AppClearStateProgram", 5); ("AppGlobalNumUint", 5); ("AppGlobalNumByteSlice", 5);
  ("AppLocalNumUint", 5); ("AppLocalNumByteSlice", 5); ("AppExtraProgramPages", 5); ("AppCreator", 5); ("AppAddress", 5)
].
Definition avm_acct_params_fields : list (string * N) := [
  ("AcctBalance", 6); ("AcctMinBalance", 6); ("AcctAuthAddr", 6);
  ("AcctTotalNumUint", 8); ("AcctTotalNumByteSlice", 8); ("AcctTotalExtraAppPages", 8);
  ("AcctTotalAppsCreated", 8); ("AcctTotalAppsOptedIn", 8); ("AcctTotalAssetsCreated", 8);
  ("AcctTotalAssets", 8); ("AcctTotalBoxes", 8); ("AcctTotalBoxBytes", 8)
].
(* other immediate-argument groups of v8 (not present in the generated tables; for completeness) *)
Definition avm_ecdsa_curves : list (string * N) := [ ("Secp256k1", 5); ("Secp256r1", 7) ].
Definition avm_base64_encodings : list (string * N) := [ ("URLEncoding", 7); ("StdEncoding", 7) ].
Definition avm_json_ref_types : list (string * N) := [ ("JSONString", 7); ("JSONUint64", 7); ("JSONObject", 7) ].
Definition avm_block_fields : list (string * N) := [ ("BlkSeed", 7); ("BlkTimestamp", 7) ].
Definition avm_vrf_standards : list (string * N) := [ ("VrfAlgorand", 7) ].

Fixpoint lookup_field (l : list (string * N)) (f : string) : option N :=
  match l with
  | [] => None
  | (n, v) :: t => if String.eqb n f then Some v else lookup_field t f
  end.

(* sanity: number of opcodes, and mnemonics are pairwise distinct *)
Lemma avm_ops_count : length avm_ops = 173%nat.
Proof. reflexivity. Qed.

Fixpoint nodupb (l : list string) : bool :=
  match l with
  | [] => true
  | x :: t => negb (existsb (String.eqb x) t) && nodupb t
  end.
Lemma avm_mnemonics_distinct : nodupb (map a_mnemonic (avm_ops ++ avm_pseudo_ops)) = true.
Proof. vm_compute. reflexivity. Qed.
