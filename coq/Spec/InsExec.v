(* Specification: instruction-level (program-counter) control semantics of a TEAL program.

   CFG-free: no blocks, no successor lists, no subroutine tables.  A program is the list of its
   instructions ([Cfg.prog]; positions = list indices; a label is an instruction of its own, as in the
   analysed tool).  A configuration is (pc, return stack); the return stack lists the return pcs of the
   subroutine activations that have not returned yet, INNERMOST LAST (as the call stack of Spec/Runs.v).

   Control is nondeterministic in data (the data stack is not modelled):
     b L            jumps to the position of label L;
     bz L / bnz L   either falls through to pc+1 or jumps to L;
     switch / match L1 .. Ln   jumps to any Li or falls through;
     callsub L      pushes pc+1 and jumps to L;
     retsub         pops a return pc and continues there;
     return / err   have no successor;
     anything else  goes to pc+1.
   The program counter never leaves the program: a step whose target would be [length p] does not exist
   (the AVM stops there: falling off the end, and returning to the end after a final callsub, terminate
   the program).  A retsub with an empty return stack has no successor (the AVM fails).

   Labels: a label names the position of its LAST definition ([label_at]); this is the resolution used by
   the tool (a dict overwritten by later definitions) and it is the only position when labels are defined
   once, which the TEAL assembler enforces ([label_at_unique_def]). *)
From Coq Require Import String List Bool Arith Lia.
From Tealer Require Import Syntax Cfg.
Import ListNotations.
Open Scope list_scope.

(* position k holds the last definition of label l *)
Definition label_at (p : prog) (l : string) (k : nat) : Prop :=
  op_at p k = Some (ILabel l) /\ forall k', k < k' -> op_at p k' <> Some (ILabel l).

(* instructions after which control may continue with the next instruction *)
Definition falls_through (i : instr) : bool :=
  match i with
  | IB _ | IErr | IReturn | IRetsub | ICallsub _ => false
  | _ => true
  end.

Definition iconfig := (nat * list nat)%type.

Section InsExec.
  Variable p : prog.

  Inductive istep : iconfig -> iconfig -> Prop :=
  | IS_b pc st l k :
      op_at p pc = Some (IB l) -> label_at p l k -> istep (pc, st) (k, st)
  | IS_bz pc st l k :
      op_at p pc = Some (IBZ l) -> label_at p l k -> istep (pc, st) (k, st)
  | IS_bnz pc st l k :
      op_at p pc = Some (IBNZ l) -> label_at p l k -> istep (pc, st) (k, st)
  | IS_switch pc st ls l k :
      op_at p pc = Some (ISwitch ls) -> In l ls -> label_at p l k -> istep (pc, st) (k, st)
  | IS_match pc st ls l k :
      op_at p pc = Some (IMatch ls) -> In l ls -> label_at p l k -> istep (pc, st) (k, st)
  | IS_call pc st l k :
      op_at p pc = Some (ICallsub l) -> label_at p l k -> istep (pc, st) (k, st ++ [S pc])
  | IS_ret pc st r :
      op_at p pc = Some IRetsub -> r < length p -> istep (pc, st ++ [r]) (r, st)
  | IS_next pc st i :
      op_at p pc = Some i -> falls_through i = true -> S pc < length p -> istep (pc, st) (S pc, st).

  (* IRunFrom c cfgs: cfgs = c :: ... is a non-empty sequence of configurations, consecutive ones related by istep *)
  Inductive IRunFrom : iconfig -> list iconfig -> Prop :=
  | IRF_one c : IRunFrom c [c]
  | IRF_step c c' rest : istep c c' -> IRunFrom c' rest -> IRunFrom c (c :: rest).

  (* executions start at the first instruction with an empty return stack *)
  Definition IRun (cfgs : list iconfig) : Prop := IRunFrom (0, []) cfgs.

  Inductive IReach : iconfig -> Prop :=
  | IReach_init : IReach (0, [])
  | IReach_step c c' : IReach c -> istep c c' -> IReach c'.
End InsExec.

(* ------------------------------------------------------------------ label resolution agrees with the tool's *)
Lemma op_at_cons i t j : op_at (i :: t) (S j) = op_at t j.
Proof. reflexivity. Qed.

Lemma find_label_from_char l : forall p k acc,
  ((forall j, op_at p j <> Some (ILabel l)) /\ find_label_from l p k acc = acc) \/
  (exists j, op_at p j = Some (ILabel l) /\ (forall j', j < j' -> op_at p j' <> Some (ILabel l)) /\
             find_label_from l p k acc = Some (k + j)).
Proof.
  induction p as [|i t IH]; intros k acc.
  - left. split; [|reflexivity]. intros j. unfold op_at. destruct j; discriminate.
  - cbn [find_label_from].
    set (acc' := match i_op i with ILabel l' => if (l' =? l)%string then Some k else acc | _ => acc end).
    destruct (IH (S k) acc') as [[Hno Hr]|(j & Hj & Hlast & Hr)].
    + assert (Hdec : i_op i = ILabel l \/ (i_op i <> ILabel l /\ acc' = acc)).
      { unfold acc'. destruct (i_op i) as [ | lab | | | | | | | | | | | | | | | | | | | | | | | | | | | | | | | | | ] eqn:Eop;
          try (right; split; [discriminate | reflexivity]).
        destruct (String.eqb_spec lab l) as [Hl|Hne]; [left; rewrite Hl; reflexivity|].
        right. split; [congruence | reflexivity]. }
      destruct Hdec as [Hi|[Hi Ha]].
      * right. exists 0. split; [unfold op_at; simpl; rewrite Hi; reflexivity|]. split.
        -- intros j' Hlt. destruct j' as [|j'']; [lia|]. rewrite op_at_cons. apply Hno.
        -- rewrite Hr. unfold acc'. rewrite Hi, String.eqb_refl, Nat.add_0_r. reflexivity.
      * left. split.
        -- intros [|j]; [unfold op_at; simpl; congruence | rewrite op_at_cons; apply Hno].
        -- rewrite Hr. exact Ha.
    + right. exists (S j). split; [rewrite op_at_cons; exact Hj|]. split.
      * intros j' Hlt. destruct j' as [|j'']; [lia|]. rewrite op_at_cons. apply Hlast. lia.
      * rewrite Hr. f_equal. lia.
Qed.

Theorem label_at_find_label p l k : label_at p l k <-> find_label p l = Some k.
Proof.
  unfold find_label, label_at.
  destruct (find_label_from_char l p 0 None) as [[Hno Hr]|(j & Hj & Hlast & Hr)]; rewrite Hr.
  - split; [intros [H _]; exfalso; exact (Hno k H) | discriminate].
  - simpl. split.
    + intros [Hk Hkl]. f_equal.
      destruct (Nat.lt_trichotomy j k) as [Hlt|[E|Hgt]]; [|exact E|].
      * exfalso. exact (Hlast k Hlt Hk).
      * exfalso. exact (Hkl j Hgt Hj).
    + intros E. inversion E; subst k. split; assumption.
Qed.

(* when the label is defined once, it names that definition *)
Lemma label_at_unique_def p l k :
  (forall k1 k2, op_at p k1 = Some (ILabel l) -> op_at p k2 = Some (ILabel l) -> k1 = k2) ->
  (label_at p l k <-> op_at p k = Some (ILabel l)).
Proof.
  intros Hu. split; [intros [H _]; exact H|].
  intros H. split; [exact H|]. intros k' Hlt Hk'. specialize (Hu k k' H Hk'). lia.
Qed.

Lemma label_at_fun p l k k' : label_at p l k -> label_at p l k' -> k = k'.
Proof. rewrite !label_at_find_label. congruence. Qed.

Lemma label_at_lt p l k : label_at p l k -> k < length p.
Proof.
  intros [H _]. unfold op_at in H. apply nth_error_Some. destruct (nth_error p k); [discriminate | discriminate].
Qed.

(* every successor pc is a position of the program *)
Lemma istep_in_range p c c' : istep p c c' -> fst c' < length p.
Proof.
  intros H. destruct H; simpl; try (eapply label_at_lt; eassumption); assumption.
Qed.

Print Assumptions label_at_find_label.
