(* Specification: instruction-level (program-counter) CONCRETE semantics of a TEAL program, for ONE
   transaction group [e : env] (Spec/Eval.v) and ONE opcode semantics [sem : opsem] (Spec/Exec.v).

   CFG-free: no blocks, no successor lists, no subroutine tables.  A program is the list of its
   instructions ([Cfg.prog]; positions = list indices; a label is an instruction of its own).

   A configuration is (pc, return stack, data stack):
     - the return stack lists the return pcs of the subroutine activations that have not returned yet,
       INNERMOST LAST (as in Spec/InsExec.v);
     - the data stack has its TOP AT THE HEAD (as in StackLemmas.cstep / Exec.bexec).

   One step executes the instruction [op] at pc:
     DATA     [StackLemmas.cstep]: the arity comes from Syntax.stack_pop_size / stack_push_size (an opcode of
              unknown arity, or a stack underflow, has no step); the n popped values are handed to
              [sem op pc] DEEPEST FIRST, and the results are pushed in push order;
              the instruction must not fail ([Exec.fails]): err, assert/return of zero, a type error of
              && || ! bz bnz, gtxn/gtxns outside the group have no step;
     CONTROL  as Spec/InsExec.istep, but the conditional branches are decided by the popped value:
                b L            jumps to the position of label L;
                bz L           jumps to L when the popped value is zero, falls through to pc+1 otherwise;
                bnz L          jumps to L when the popped value is not zero, falls through otherwise;
                switch / match L1 .. Ln   jumps to any Li or falls through (their data semantics is
                               outside the fragment of Spec/Exec.v: they stay nondeterministic);
                callsub L      pushes pc+1 on the return stack and jumps to L;
                retsub         pops a return pc and continues there;
                return / err   have no successor;
                anything else  goes to pc+1.
              As in InsExec, the pc never leaves the program (a step to [length p] does not exist) and a
              retsub with an empty return stack has no successor.

   [IExec]    executions start at pc 0 with an empty return stack and an empty data stack.
   [IAccepts] the execution ends in a configuration whose instruction is a `return` that can be executed
              without failing (its popped value is a non-zero integer) while the return stack is EMPTY:
              the program approves the transaction in main's activation.  This is the scope of
              Exec.Accepts; programs that approve by falling off the last instruction, or by a `return`
              inside a subroutine, are outside it. *)
From Coq Require Import String List NArith ZArith Bool Arith.
From Tealer Require Import Tables Syntax Cfg StackAst StackLemmas Eval Exec InsExec.
Import ListNotations.
Open Scope list_scope.

Definition dconfig := (nat * list nat * list cval)%type.

(* the control projection of a configuration / of a trace *)
Definition ctl_of (c : dconfig) : iconfig := let '(pc, st, _) := c in (pc, st).
Definition ctl_trace (tr : list dconfig) : list iconfig := map ctl_of tr.

Section InsSem.
  Variable e : env.
  Variable sem : opsem.
  Variable p : prog.

  (* data effect of the occurrence (op, pc) on stack [cs]: popped arguments (deepest first) and new stack *)
  Definition dexec (op : instr) (pc : nat) (cs : list cval) (args : list cval) (cs' : list cval) : Prop :=
    (exists outs, cstep cval sem op pc cs = Some (args, outs, cs')) /\ fails e op args = false.

  (* control: ctl op args (pc, st) (pc', st') *)
  Inductive ctl : instr -> list cval -> iconfig -> iconfig -> Prop :=
  | C_b l k args pc st :
      label_at p l k -> ctl (IB l) args (pc, st) (k, st)
  | C_bz_jump l k c pc st :
      truthy c = false -> label_at p l k -> ctl (IBZ l) [c] (pc, st) (k, st)
  | C_bz_fall l c pc st :
      truthy c = true -> S pc < length p -> ctl (IBZ l) [c] (pc, st) (S pc, st)
  | C_bnz_jump l k c pc st :
      truthy c = true -> label_at p l k -> ctl (IBNZ l) [c] (pc, st) (k, st)
  | C_bnz_fall l c pc st :
      truthy c = false -> S pc < length p -> ctl (IBNZ l) [c] (pc, st) (S pc, st)
  | C_switch ls l k args pc st :
      In l ls -> label_at p l k -> ctl (ISwitch ls) args (pc, st) (k, st)
  | C_match ls l k args pc st :
      In l ls -> label_at p l k -> ctl (IMatch ls) args (pc, st) (k, st)
  | C_call l k args pc st :
      label_at p l k -> ctl (ICallsub l) args (pc, st) (k, st ++ [S pc])
  | C_ret r args pc st :
      r < length p -> ctl IRetsub args (pc, st ++ [r]) (r, st)
  | C_next i args pc st :
      falls_through i = true ->
      (match i with IBZ _ | IBNZ _ => false | _ => true end) = true ->
      S pc < length p -> ctl i args (pc, st) (S pc, st).

  Inductive dstep : dconfig -> dconfig -> Prop :=
  | DS pc st cs op args cs' pc' st' :
      op_at p pc = Some op -> dexec op pc cs args cs' -> ctl op args (pc, st) (pc', st') ->
      dstep (pc, st, cs) (pc', st', cs').

  (* IExecFrom c tr: tr = c :: ... is a non-empty sequence of configurations, consecutive ones related by dstep *)
  Inductive IExecFrom : dconfig -> list dconfig -> Prop :=
  | IEF_one c : IExecFrom c [c]
  | IEF_step c c' rest : dstep c c' -> IExecFrom c' rest -> IExecFrom c (c :: rest).

  Definition IExec (tr : list dconfig) : Prop := IExecFrom (0, [], []) tr.

  (* the configuration executes a non-failing `return` in main's activation *)
  Definition approves (c : dconfig) : Prop :=
    let '(pc, st, cs) := c in
    st = [] /\ op_at p pc = Some IReturn /\ exists args cs', dexec IReturn pc cs args cs'.

  Definition IAccepts (tr : list dconfig) : Prop :=
    IExec tr /\ approves (last tr (0, [], [])).
End InsSem.

(* recursion freedom at the pc level: no `callsub L` is executed while an activation of L is pending (the
   pending activations are the callsubs just before the return pcs of the return stack), and no subroutine
   carries main's name "".  Implies PathCut.nonrecursive of the execution's block sequence
   (InsSemLemmas.inonrecursive_nonrecursive). *)
Definition inonrecursive (p : prog) (tr : list dconfig) : Prop :=
  forall pc st cs l, In (pc, st, cs) tr -> op_at p pc = Some (ICallsub l) ->
    l <> ""%string /\ forall r, In r st -> op_at p (pred r) <> Some (ICallsub l).
