(* Specification: "the value x is possible at block b", read literally off the function graph.

   Declarative: no fuel, no worklists, no abstract domain, no reference to the solver.  Fix one concrete value x
   and say, for every block and every edge of the global graph, whether its constraint lets x through:
       okb b     the block-level constraint of b admits x (b does not fail on x);
       oke p b   the constraint of the edge p -> b admits x (True when the edge carries no condition).
   Only comparisons against constants put anything into these constraints; every other condition is "free"
   (it admits every value).  With that reading

       LiveOut b   =   "some accepting path through b admits x"

   where a path is a path of the analyzer's own global graph (prev_global / next_global: local edges, callsub
   block -> callee entry, retsub block -> every return point of the callee) together with the graph's own
   call/return matching:
     - going forward, a value that reaches the block after a callsub must also have left that callsub block;
     - going backward, a value that is live at a call site (of a subroutine that can return) must be live at
       the call's return point.
   The definitions are the solver's equations (Model/Analysis.v: reachin / forward, livein / backward) read as
   INDUCTIVE definitions, i.e. their least solution:

       ReachOut b  :=  okb b /\ ReachIn b
       ReachIn b   :=  (b = entry  \/  exists p in prev_global b, ReachOut p /\ oke p b)
                       /\ (b is the block after a callsub block c  ->  ReachOut c)
       LiveOut b   :=  ReachOut b /\
                       (leaf_global b  \/  (exists s in next_global b, LiveOut s)
                                           /\ (b calls a returning subroutine, return point r -> LiveOut r))

   Lemmas/ExactLemmas.v: with an exact concretisation the solver's result holds x at b  iff  LiveOut b. *)
From Coq Require Import String List Bool Arith.
From Tealer Require Import Syntax Cfg Analysis.
Import ListNotations.
Open Scope list_scope.

Section Literal.
  Variable f : func.
  Variable okb : nat -> Prop.           (* x passes block b *)
  Variable oke : nat -> nat -> Prop.    (* x can take the edge p -> b *)

  (* blk is the block after the callsub block c (the solver refines blk with the call site's value) *)
  Definition after_call (blk : block) (c : nat) : Prop :=
    is_sub_return_point f blk = true /\ callsub_block_of f blk = Some c.

  (* blk ends in a callsub of a subroutine that has retsub blocks, and r is the block after blk *)
  Definition returning_call (blk : block) (r : nat) : Prop :=
    exists l s, fexit_op f blk = Some (ICallsub l) /\ sub_return_point blk = Some r /\
                f_find_sub f l = Some s /\ sub_retsub_blocks f s <> [].

  (* x reaches the END of block b along some path from the entry *)
  Inductive ReachOut : nat -> Prop :=
  | RO_entry b blk :                                   (* b is the entry block *)
      fblock f b = Some blk -> okb b ->
      b = fn_entry f ->
      (forall c, after_call blk c -> ReachOut c) ->
      ReachOut b
  | RO_step b blk ps p :                               (* x left a global predecessor p and took the edge p -> b *)
      fblock f b = Some blk -> okb b ->
      prev_global f blk = Some ps -> In p ps -> ReachOut p -> oke p b ->
      (forall c, after_call blk c -> ReachOut c) ->
      ReachOut b.

  (* x reaches the START of block b: the part of ReachOut before b's own constraint *)
  Definition ReachIn (b : nat) : Prop :=
    exists blk, fblock f b = Some blk /\
      (b = fn_entry f \/ exists ps p, prev_global f blk = Some ps /\ In p ps /\ ReachOut p /\ oke p b) /\
      (forall c, after_call blk c -> ReachOut c).

  (* x reaches the end of b AND goes on from b to a block where execution can terminate *)
  Inductive LiveOut : nat -> Prop :=
  | LO_leaf b blk :                                    (* execution can end at b *)
      fblock f b = Some blk -> ReachOut b ->
      leaf_global f blk = true ->
      LiveOut b
  | LO_inner b blk nx s :                              (* x goes on to a global successor s *)
      fblock f b = Some blk -> ReachOut b ->
      next_global f blk = Some nx -> In s nx -> LiveOut s ->
      (forall r, returning_call blk r -> LiveOut r) ->
      LiveOut b.

  (* "x is possible at b": some accepting path through b admits x *)
  Definition possible_at (b : nat) : Prop := LiveOut b.
End Literal.
