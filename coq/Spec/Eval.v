(* Concrete meaning of the operand trees (Model/StackAst.v, [sval]) that the analyses pattern-match.
   This file is a specification: it does not mention the analyzer's helpers (Keys.get_index,
   Keys.is_int_push_ins, the functions of Domains); Lemmas/SingleLemmas.v relates the two. *)
From Coq Require Import String List NArith ZArith Bool.
From Tealer Require Import Syntax StackAst Keys.
Import ListNotations.
Open Scope string_scope.

(* Values.  Addresses are identified by a name; the name "ZERO" is the zero address. *)
Inductive value := VInt (n : Z) | VAddr (a : string) | VOther.

(* A transaction group as seen by the running program. *)
Record env := mkEnv {
  e_size    : N;                      (* number of transactions in the group *)
  e_own     : N;                      (* index of the transaction executing the program *)
  e_field   : N -> string -> value;   (* field valuation of each member of the group *)
  e_creator : string;                 (* name of the application creator's address *)
  e_intcs   : option (list N) }.      (* the contract's intcblock constants, when statically known *)

(* group size 1..16, own index inside the group *)
Definition env_ok (e : env) : Prop := (1 <= e_size e <= 16)%N /\ (e_own e < e_size e)%N.

(* field [f] of member [t]; GroupIndex is the position itself *)
Definition field_of (e : env) (t : N) (f : string) : value :=
  if f =? "GroupIndex" then VInt (Z.of_N t) else e_field e t f.

(* the member at (integer) position j, if j is inside the group *)
Definition member (e : env) (j : Z) : option N :=
  if ((0 <=? j) && (j <? Z.of_N (e_size e)))%Z then Some (Z.to_N j) else None.

(* integer constants: immediate, or taken from the constant block when it is known *)
Definition int_const (e : env) (op : instr) : option N :=
  match op with
  | IInt (IANum n) | IPushInt (IANum n) => Some n
  | IIntc k | IIntcK k =>
      match e_intcs e with Some cs => nth_error cs (N.to_nat k) | None => None end
  | _ => None                                             (* named constants: not in the fragment *)
  end.

(* The textual form of the zero address (32 zero bytes + checksum).  NB: this is NOT the string
   Tables.ZERO_ADDRESS used by the analyzer, which is the address of the public key 10^10
   (finding D19, see SingleLemmas.addr_zero_literal_refuted). *)
Definition ZERO_ADDRESS_TEXT : string := "AAAAAAAAAAAAAAAAAAAAAAAAAAAAAAAAAAAAAAAAAAAAAAAAAAAAY5HFKQ".
Definition addr_name (lit : string) : string := if lit =? ZERO_ADDRESS_TEXT then "ZERO" else lit.

Definition two64 : Z := 18446744073709551616.

(* one instruction applied to the (already evaluated) operands, deepest first.
   None = outside the fragment, or the AVM fails, or the value is not known. *)
Definition eval_op (e : env) (op : instr) (vs : list (option value)) : option value :=
  match op with
  | ITxn (f, None) => Some (field_of e (e_own e) f)
  | IGtxn i (f, None) => if (i <? e_size e)%N then Some (field_of e i f) else None
  | IGtxns (f, None) =>
      match vs with
      | [Some (VInt j)] => option_map (fun t => field_of e t f) (member e j)
      | _ => None
      end
  | IInt _ | IPushInt _ | IIntc _ | IIntcK _ => option_map (fun n => VInt (Z.of_N n)) (int_const e op)
  | IGlobal g =>
      if g =? "GroupSize" then Some (VInt (Z.of_N (e_size e)))
      else if g =? "ZeroAddress" then Some (VAddr "ZERO")
      else if g =? "CreatorAddress" then Some (VAddr (e_creator e))
      else None
  | IAddr a => Some (VAddr (addr_name a))
  | IAdd =>
      match vs with
      | [Some (VInt x); Some (VInt y)] => if (x + y <? two64)%Z then Some (VInt (x + y)) else None
      | _ => None
      end
  | ISub =>
      match vs with
      | [Some (VInt x); Some (VInt y)] => if (y <=? x)%Z then Some (VInt (x - y)) else None
      | _ => None
      end
  | _ => None
  end.

Fixpoint sv_eval (e : env) (v : sval) : option value :=
  match v with
  | SUnknown => None
  | SKnown op _ args _ => eval_op e op (map (sv_eval e) args)
  end.

(* truth of a comparison leaf  args[0] op args[1] *)
Definition int_cmp (op : instr) (x y : Z) : option bool :=
  match op with
  | IEq => Some (x =? y)%Z   | INeq => Some (negb (x =? y)%Z)
  | ILess => Some (x <? y)%Z | ILessE => Some (x <=? y)%Z
  | IGreater => Some (x >? y)%Z | IGreaterE => Some (x >=? y)%Z
  | _ => None
  end.
Definition addr_cmp (op : instr) (a b : string) : option bool :=
  match op with IEq => Some (a =? b) | INeq => Some (negb (a =? b)) | _ => None end.

Definition leaf_truth (e : env) (op : instr) (args : list sval) : option bool :=
  match args with
  | [a; b] =>
      match sv_eval e a, sv_eval e b with
      | Some (VInt x), Some (VInt y) => int_cmp op x y
      | Some (VAddr x), Some (VAddr y) => addr_cmp op x y
      | _, _ => None
      end
  | _ => None
  end.

(* the group member a key family talks about *)
Definition key_txn (e : env) (fam : keyfam) : option N :=
  match fam with
  | KSelf => Some (e_own e)
  | KAtIndex i => if (e_own e =? i)%N then Some (e_own e) else None  (* this transaction, when it sits at index i *)
  | KAbs i => if (i <? e_size e)%N then Some i else None
  | KRel k => member e (Z.of_N (e_own e) + k)
  end.
