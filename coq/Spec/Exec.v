(* Specification: concrete executions of a function's blocks for ONE transaction group [e : env]
   (Spec/Eval.v).  Declarative and small: no reference to the analyses.

   - stack values [cval]; an opcode semantics [sem] is constrained (by [sem_ok e sem]) only on the fragment
     the analyses understand; every other opcode may push anything, as long as it respects the stack arity;
   - a block executes ([bexec]) when its instructions run in sequence (StackLemmas.crun_tr: no stack
     underflow) and none of them FAILS ([fails]).  `return` of zero counts as failing: the theorems are
     about executions that APPROVE the transaction;
   - an execution ([Exec]) is an interprocedural run (Spec/Runs.v) with the data stack threaded through the
     visited blocks, where a conditional branch takes the successor selected by the value it pops;
   - [Accepts]: the execution ends at a `return` (of a non-zero value, since it did not fail) in main's
     activation.  Programs that end by falling off the last instruction are out of scope. *)
From Coq Require Import String List NArith ZArith Bool Arith.
From Tealer Require Import Tables Syntax Cfg StackAst Keys Analysis StackLemmas Eval Runs.
Import ListNotations.
Open Scope list_scope.

(* ---------------------------------------------------------------- values *)
(* uint64 (as Z), addresses (by name, as in Eval.value), anything else *)
Inductive cval := CInt (n : Z) | CAddr (a : string) | COpaque (k : nat).

Definition of_value (v : value) : cval :=
  match v with VInt n => CInt n | VAddr a => CAddr a | VOther => COpaque 0 end.
Definition truthy (c : cval) : bool := match c with CInt n => negb (n =? 0)%Z | _ => false end.
Definition b2c (b : bool) : cval := CInt (if b then 1 else 0).
Definition all_int (l : list cval) : bool :=
  forallb (fun c => match c with CInt _ => true | _ => false end) l.

(* ---------------------------------------------------------------- opcodes *)
(* effect of the opcode occurrence (op, pos) on the popped arguments, deepest first; results in push order *)
Definition opsem := instr -> nat -> list cval -> list cval.

(* [c] is compatible with what is known ([ov]) about an operand *)
Definition agrees (c : cval) (ov : option value) : Prop := forall y, ov = Some y -> c = of_value y.

Record sem_ok (e : env) (sem : opsem) : Prop := {
  (* arity, as in StackLemmas.sem_len *)
  so_len : forall op pos vs n m, stack_pop_size op = Some n -> stack_push_size op = Some m ->
             length vs = n -> length (sem op pos vs) = m;
  (* field reads, constants, global GroupSize/ZeroAddress/CreatorAddress, addr, non-failing + and -:
     whenever Eval.eval_op defines the result from (partial knowledge of) the operands, that value is pushed *)
  so_eval : forall op pos cs vs x, Forall2 agrees cs vs -> eval_op e op vs = Some x ->
             sem op pos cs = [of_value x];
  (* ==, !=, <, <=, >, >= on integers; ==, != on addresses *)
  so_icmp : forall op pos x y b, int_cmp op x y = Some b -> sem op pos [CInt x; CInt y] = [b2c b];
  so_acmp : forall op pos a a' b, addr_cmp op a a' = Some b -> sem op pos [CAddr a; CAddr a'] = [b2c b];
  (* &&, ||, ! on integers *)
  so_and : forall pos x y, sem IAnd pos [CInt x; CInt y] = [b2c (truthy (CInt x) && truthy (CInt y))];
  so_or  : forall pos x y, sem IOr pos [CInt x; CInt y] = [b2c (truthy (CInt x) || truthy (CInt y))];
  so_not : forall pos x, sem INot pos [CInt x] = [b2c (negb (truthy (CInt x)))] }.

(* the instruction stops the program without approving, given the arguments it pops *)
Definition fails (e : env) (op : instr) (args : list cval) : bool :=
  match op with
  | IErr | ICustomErr => true
  | IAssert | IReturn => negb (forallb truthy args)          (* zero, or not an integer *)
  | IAnd | IOr | INot | IBZ _ | IBNZ _ => negb (all_int args)  (* type error *)
  | IGtxn i _ => negb (i <? e_size e)%N                        (* index outside the group *)
  | IGtxns _ => match args with
                | [CInt j] => match member e j with Some _ => false | None => true end
                | _ => true
                end
  | _ => false
  end.

(* ---------------------------------------------------------------- blocks *)
(* the recorded trace lists (position, popped arguments, pushed results) of the executed instructions *)
Definition no_fail (e : env) (p : prog) (tr : trace cval) : Prop :=
  forall pos args outs op, In (pos, args, outs) tr -> op_at p pos = Some op -> fails e op args = false.

(* block [b] runs from stack [cs] (head = top) to stack [cs'], recording [tr] *)
Definition bexec (e : env) (sem : opsem) (p : prog) (b : block) (cs : list cval)
           (tr : trace cval) (cs' : list cval) : Prop :=
  crun_tr cval sem p (b_ins b) cs = Some (tr, cs') /\ no_fail e p tr.

(* arguments popped by the last instruction executed *)
Definition popped (tr : trace cval) : list cval :=
  match last tr (0, [], []) with (_, args, _) => args end.

(* ---------------------------------------------------------------- executions *)
Section Exec.
  Variable e : env.
  Variable sem : opsem.
  Variable f : func.

  (* the block's exit instruction is a conditional branch whose target is the very next line: jumping and
     not jumping lead to the same place (Analysis.branch_to_next looks at the jump target only, not at the
     length of the program) *)
  Definition exit_to_next (blk : block) : bool :=
    match fexit_op f blk with
    | Some br => branch_to_next (fn_prog f) br (last (b_ins blk) 0)
    | None => false
    end.

  (* successor taken by a conditional branch.  b_next lists the fall-through block first and the jump
     target second; when they coincide (the branch targets the next line) there is one successor, reached
     either way.  A block with one successor whose branch does not target the next line has no fall-through
     successor (the branch is the last instruction of the contract): only the jump reaches the successor *)
  Definition jump_ok (blk : block) (jumped : bool) (b' : nat) : Prop :=
    match b_next blk with
    | d :: j :: _ => b' = if jumped then j else d
    | _ => exit_to_next blk = false -> jumped = true
    end.
  (* bz jumps iff the popped value is zero, bnz iff it is not; other exits: any successor *)
  Definition branch_ok (blk : block) (tr : trace cval) (b' : nat) : Prop :=
    match fexit_op f blk, popped tr with
    | Some (IBZ _), [c] => jump_ok blk (negb (truthy c)) b'
    | Some (IBNZ _), [c] => jump_ok blk (truthy c) b'
    | _, _ => True
    end.

  (* ExecFrom c cs cfgs: cfgs = c :: ... is a run (Runs.RunFrom) whose blocks execute one after the other,
     the first one from stack cs, each next one from the stack left by its predecessor *)
  Inductive ExecFrom : rconfig -> list cval -> list rconfig -> Prop :=
  | EF_last c cs blk tr cs' :
      fblock f (fst c) = Some blk -> bexec e sem (fn_prog f) blk cs tr cs' ->
      ExecFrom c cs [c]
  | EF_step c c' rest cs blk tr cs' :
      fblock f (fst c) = Some blk -> bexec e sem (fn_prog f) blk cs tr cs' ->
      rstep f c c' -> branch_ok blk tr (fst c') ->
      ExecFrom c' cs' rest ->
      ExecFrom c cs (c :: rest).

  (* from the entry block, with an empty call stack and an empty data stack *)
  Definition Exec (cfgs : list rconfig) : Prop := ExecFrom (fn_entry f, []) [] cfgs.

  Definition Accepts (cfgs : list rconfig) : Prop :=
    Exec cfgs /\ AcceptingRun f cfgs /\ returns_all f cfgs /\
    exists blk, fblock f (fst (final f cfgs)) = Some blk /\ fexit_op f blk = Some IReturn.
End Exec.
