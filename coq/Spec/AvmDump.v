(* Spec/AvmDump.v -- prints the trusted AVM tables of Spec/AvmTables.v as text, one row per line, for the independent
   C19 oracle of the violation search (tools/avmspec.py).  Not used by any theorem; nothing here is generated from the
   analyzer's source.  Row formats:
     op|<mnemonic>|<introduction version>|<mode at v=1..8, letters A/S/P (Any / Signature / aPplication)>|<cost at v=1..8, comma separated>|<pops>|<pushes>
        arities: K<k> constant, N<p> first immediate + p, L<p> number of immediates + p, O<a>:<b> a without / b with the optional immediate
     curve|<mnemonic>|<curve>|<curve introduction version>|<cost>
     field|<table>|<name>|<introduction version>                                                                    *)
From Coq Require Import String List NArith Bool.
From Tealer Require Import Tables Syntax AvmTables.
Import ListNotations.
Open Scope string_scope.

Definition vs : list N := [1; 2; 3; 4; 5; 6; 7; 8]%N.
Definition mode_letter (m : xmode) : string := match m with MAny => "A" | MStateless => "S" | MStateful => "P" end.
Fixpoint join_with (sep : string) (l : list string) : string :=
  match l with [] => "" | [x] => x | x :: t => x ++ sep ++ join_with sep t end.
Definition nl : string := String (Ascii.ascii_of_nat 10) "".
Definition nat_s (n : nat) : string := string_of_N (N.of_nat n).
Definition arity_s (a : arity) : string :=
  match a with ArK k => "K" ++ nat_s k | ArN p => "N" ++ nat_s p | ArLen p => "L" ++ nat_s p | ArOpt a b => "O" ++ nat_s a ++ ":" ++ nat_s b end.
Definition op_row (o : avm_op) : string :=
  "op|" ++ a_mnemonic o ++ "|" ++ string_of_N (a_version o) ++ "|" ++ join_with "" (map (fun v => mode_letter (avm_mode_at o v)) vs)
  ++ "|" ++ join_with "," (map (fun v => string_of_N (a_cost o v)) vs) ++ "|" ++ arity_s (a_pops o) ++ "|" ++ arity_s (a_pushes o).
Definition curve_row (r : string * string * N * N) : string :=
  let '(m, c, v, k) := r in "curve|" ++ m ++ "|" ++ c ++ "|" ++ string_of_N v ++ "|" ++ string_of_N k.
Definition field_rows (tbl : string) (l : list (string * N)) : list string :=
  map (fun '(n, v) => "field|" ++ tbl ++ "|" ++ n ++ "|" ++ string_of_N v) l.
Definition avm_dump : string :=
  join_with nl (map op_row (avm_ops ++ avm_pseudo_ops) ++ map curve_row avm_curve_cost
                ++ field_rows "txn" avm_txn_fields ++ field_rows "txna" avm_txn_array_fields ++ field_rows "global" avm_global_fields
                ++ field_rows "asset_holding" avm_asset_holding_fields ++ field_rows "asset_params" avm_asset_params_fields
                ++ field_rows "app_params" avm_app_params_fields ++ field_rows "acct_params" avm_acct_params_fields).
Eval vm_compute in avm_dump.
