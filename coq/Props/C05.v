(* C05  Subroutine, call-site and return-point structure is faithful.  Property theorems only. *)
From Coq Require Import List String Sorted.
From Tealer Require Import Syntax Parse Cfg Analysis Detect SubLemmas GraphWf SolverLemmas.
Import ListNotations.
Open Scope list_scope.

(* the labels targeted by callsub instructions, and only those, are subroutines *)
Theorem C05_subs_are_callsub_targets : forall p t, parse_teal p = Ok t ->
  (forall name, (exists s, In s (t_subs t) /\ s_name s = name) <-> (exists k, op_at p k = Some (ICallsub name)))
  /\ NoDup (map s_name (t_subs t)).
Proof. exact subs_are_callsub_targets. Qed.

(* a subroutine's blocks are those reachable from its entry without following calls; the entry holds its label *)
Theorem C05_sub_blocks : forall p t bs s, parse_teal p = Ok t -> build_blocks p = Some bs -> In s (t_subs t) ->
  (forall x, In x (s_blocks s) <-> Reach bs (s_entry s) x) /\ NoDup (s_blocks s) /\
  (exists lp b, find_label p (s_name s) = Some lp /\ op_at p lp = Some (ILabel (s_name s)) /\
                bb_of_pos bs lp = Some (s_entry s) /\ nth_error bs (s_entry s) = Some b /\ In lp (b_ins b)).
Proof. exact sub_blocks_are_local_reach. Qed.

(* caller tables list exactly the retained call sites *)
Theorem C05_callers_exact : forall p t s, parse_teal p = Ok t -> In s (t_subs t) ->
  forall c, In c (s_callers s) <-> exists b, tblock t c = Some b /\ exit_op t b = Some (ICallsub (s_name s)).
Proof. exact callers_exact. Qed.

(* every callsub block has no successor (call is the last instruction) or exactly the block that follows it *)
Theorem C05_return_point : forall p t c b, parse_teal p = Ok t -> tblock t c = Some b -> is_callsub_block t b = true ->
  (b_next b = [] /\ S (last (b_ins b) 0) = List.length (t_prog t)) \/
  (b_next b = [S c] /\ exists rb, tblock t (S c) = Some rb /\ hd_error (b_ins rb) = Some (S (last (b_ins b) 0))).
Proof. exact return_point. Qed.

(* for structured programs (each block in one routine, entries and return points not jump targets) the
   function graph satisfies every mirror / coverage fact the dataflow proofs rely on *)
Theorem C05_function_graph_wf : forall p t, parse_teal p = Ok t -> struct_ok t -> graph_wf (whole_function t) = true.
Proof. exact graph_wf_whole_function. Qed.

Print Assumptions C05_subs_are_callsub_targets.
Print Assumptions C05_sub_blocks.
Print Assumptions C05_callers_exact.
Print Assumptions C05_return_point.
Print Assumptions C05_function_graph_wf.

(* ------------------------------------------------------------------------------------------------------------
   Extension (second round): theorems from Lemmas/{WalkLemmas,OutputLemmas,TypeExec,NoMiss2,ParseLemmas2,PaddingLemmas}.v *)
From Coq Require Import List String NArith ZArith Bool Arith.
From Tealer Require Import Tables Leaves LeafPrelude Syntax Parse Cfg StackAst Keys Analysis Domains Detect Group Output Runs Eval Exec InsExec Paths WalkLemmas OutputLemmas TypeExec NoMiss2 ParseLemmas2 PaddingLemmas.

(* call-graph export: an edge f -> g exactly when a retained callsub block of routine f targets g *)
Theorem C05_callgraph_edges :
  forall (p : prog) (t : teal),
       parse_teal p = Ok t ->
       forall fn g : string,
       In (fn, g) (callgraph_edges t) <->
       (exists (c : nat) (b : block) (r : subroutine),
          tblock t c = Some b /\ exit_op t b = Some (ICallsub g) /\ sub_of_block t c = Some r /\ s_name r = fn).
Proof. exact @callgraph_edges_exact. Qed.

Theorem C05_callgraph_edges_structured :
  forall (p : prog) (t : teal),
       parse_teal p = Ok t ->
       forall fn g : string,
       GraphWf.struct_ok t ->
       In (fn, g) (callgraph_edges t) <->
       (exists (r : subroutine) (c : nat) (b : block),
          routine t r /\ s_name r = fn /\ In c (s_blocks r) /\ tblock t c = Some b /\ exit_op t b = Some (ICallsub g)).
Proof. exact @callgraph_edges_struct. Qed.

Print Assumptions C05_callgraph_edges.
Print Assumptions C05_callgraph_edges_structured.

(* ------------------------------------------------------------------------------------------------------------
   Extension (CFG construction regenerated): theorems from Lemmas/CfgGenLemmas.v about Gen/CfgGen.v, the
   translation of parse_teal.py's first/second pass, create_bb, fourth pass, identify_subroutine_blocks and
   the pruning of unreachable blocks *)
From Coq Require Import String List NArith ZArith Bool Arith.
From Tealer Require Import Tables Syntax Parse Cfg KeysGen CfgGen CfgLemmas SubLemmas CfgGenLemmas.

(* regenerated identify_subroutine_blocks computes exactly the blocks reachable from the entry, without duplicates *)
Theorem C05_identify_gen_reach :
      forall (p : prog) (bs : list block) (e : nat) (r : list nat),
       build_blocks p = Some bs ->
       e < Datatypes.length bs ->
       identify_subroutine_blocks_gen (S (Datatypes.length bs)) e bs = Some (Some r) ->
       (forall x : nat, In x r <-> Reach bs e x) /\ NoDup r.
Proof. exact @identify_subroutine_blocks_gen_reach. Qed.

(* on the regenerated block graph *)
Theorem C05_cfg_gen_identify :
      forall (p : prog) (bh : block_heap) (e : nat),
       build_gen p = Some bh ->
       e < Datatypes.length bh ->
       identify_subroutine_blocks_gen (S (Datatypes.length bh)) e bh =
       Some (Some (identify_subroutine_blocks bh e)) /\
       (forall x : nat, In x (identify_subroutine_blocks bh e) <-> Reach bh e x) /\
       NoDup (identify_subroutine_blocks bh e).
Proof. exact @build_gen_identify. Qed.

(* regenerated pruning agrees with parse_teal: retained instructions and retained blocks *)
Theorem C05_cfg_gen_prune_parse_teal :
      forall (p : prog) (t : teal),
       parse_teal p = Ok t ->
       exists (ih : ins_heap) (bh : block_heap) (subs0 : list sub_row) (bh' : block_heap) 
       (ih' : ins_heap),
         passes_gen p = Some ih /\
         build_gen p = Some bh /\
         prune_unreachable_gen (seq 0 (Datatypes.length bh)) (reachable_of bh subs0)
           (seq 0 (Datatypes.length p)) bh (bb_assign_bs p ih) = Some (t_retained_ins t, bh', ih') /\
         filter (alive (reachable_of bh subs0)) bh' = t_blocks t.
Proof. exact @build_gen_prune_parse_teal. Qed.

(* regenerated pruning computes prune_spec and keeps the prev/next mirror invariant *)
Theorem C05_prune_gen_eq :
      forall (reach : list nat) (bs : list block) (ih : list insobj),
       wf_blocks bs ->
       NoDup (concat (map b_ins bs)) ->
       (forall (n : nat) (b : block), nth_error bs n = Some b -> b_ins b <> nil) ->
       (forall (n : nat) (b : block) (k : nat),
        nth_error bs n = Some b -> In k (b_ins b) -> k < Datatypes.length ih) ->
       ih_mirror ih ->
       exists ih' : ins_heap,
         prune_unreachable_gen (seq 0 (Datatypes.length bs)) reach (concat (map b_ins bs)) bs ih =
         Some (concat (map b_ins (filter (alive reach) bs)), prune_spec reach bs, ih') /\
         ih_mirror ih' /\ Datatypes.length ih' = Datatypes.length ih.
Proof. exact @prune_unreachable_gen_eq. Qed.

Print Assumptions C05_identify_gen_reach.
Print Assumptions C05_cfg_gen_identify.
Print Assumptions C05_cfg_gen_prune_parse_teal.
Print Assumptions C05_prune_gen_eq.

(* ------------------------------------------------------------------------------------------------------------
   Extension (call-graph printer regenerated: Lemmas/OutputGenLemmas.v) *)
From Coq Require Import String List NArith ZArith Bool Arith.
From Tealer Require Import Syntax Parse Cfg Analysis KeysGen Output OutputGen CfgLemmas SubLemmas GraphWf OutputLemmas OutputGenLemmas.

(* regenerated call-graph printer: an edge f to g exactly when a retained callsub block of routine f targets g, names html-escaped as the source does *)
Theorem C05_callgraph_gen_edges_exact :
      forall (p : prog) (t : teal) (cn : string) (root : list string),
       parse_teal p = Ok t ->
       callgraph_exported t = true ->
       exists (file : list string) (items : list item),
         print_gen t cn root = Some (Written file items) /\
         (forall x y : string,
          In (ICgEdge x y) items <->
          (exists fn g : string,
             x = html_escape fn /\
             y = html_escape g /\
             (exists (c : nat) (b : block) (r : subroutine),
                tblock t c = Some b /\
                exit_op t b = Some (ICallsub g) /\ sub_of_block t c = Some r /\ s_name r = fn))).
Proof. exact @print_gen_edges_exact. Qed.

Print Assumptions C05_callgraph_gen_edges_exact.
