(* C14  Results depend on the input only.  Property theorems only.
   The model is a Gallina function (no state, no history); what a theorem adds is that the worklist
   algorithm's result does not depend on the ORDER in which blocks are scheduled: the tool's result
   (Domains.solve: its own worklists) equals, up to the domain's equality, the result of ANY other covering
   schedule of the forward and backward passes (any initial worklist order, any fuel). *)
From Coq Require Import List.
From Tealer Require Import Syntax StackAst Cfg Analysis Domains SolverLemmas.
Import ListNotations.

Theorem C14_schedule_independent : forall T t_eqb univ null union inter single f (leq : T -> T -> Prop),
  (forall a, leq a a) -> (forall a b c, leq a b -> leq b c -> leq a c) ->
  (forall a b, t_eqb a b = true <-> leq a b /\ leq b a) ->
  (forall a a' b b', leq a a' -> leq b b' -> leq (union a b) (union a' b')) ->
  (forall a a' b b', leq a a' -> leq b b' -> leq (inter a b) (inter a' b')) ->
  (forall a, leq null a) ->
  forall bc fuel fu1 fu2 wl1 wl2 lo ro' lo',
  cover_prev_P f -> cover_ret_P f -> cover_next_P f -> cover_call_P f ->
  (forall b, In b (ids f) -> In b (forward_worklist f)) ->
  (forall b xb, fblock f b = Some xb -> leaf_global f xb = false -> In b (backward_worklist f)) ->
  (forall b, In b (ids f) -> In b wl1) ->
  (forall b xb, fblock f b = Some xb -> leaf_global f xb = false -> In b wl2) ->
  solve T t_eqb univ null union inter single f fuel bc = Done lo ->
  forward T t_eqb univ null union inter single f (Analysis.lookup T bc) fu1 wl1 (fwd_st0 T null f) = Done ro' ->
  backward T t_eqb null union inter f (Analysis.lookup T ro') fu2 wl2 (bwd_st0 T null f ro') = Done lo' ->
  peq T t_eqb lo lo'.
Proof. exact solve_order_independent. Qed.

Print Assumptions C14_schedule_independent.
