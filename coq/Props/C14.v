(* C14  Results depend on the input only.  Property theorems only.
   The model is a Gallina function (no state, no history); what a theorem adds is that the worklist
   algorithm's result does not depend on the ORDER in which blocks are scheduled: the tool's result
   (Domains.solve: its own worklists) equals, up to the domain's equality, the result of ANY other covering
   schedule of the forward and backward passes (any initial worklist order, any fuel). *)
From Coq Require Import List.
From Tealer Require Import Syntax StackAst Cfg Analysis Domains SolverLemmas.
Import ListNotations.

Theorem C14_schedule_independent : forall T t_eqb univ null union inter single f (leq : T -> T -> Prop),
  (forall a, leq a a) -> (forall a b c, leq a b -> leq b c -> leq a c) ->
  (forall a b, t_eqb a b = true <-> leq a b /\ leq b a) ->
  (forall a a' b b', leq a a' -> leq b b' -> leq (union a b) (union a' b')) ->
  (forall a a' b b', leq a a' -> leq b b' -> leq (inter a b) (inter a' b')) ->
  (forall a, leq null a) ->
  forall bc fuel fu1 fu2 wl1 wl2 lo ro' lo',
  cover_prev_P f -> cover_ret_P f -> cover_next_P f -> cover_call_P f ->
  (forall b, In b (ids f) -> In b (forward_worklist f)) ->
  (forall b xb, fblock f b = Some xb -> leaf_global f xb = false -> In b (backward_worklist f)) ->
  (forall b, In b (ids f) -> In b wl1) ->
  (forall b xb, fblock f b = Some xb -> leaf_global f xb = false -> In b wl2) ->
  solve T t_eqb univ null union inter single f fuel bc = Done lo ->
  forward T t_eqb univ null union inter single f (Analysis.lookup T bc) fu1 wl1 (fwd_st0 T null f) = Done ro' ->
  backward T t_eqb null union inter f (Analysis.lookup T ro') fu2 wl2 (bwd_st0 T null f ro') = Done lo' ->
  peq T t_eqb lo lo'.
Proof. exact solve_order_independent. Qed.

Print Assumptions C14_schedule_independent.

(* ------------------------------------------------------------------------------------------------------------
   Extension (third round): regenerated worklist solver (Lemmas/SolverGenLemmas.v) *)
From Coq Require Import List String NArith ZArith Bool Arith.
From Tealer Require Import Tables Syntax Parse Cfg StackAst Analysis Domains GraphGen SolverGen SolverLemmas GraphGenLemmas SolverGenLemmas.

(* the worklist iteration (forward_analyis / backward_analysis / _merge_information_forward/backward) REGENERATED from generic.py (tools/translate_solver.py -> Gen/SolverGen.v) equals the model's solve for one analysis key, with the same fuel (exceptions = Exn, exhausted fuel = OutOfFuel) *)
Theorem C14_solver_regenerated :
  forall (T : Type) (t_eqb : T -> T -> bool) (univ null : string -> T) (union inter : string -> T -> T -> T)
         (single : string -> instr -> nat -> list sval -> T * T) (f : func) (key : string) (fuel : nat) (bc : state T),
       main_name_fresh f ->
       NoDup (ids f) ->
       solve_gen T t_eqb univ null union inter single f fuel (key :: nil) ((key, bc) :: nil) =
       erase
         (omap (fun lo : list (nat * T) => (key, lo) :: nil) (solve T t_eqb (univ key) (null key) (union key) (inter key) (single key) f fuel bc)).
Proof. exact @solve_gen_eq. Qed.

(* the `updated` flag of a block is the disjunction over all keys (the regression that overwrote it per key falsifies this) *)
Theorem C14_changed_flag_accumulates :
  forall (T : Type) (t_eqb : T -> T -> bool) (univ null : string -> T) (union inter : string -> T -> T -> T)
         (single : string -> instr -> nat -> list sval -> T * T) (f : func) (k : string) (ks : list string) (block : nat) 
         (gr bcs : gdict T),
       merge_information_forward_gen T t_eqb univ null union inter single f (k :: ks) block gr bcs =
       KeysGen.bind (merge_information_forward_gen T t_eqb univ null union inter single f (k :: nil) block gr bcs)
         (fun r1 : bool * gdict T =>
          KeysGen.bind (merge_information_forward_gen T t_eqb univ null union inter single f ks block (snd r1) bcs)
            (fun r2 : bool * gdict T => KeysGen.ret (fst r1 || fst r2, snd r2))).
Proof. exact @merge_information_forward_gen_cons. Qed.

(* schedule independence restated for the regenerated forward pass *)
Theorem C14_regenerated_schedule_independent :
  forall (T : Type) (t_eqb : T -> T -> bool) (univ null : string -> T) (union inter : string -> T -> T -> T)
         (single : string -> instr -> nat -> list sval -> T * T) (f : func) (key : string) (leq : T -> T -> Prop),
       (forall a : T, leq a a) ->
       (forall a b c : T, leq a b -> leq b c -> leq a c) ->
       (forall a b : T, t_eqb a b = true <-> leq a b /\ leq b a) ->
       (forall a a' b b' : T, leq a a' -> leq b b' -> leq (union key a b) (union key a' b')) ->
       (forall a a' b b' : T, leq a a' -> leq b b' -> leq (inter key a b) (inter key a' b')) ->
       (forall a : T, leq (null key) a) ->
       forall (bcs : gdict T) (fu1 fu2 : nat) (wl1 wl2 : list nat) (bcs1 bcs2 : gdict T),
       cover_prev_P f ->
       cover_ret_P f ->
       main_name_fresh f ->
       NoDup (ids f) ->
       (forall b : nat, In b (ids f) -> In b wl1) ->
       (forall b : nat, In b (ids f) -> In b wl2) ->
       forward_analyis_gen T t_eqb univ null union inter single f fu1 (key :: nil) wl1 bcs = Some (Some bcs1) ->
       forward_analyis_gen T t_eqb univ null union inter single f fu2 (key :: nil) wl2 bcs = Some (Some bcs2) ->
       exists ro1 ro2 : state T, bcs1 = kdict_set T bcs key ro1 /\ bcs2 = kdict_set T bcs key ro2 /\ peq T t_eqb ro1 ro2.
Proof. exact @forward_order_independent_gen. Qed.

Print Assumptions C14_solver_regenerated.
Print Assumptions C14_changed_flag_accumulates.
Print Assumptions C14_regenerated_schedule_independent.

(* ------------------------------------------------------------------------------------------------------------
   Extension (joint pass over all keys): theorems from Lemmas/JointGenLemmas.v and Lemmas/JointTotal.v.  tealer iterates
   ONE worklist for all keys of an analysis; the per-key model is related to that joint run here.  *)
From Coq Require Import String List NArith ZArith Bool Arith.
From Tealer Require Import JointGenLemmas JointTotal.

(* any two runs of the two passes, with any worklist orders and any amount of re-processing triggered by other keys, end in the same sets *)
Theorem C14_passes_run_order_independent :
      forall (T : Type) (t_eqb : T -> T -> bool) (univ null : T) (union inter : T -> T -> T)
         (single : Syntax.instr -> nat -> list StackAst.sval -> T * T) (f : Analysis.func)
         (leq : T -> T -> Prop),
       (forall a : T, leq a a) ->
       (forall a b c : T, leq a b -> leq b c -> leq a c) ->
       (forall a b : T, t_eqb a b = true <-> leq a b /\ leq b a) ->
       (forall a a' b b' : T, leq a a' -> leq b b' -> leq (union a b) (union a' b')) ->
       (forall a a' b b' : T, leq a a' -> leq b b' -> leq (inter a b) (inter a' b')) ->
       (forall a : T, leq null a) ->
       forall (blockc : nat -> option T) (wl1 wl2 wl3 wl4 : list nat) (ro1 ro2 lo1 lo2 : Analysis.state T),
       SolverLemmas.cover_prev_P f ->
       SolverLemmas.cover_ret_P f ->
       SolverLemmas.cover_next_P f ->
       SolverLemmas.cover_call_P f ->
       (forall b : nat, In b (SolverLemmas.ids f) -> In b wl1) ->
       (forall b : nat, In b (SolverLemmas.ids f) -> In b wl2) ->
       (forall (b : nat) (xb : Cfg.block),
        Analysis.fblock f b = Some xb -> Analysis.leaf_global f xb = false -> In b wl3) ->
       (forall (b : nat) (xb : Cfg.block),
        Analysis.fblock f b = Some xb -> Analysis.leaf_global f xb = false -> In b wl4) ->
       fwd_run T t_eqb univ null union inter single f blockc wl1 (SolverLemmas.fwd_st0 T null f) ro1 ->
       fwd_run T t_eqb univ null union inter single f blockc wl2 (SolverLemmas.fwd_st0 T null f) ro2 ->
       bwd_run T t_eqb null union inter f (Analysis.lookup T ro1) wl3 (SolverLemmas.bwd_st0 T null f ro1) lo1 ->
       bwd_run T t_eqb null union inter f (Analysis.lookup T ro2) wl4 (SolverLemmas.bwd_st0 T null f ro2) lo2 ->
       SolverLemmas.peq T t_eqb ro1 ro2 /\ SolverLemmas.peq T t_eqb lo1 lo2.
Proof. exact @passes_run_order_independent. Qed.

(* the model list representation is not canonical: a real 9-block program where the joint run and the per-key run hold the same set as different lists (the tool uses Python sets; the correspondence compares sorted lists) *)
Theorem C14_joint_list_order_refuted :
      exists (dj : SolverGen.gdict (list Z)) (rs : list (nat * list Z)),
         map (fun b : Cfg.block => (Cfg.b_idx b, Cfg.b_next b, Cfg.b_prev b))
           (Analysis.fn_blocks lo_teal_func) =
         (0, 1 :: nil, nil)
         :: (1, 2 :: 8 :: nil, 0 :: 4 :: 5 :: nil)
            :: (8, nil, 7 :: 1 :: nil)
               :: (2, 3 :: 5 :: nil, 1 :: 3 :: nil)
                  :: (5, 6 :: 1 :: nil, 2 :: nil)
                     :: (6, 7 :: nil, 5 :: 7 :: nil)
                        :: (7, 8 :: 6 :: nil, 6 :: nil)
                           :: (3, 4 :: 2 :: nil, 2 :: nil) :: (4, 1 :: nil, 3 :: nil) :: nil /\
         RunGen.run_analysis_gen (list Z) Domains.zset_eqb gi_univ (fun _ : string => nil)
           (fun _ : string => Domains.zunion) (fun _ : string => Domains.zinter)
           (gi_single (Analysis.fn_intcs lo_teal_func)) lo_teal_func ("GroupSize" :: "GroupIndex" :: nil) nil
           nil 200 (S (Datatypes.length (Analysis.fn_blocks lo_teal_func))) 13 = 
         Some (Some dj) /\
         Domains.run_int lo_teal_func 200 true = Analysis.Done rs /\
         Analysis.lookup (list Z) (SolverGen.ddict_get (list Z) dj "GroupSize") 2 = Some (2%Z :: 4%Z :: nil) /\
         Analysis.lookup (list Z) rs 2 = Some (4%Z :: 2%Z :: nil) /\
         SolverGen.ddict_get (list Z) dj "GroupSize" <> rs /\
         SolverLemmas.peq (list Z) Domains.zset_eqb (SolverGen.ddict_get (list Z) dj "GroupSize") rs.
Proof. exact @joint_list_order_refuted. Qed.

(* monotonicity of the operations cannot be dropped *)
Theorem C14_joint_nonmonotone_refuted :
      exists dj ds : SolverGen.gdict nat,
         SolverLemmas.cover_prev_P nm_func /\
         SolverLemmas.cover_ret_P nm_func /\
         (forall b : nat, In b (SolverLemmas.ids nm_func) -> In b (Analysis.forward_worklist nm_func)) /\
         nm_forward 100 ("a" :: "b" :: nil) = Some (Some dj) /\
         nm_forward 100 ("b" :: nil) = Some (Some ds) /\
         SolverGen.ddict_get nat dj "b" = (0, 2) :: (1, 1) :: (2, 0) :: (3, 0) :: nil /\
         SolverGen.ddict_get nat ds "b" = (0, 2) :: (1, 1) :: (2, 2) :: (3, 2) :: nil /\
         ~ SolverLemmas.peq nat Nat.eqb (SolverGen.ddict_get nat dj "b") (SolverGen.ddict_get nat ds "b").
Proof. exact @joint_nonmonotone_refuted. Qed.

Print Assumptions C14_passes_run_order_independent.
Print Assumptions C14_joint_list_order_refuted.
Print Assumptions C14_joint_nonmonotone_refuted.
