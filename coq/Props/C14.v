(* C14  Results depend on the input only.  Property theorems only.
   The model is a Gallina function (no state, no history); what a theorem adds is that the worklist
   algorithm's result does not depend on the ORDER in which blocks are scheduled: the tool's result
   (Domains.solve: its own worklists) equals, up to the domain's equality, the result of ANY other covering
   schedule of the forward and backward passes (any initial worklist order, any fuel). *)
From Coq Require Import List.
From Tealer Require Import Syntax StackAst Cfg Analysis Domains SolverLemmas.
Import ListNotations.

Theorem C14_schedule_independent : forall T t_eqb univ null union inter single f (leq : T -> T -> Prop),
  (forall a, leq a a) -> (forall a b c, leq a b -> leq b c -> leq a c) ->
  (forall a b, t_eqb a b = true <-> leq a b /\ leq b a) ->
  (forall a a' b b', leq a a' -> leq b b' -> leq (union a b) (union a' b')) ->
  (forall a a' b b', leq a a' -> leq b b' -> leq (inter a b) (inter a' b')) ->
  (forall a, leq null a) ->
  forall bc fuel fu1 fu2 wl1 wl2 lo ro' lo',
  cover_prev_P f -> cover_ret_P f -> cover_next_P f -> cover_call_P f ->
  (forall b, In b (ids f) -> In b (forward_worklist f)) ->
  (forall b xb, fblock f b = Some xb -> leaf_global f xb = false -> In b (backward_worklist f)) ->
  (forall b, In b (ids f) -> In b wl1) ->
  (forall b xb, fblock f b = Some xb -> leaf_global f xb = false -> In b wl2) ->
  solve T t_eqb univ null union inter single f fuel bc = Done lo ->
  forward T t_eqb univ null union inter single f (Analysis.lookup T bc) fu1 wl1 (fwd_st0 T null f) = Done ro' ->
  backward T t_eqb null union inter f (Analysis.lookup T ro') fu2 wl2 (bwd_st0 T null f ro') = Done lo' ->
  peq T t_eqb lo lo'.
Proof. exact solve_order_independent. Qed.

Print Assumptions C14_schedule_independent.

(* ------------------------------------------------------------------------------------------------------------
   Extension (third round): regenerated worklist solver (Lemmas/SolverGenLemmas.v) *)
From Coq Require Import List String NArith ZArith Bool Arith.
From Tealer Require Import Tables Syntax Parse Cfg StackAst Analysis Domains GraphGen SolverGen SolverLemmas GraphGenLemmas SolverGenLemmas.

(* the worklist iteration (forward_analyis / backward_analysis / _merge_information_forward/backward) REGENERATED from generic.py (tools/translate_solver.py -> Gen/SolverGen.v) equals the model's solve for one analysis key, with the same fuel (exceptions = Exn, exhausted fuel = OutOfFuel) *)
Theorem C14_solver_regenerated :
  forall (T : Type) (t_eqb : T -> T -> bool) (univ null : string -> T) (union inter : string -> T -> T -> T)
         (single : string -> instr -> nat -> list sval -> T * T) (f : func) (key : string) (fuel : nat) (bc : state T),
       main_name_fresh f ->
       NoDup (ids f) ->
       solve_gen T t_eqb univ null union inter single f fuel (key :: nil) ((key, bc) :: nil) =
       erase
         (omap (fun lo : list (nat * T) => (key, lo) :: nil) (solve T t_eqb (univ key) (null key) (union key) (inter key) (single key) f fuel bc)).
Proof. exact @solve_gen_eq. Qed.

(* the `updated` flag of a block is the disjunction over all keys (the regression that overwrote it per key falsifies this) *)
Theorem C14_changed_flag_accumulates :
  forall (T : Type) (t_eqb : T -> T -> bool) (univ null : string -> T) (union inter : string -> T -> T -> T)
         (single : string -> instr -> nat -> list sval -> T * T) (f : func) (k : string) (ks : list string) (block : nat) 
         (gr bcs : gdict T),
       merge_information_forward_gen T t_eqb univ null union inter single f (k :: ks) block gr bcs =
       KeysGen.bind (merge_information_forward_gen T t_eqb univ null union inter single f (k :: nil) block gr bcs)
         (fun r1 : bool * gdict T =>
          KeysGen.bind (merge_information_forward_gen T t_eqb univ null union inter single f ks block (snd r1) bcs)
            (fun r2 : bool * gdict T => KeysGen.ret (fst r1 || fst r2, snd r2))).
Proof. exact @merge_information_forward_gen_cons. Qed.

(* schedule independence restated for the regenerated forward pass *)
Theorem C14_regenerated_schedule_independent :
  forall (T : Type) (t_eqb : T -> T -> bool) (univ null : string -> T) (union inter : string -> T -> T -> T)
         (single : string -> instr -> nat -> list sval -> T * T) (f : func) (key : string) (leq : T -> T -> Prop),
       (forall a : T, leq a a) ->
       (forall a b c : T, leq a b -> leq b c -> leq a c) ->
       (forall a b : T, t_eqb a b = true <-> leq a b /\ leq b a) ->
       (forall a a' b b' : T, leq a a' -> leq b b' -> leq (union key a b) (union key a' b')) ->
       (forall a a' b b' : T, leq a a' -> leq b b' -> leq (inter key a b) (inter key a' b')) ->
       (forall a : T, leq (null key) a) ->
       forall (bcs : gdict T) (fu1 fu2 : nat) (wl1 wl2 : list nat) (bcs1 bcs2 : gdict T),
       cover_prev_P f ->
       cover_ret_P f ->
       main_name_fresh f ->
       NoDup (ids f) ->
       (forall b : nat, In b (ids f) -> In b wl1) ->
       (forall b : nat, In b (ids f) -> In b wl2) ->
       forward_analyis_gen T t_eqb univ null union inter single f fu1 (key :: nil) wl1 bcs = Some (Some bcs1) ->
       forward_analyis_gen T t_eqb univ null union inter single f fu2 (key :: nil) wl2 bcs = Some (Some bcs2) ->
       exists ro1 ro2 : state T, bcs1 = kdict_set T bcs key ro1 /\ bcs2 = kdict_set T bcs key ro2 /\ peq T t_eqb ro1 ro2.
Proof. exact @forward_order_independent_gen. Qed.

Print Assumptions C14_solver_regenerated.
Print Assumptions C14_changed_flag_accumulates.
Print Assumptions C14_regenerated_schedule_independent.
