(* C04  The CFG is well-formed (block partition, single entry/exit, mirrored edges, successor order).
   Property theorems only; the scan (create_bb) and edge construction (build_blocks) are in Model/Cfg.v. *)
From Coq Require Import List Arith.
From Tealer Require Import Syntax Cfg CfgLemmas.
Import ListNotations.
Open Scope nat_scope.
Open Scope list_scope.

(* blocks partition the instructions in source order, each block is non-empty *)
Theorem C04_blocks_partition : forall p bs, create_bb p = Some bs -> p <> [] ->
  concat (map rb_ins bs) = seq 0 (length p).
Proof. intros; eapply blocks_partition; eauto. Qed.
Theorem C04_blocks_nonempty : forall p bs, create_bb p = Some bs -> p <> [] -> forall b, In b bs -> rb_ins b <> [].
Proof. intros; eapply blocks_nonempty; eauto. Qed.

(* a block is left only at its last instruction and entered only at its first *)
Theorem C04_single_entry_exit : forall p bs, create_bb p = Some bs -> forall b k, In b bs -> In k (rb_ins b) ->
  (k <> last (rb_ins b) 0 ->
     exists i nx, op_at p k = Some i /\ ins_next p k = Some nx /\ length nx = 1 /\
                  match i with ICallsub _ => False | IB _ => False | _ => True end)
  /\ (k <> hd 0 (rb_ins b) -> exists i, op_at p k = Some i /\ match i with ILabel _ => False | _ => True end).
Proof. intros; eapply block_interior; eauto. Qed.

(* successor / predecessor lists mirror each other, stay inside the graph, have no duplicates *)
Theorem C04_next_prev_mirror : forall p blocks, build_blocks p = Some blocks -> forall b b', In b blocks -> In b' blocks ->
  (In (b_idx b') (b_next b) <-> In (b_idx b) (b_prev b')).
Proof. intros; eapply next_prev_mirror; eauto. Qed.
Theorem C04_next_in_graph : forall p blocks, build_blocks p = Some blocks -> forall b m, In b blocks -> In m (b_next b) -> m < length blocks.
Proof. intros; eapply next_in_range; eauto. Qed.
Theorem C04_next_nodup : forall p blocks, build_blocks p = Some blocks -> forall b, In b blocks -> NoDup (b_next b).
Proof. intros; eapply next_nodup; eauto. Qed.

(* block successors are exactly the blocks of the exit instruction's successor instructions *)
Theorem C04_next_meaning : forall p blocks bs b m, build_blocks p = Some blocks -> create_bb p = Some bs -> In b blocks ->
  (In m (b_next b) <-> exists nx k, ins_next p (last (b_ins b) 0) = Some nx /\ In k nx /\ block_of_pos bs k 0 = Some m).
Proof. intros; eapply next_meaning; eauto. Qed.

(* bz / bnz: first successor = fall-through, second = jump target; one successor iff they coincide *)
Theorem C04_cond_branch_order : forall p blocks bs b l t, build_blocks p = Some blocks -> create_bb p = Some bs -> In b blocks ->
  (op_at p (last (b_ins b) 0) = Some (IBZ l) \/ op_at p (last (b_ins b) 0) = Some (IBNZ l)) ->
  S (last (b_ins b) 0) < length p -> find_label p l = Some t ->
  exists tb, block_of_pos bs t 0 = Some tb /\
             b_next b = if tb =? S (b_idx b) then [S (b_idx b)] else [S (b_idx b); tb].
Proof. intros; eapply cond_branch_order; eauto. Qed.

Print Assumptions C04_blocks_partition.
Print Assumptions C04_single_entry_exit.
Print Assumptions C04_next_prev_mirror.
Print Assumptions C04_next_meaning.
Print Assumptions C04_cond_branch_order.
