(* C04  The CFG is well-formed (block partition, single entry/exit, mirrored edges, successor order).
   Property theorems only; the scan (create_bb) and edge construction (build_blocks) are in Model/Cfg.v. *)
From Coq Require Import List Arith.
From Tealer Require Import Syntax Cfg CfgLemmas.
Import ListNotations.
Open Scope nat_scope.
Open Scope list_scope.

(* blocks partition the instructions in source order, each block is non-empty *)
Theorem C04_blocks_partition : forall p bs, create_bb p = Some bs -> p <> [] ->
  concat (map rb_ins bs) = seq 0 (length p).
Proof. intros; eapply blocks_partition; eauto. Qed.
Theorem C04_blocks_nonempty : forall p bs, create_bb p = Some bs -> p <> [] -> forall b, In b bs -> rb_ins b <> [].
Proof. intros; eapply blocks_nonempty; eauto. Qed.

(* a block is left only at its last instruction and entered only at its first *)
Theorem C04_single_entry_exit : forall p bs, create_bb p = Some bs -> forall b k, In b bs -> In k (rb_ins b) ->
  (k <> last (rb_ins b) 0 ->
     exists i nx, op_at p k = Some i /\ ins_next p k = Some nx /\ length nx = 1 /\
                  match i with ICallsub _ => False | IB _ => False | _ => True end)
  /\ (k <> hd 0 (rb_ins b) -> exists i, op_at p k = Some i /\ match i with ILabel _ => False | _ => True end).
Proof. intros; eapply block_interior; eauto. Qed.

(* successor / predecessor lists mirror each other, stay inside the graph, have no duplicates *)
Theorem C04_next_prev_mirror : forall p blocks, build_blocks p = Some blocks -> forall b b', In b blocks -> In b' blocks ->
  (In (b_idx b') (b_next b) <-> In (b_idx b) (b_prev b')).
Proof. intros; eapply next_prev_mirror; eauto. Qed.
Theorem C04_next_in_graph : forall p blocks, build_blocks p = Some blocks -> forall b m, In b blocks -> In m (b_next b) -> m < length blocks.
Proof. intros; eapply next_in_range; eauto. Qed.
Theorem C04_next_nodup : forall p blocks, build_blocks p = Some blocks -> forall b, In b blocks -> NoDup (b_next b).
Proof. intros; eapply next_nodup; eauto. Qed.

(* block successors are exactly the blocks of the exit instruction's successor instructions *)
Theorem C04_next_meaning : forall p blocks bs b m, build_blocks p = Some blocks -> create_bb p = Some bs -> In b blocks ->
  (In m (b_next b) <-> exists nx k, ins_next p (last (b_ins b) 0) = Some nx /\ In k nx /\ block_of_pos bs k 0 = Some m).
Proof. intros; eapply next_meaning; eauto. Qed.

(* bz / bnz: first successor = fall-through, second = jump target; one successor iff they coincide *)
Theorem C04_cond_branch_order : forall p blocks bs b l t, build_blocks p = Some blocks -> create_bb p = Some bs -> In b blocks ->
  (op_at p (last (b_ins b) 0) = Some (IBZ l) \/ op_at p (last (b_ins b) 0) = Some (IBNZ l)) ->
  S (last (b_ins b) 0) < length p -> find_label p l = Some t ->
  exists tb, block_of_pos bs t 0 = Some tb /\
             b_next b = if tb =? S (b_idx b) then [S (b_idx b)] else [S (b_idx b); tb].
Proof. intros; eapply cond_branch_order; eauto. Qed.

Print Assumptions C04_blocks_partition.
Print Assumptions C04_single_entry_exit.
Print Assumptions C04_next_prev_mirror.
Print Assumptions C04_next_meaning.
Print Assumptions C04_cond_branch_order.

(* ------------------------------------------------------------------------------------------------------------
   Extension (second round): theorems from Lemmas/{WalkLemmas,OutputLemmas,TypeExec,NoMiss2,ParseLemmas2,PaddingLemmas}.v *)
From Coq Require Import List String NArith ZArith Bool Arith.
From Tealer Require Import Tables Leaves LeafPrelude Syntax Parse Cfg StackAst Keys Analysis Domains Detect Group Output Runs Eval Exec InsExec Paths WalkLemmas OutputLemmas TypeExec NoMiss2 ParseLemmas2 PaddingLemmas.

(* every instruction reachable by the CFG-free, instruction-level semantics (Spec/InsExec.v) lies in exactly one retained block *)
Theorem C04_reachable_code_is_retained :
  forall (p : prog) (t : teal) (pc : nat) (st : list nat),
       parse_teal p = Ok t ->
       IReach p (pc, st) ->
       exists b : block,
         In b (t_blocks t) /\
         In pc (b_ins b) /\
         fblock (whole_function t) (b_idx b) = Some b /\
         pc_block t pc = b_idx b /\ (forall b' : block, In b' (t_blocks t) -> In pc (b_ins b') -> b' = b).
Proof. exact @reachable_pc_in_unique_block. Qed.

(* every instruction-level step either stays inside a block (consecutive positions) or leaves a block at its last instruction and enters a block at its first, along an edge of the global graph (rstep: successor edge / callee entry after callsub / block after the matching callsub after retsub) *)
Theorem C04_blocks_entered_at_first_left_at_last :
  forall (p : prog) (t : teal) (c c' : iconfig), parse_teal p = Ok t -> IReach p c -> istep p c c' -> step_shape t c c'.
Proof. exact @istep_block_walk. Qed.

(* THE WALK CLAUSE: the block sequence of any instruction-level execution from pc 0 is a run (walk) of the contract's global graph *)
Theorem C04_execution_is_walk :
  forall (p : prog) (t : teal) (cfgs : list iconfig), parse_teal p = Ok t -> IRun p cfgs -> Run (whole_function t) (abs_trace t cfgs).
Proof. exact @irun_is_run. Qed.

(* ... and conversely every run of the graph is induced by an instruction-level execution (the graph has no spurious walks at control level) *)
Theorem C04_walks_are_executions :
  forall (p : prog) (t : teal) (cfgs : list rconfig),
       parse_teal p = Ok t -> Run (whole_function t) cfgs <-> (exists icfgs : list iconfig, IRun p icfgs /\ abs_trace t icfgs = cfgs).
Proof. exact @run_iff_irun. Qed.

(* bz/bnz at pc level: first successor = block of pc+1 (fall-through), second = block of the jump target *)
Theorem C04_cond_branch_order_pc :
  forall (p : prog) (t : teal) (pc : nat) (st : list nat) (l : string) (k : nat),
       parse_teal p = Ok t ->
       IReach p (pc, st) ->
       op_at p pc = Some (IBZ l) \/ op_at p pc = Some (IBNZ l) ->
       label_at p l k ->
       S pc < Datatypes.length p ->
       istep p (pc, st) (S pc, st) /\
       istep p (pc, st) (k, st) /\
       (exists b : block,
          In b (t_blocks t) /\
          b_idx b = pc_block t pc /\
          pc = last (b_ins b) 0 /\
          b_next b = (if (pc_block t k =? pc_block t (S pc))%nat then pc_block t (S pc) :: nil else pc_block t (S pc) :: pc_block t k :: nil)).
Proof. exact @cond_branch_order_pc. Qed.

(* the specification's label lookup agrees with the model's find_label *)
Theorem C04_label_lookup_agrees :
  forall (p : prog) (l : string) (k : nat), label_at p l k <-> find_label p l = Some k.
Proof. exact @label_at_find_label. Qed.

Print Assumptions C04_reachable_code_is_retained.
Print Assumptions C04_blocks_entered_at_first_left_at_last.
Print Assumptions C04_execution_is_walk.
Print Assumptions C04_walks_are_executions.
Print Assumptions C04_cond_branch_order_pc.
Print Assumptions C04_label_lookup_agrees.

(* ------------------------------------------------------------------------------------------------------------
   Extension (second round): the executions the theorems speak about are derived from a CFG-FREE, instruction-level
   concrete semantics (Spec/InsSem.v: program counter, return stack, data stack; data-determined bz/bnz), not defined on
   tealer's blocks: Lemmas/InsSemLemmas.v *)
From Coq Require Import List String NArith ZArith Bool Arith.
From Tealer Require Import Tables Leaves LeafPrelude Syntax Parse Cfg StackAst Keys Analysis Domains Detect Runs Eval Exec InsExec InsSem WalkLemmas ExecLemmas GraphWf NoMiss InsSemLemmas.

(* data level: every concrete instruction-level approving execution induces a block-level execution over exactly the blocks it visits *)
Theorem C04_concrete_execution_is_walk :
  forall (e : env) (sem : opsem) (p : prog) (t : teal) (tr : list dconfig),
       parse_teal p = Ok t -> IAccepts e sem p tr -> Accepts e sem (whole_function t) (abs_trace t (ctl_trace tr)).
Proof. exact @iaccepts_refines. Qed.

(* its control projection is an execution of the control semantics (whose block sequence is a walk: C04_execution_is_walk) *)
Theorem C04_concrete_execution_control :
  forall (e : env) (sem : opsem) (p : prog) (tr : list dconfig), IExec e sem p tr -> IRun p (ctl_trace tr).
Proof. exact @iexec_is_irun. Qed.

Print Assumptions C04_concrete_execution_is_walk.
Print Assumptions C04_concrete_execution_control.

(* ------------------------------------------------------------------------------------------------------------
   Extension (third round): the global-graph helpers next_blocks_global / prev_blocks_global / leaf_block_global and the
   solver's _calculate_reachin / _calculate_livein are REGENERATED from the Python source (tools/translate_graph.py ->
   Gen/GraphGen.v, object graph through a fixed fingerprinted glue table) and proved equal to the model's next_global /
   prev_global / leaf_global / reachin / livein on every block of every function, for every domain. *)
From Coq Require Import List String NArith ZArith Bool Arith.
From Tealer Require Import Tables Syntax Parse Cfg StackAst Analysis GraphGen SolverLemmas TotalSolver GraphGenLemmas.

Theorem C04_global_graph_helpers_regenerated :
  forall (f : func) (b : block),
       NoDup (ids f) ->
       In b (fn_blocks f) ->
       prev_blocks_global_gen f (b_idx b) = prev_global f b /\
       leaf_block_global_gen f (b_idx b) = Some (leaf_global f b) /\ (main_name_fresh f -> next_blocks_global_gen f (b_idx b) = next_global f b).
Proof. exact @graph_gen_eq_In. Qed.

Theorem C04_solver_neighbourhoods_regenerated :
  forall (T : Type) (univ null : T) (union inter : T -> T -> T) (single : instr -> nat -> list sval -> T * T) (f : func) 
         (b : block) (st : state T),
       NoDup (ids f) ->
       In b (fn_blocks f) ->
       calculate_reachin_gen T univ null union inter single f (b_idx b) st = reachin T univ null union inter single f st b /\
       (main_name_fresh f -> calculate_livein_gen T univ null union inter f (b_idx b) st = livein T null union inter f st b).
Proof. exact @solver_gen_eq_In. Qed.

Print Assumptions C04_global_graph_helpers_regenerated.
Print Assumptions C04_solver_neighbourhoods_regenerated.

(* ------------------------------------------------------------------------------------------------------------
   Extension (CFG construction regenerated): theorems from Lemmas/CfgGenLemmas.v about Gen/CfgGen.v, the
   translation of parse_teal.py's first/second pass, create_bb, fourth pass, identify_subroutine_blocks and
   the pruning of unreachable blocks *)
From Coq Require Import String List NArith ZArith Bool Arith.
From Tealer Require Import Tables Syntax Parse Cfg KeysGen CfgGen CfgLemmas SubLemmas CfgGenLemmas.

(* the regenerated CFG construction computes the hand-written one, for every program *)
Theorem C04_cfg_gen_eq :
      forall p : prog, build_gen p = build_blocks p.
Proof. exact @build_gen_eq. Qed.

(* the regenerated basic-block pass partitions the instruction list into non-empty consecutive blocks and leaves successor links untouched *)
Theorem C04_create_bb_gen_partition :
      forall (p : list ins) (ih : ins_heap) (all_bbs : list nat) (bh : block_heap) (ih' : ins_heap),
       (forall k : nat, k < Datatypes.length p -> ins_attr_next ih k = ins_next p k) ->
       p <> nil ->
       create_bb_gen p (seq 0 (Datatypes.length p)) nil nil ih = Some (all_bbs, bh, ih') ->
       concat (map b_ins bh) = seq 0 (Datatypes.length p) /\
       all_bbs = seq 0 (Datatypes.length bh) /\
       (forall b : block, In b bh -> b_ins b <> nil) /\ map io_next ih' = map io_next ih.
Proof. exact @create_bb_gen_partition. Qed.

(* the regenerated first and second pass: symmetric prev/next links that agree with ins_next, or an unresolved label *)
Theorem C04_passes_gen_spec :
      forall p : prog,
       match passes_gen p with
       | Some ih =>
           Datatypes.length ih = Datatypes.length p /\
           ih_sym ih /\ (forall k : nat, k < Datatypes.length p -> ins_attr_next ih k = ins_next p k)
       | None => exists k : nat, k < Datatypes.length p /\ ins_next p k = None
       end.
Proof. exact @passes_gen_spec. Qed.

(* block graph produced by the regenerated construction is well formed *)
Theorem C04_cfg_gen_wf :
      forall (p : prog) (bh : block_heap), build_gen p = Some bh -> wf_blocks bh.
Proof. exact @build_gen_wf. Qed.

(* construction is total once the block pass succeeds on a non-empty program *)
Theorem C04_build_blocks_total :
      forall (p : prog) (bs : list rawblock), create_bb p = Some bs -> p <> nil -> build_blocks p <> None.
Proof. exact @build_blocks_total. Qed.

Print Assumptions C04_cfg_gen_eq.
Print Assumptions C04_create_bb_gen_partition.
Print Assumptions C04_passes_gen_spec.
Print Assumptions C04_cfg_gen_wf.
Print Assumptions C04_build_blocks_total.
