(* C08  Per-block address-field information admits every approvable address.  Property theorems only.
   addr_union / addr_intersection are REGENERATED from addr_fields.py on every run. *)
From Coq Require Import List Bool String.
From Tealer Require Import LeafPrelude Tables Leaves Syntax StackAst Analysis Domains LeafLemmas AssertedLemmas Instances Keys Eval Runs Exec SingleLemmas ExecLemmas.
Import ListNotations.

(* the marker algebra: a value is {ANY}, {NO} or a plain set -- never a mixture -- and this is preserved *)
Theorem C08_union_wf : forall a b, addr_wf a -> addr_wf b -> addr_wf (addr_union a b).
Proof. exact addr_union_wf. Qed.
Theorem C08_intersection_wf : forall a b, addr_wf a -> addr_wf b -> addr_wf (addr_intersection a b).
Proof. exact addr_intersection_wf. Qed.
(* union / intersection are the lattice operations under the concretisation (ANY admits every non-zero address) *)
Theorem C08_union_exact : forall a b, addr_wf a -> addr_wf b -> forall n, addr_gamma (addr_union a b) n <-> addr_gamma a n \/ addr_gamma b n.
Proof. exact addr_union_exact. Qed.
Theorem C08_intersection_exact : forall a b, addr_wf a -> addr_wf b -> forall n, addr_gamma (addr_intersection a b) n <-> addr_gamma a n /\ addr_gamma b n.
Proof. exact addr_intersection_exact. Qed.
Theorem C08_any_admits_all : forall n, is_marker n = false -> addr_gamma addr_universal_set n.
Proof. exact addr_universal_gamma. Qed.
Theorem C08_no_admits_none : forall n, ~ addr_gamma addr_null_set n.
Proof. exact addr_null_gamma. Qed.
(* conditions joined by && || ! under every nesting: sound for well-formed values *)
Theorem C08_conditions_sound : forall single rho n, leaf_sound wfaddr single Instances.addr_name agamma rho n ->
  forall c b, ceval rho c b ->
    if b then agamma (fst (asserted wfaddr wa_univ wa_null wa_union wa_inter single c)) n
    else agamma (snd (asserted wfaddr wa_univ wa_null wa_union wa_inter single c)) n.
Proof. exact addr_conditions_sound. Qed.

(* END TO END: whenever an approving concrete execution has the field set to a non-zero address a, every block
   it passes through says 'any' or lists a (abs_name: the creator is listed as CREATOR_ADDRESS).
   _partial: addr_leaves_ok requires comparands to be literals / ZeroAddress / CreatorAddress (run-time comparands
   are the documented heuristic), the literal of known finding D19 not to be used, the creator not to be spelled
   as a literal. *)
Theorem C08_sound_end_to_end_partial : forall e sem f fld a bc fuel lo cfgs,
  sem_ok e sem -> env_ok e -> fn_intcs f = e_intcs e -> graph_ok f ->
  In fld addr_fields_list -> e_field e (e_own e) fld = VAddr a -> a <> "ZERO"%string -> is_marker a = false ->
  addr_leaves_ok e f KSelf fld ->
  init_constraints sset addr_universal_set addr_null_set addr_union addr_intersection (addr_single (fn_intcs f) KSelf fld) f = Some bc ->
  solve sset sset_seteqb addr_universal_set addr_null_set addr_union addr_intersection (addr_single (fn_intcs f) KSelf fld) f fuel bc = Done lo ->
  Accepts e sem f cfgs ->
  forall b st, In (b, st) cfgs -> exists v, Analysis.lookup sset lo b = Some v /\ addr_gamma v (abs_name e a).
Proof. exact C08_sound_partial. Qed.

Print Assumptions C08_union_exact.
Print Assumptions C08_intersection_exact.
Print Assumptions C08_conditions_sound.
Print Assumptions C08_sound_end_to_end_partial.

(* ------------------------------------------------------------------------------------------------------------
   Extension (second round): exactness w.r.t. the LITERAL reading (Lemmas/ExactInstances.v).  `Lit lit f b` = some literal
   accepting path through block b admits the value: comparisons of the governed field against constants read exactly
   (`lit`), every other condition free; no domain, solver or fuel appears in it (Spec/Literal.v; the backward pass ignoring
   edge constraints, known finding D12, is reflected there). *)
From Coq Require Import List String NArith ZArith Bool Arith.
From Tealer Require Import Tables Leaves LeafPrelude Syntax Parse Cfg StackAst Keys Analysis Domains Detect Literal GraphWf ExecLemmas LeafLemmas ExactLemmas ExactInstances.

(* the CONVERSE clause: if some (non-marker) address is excluded on every literal accepting path through the block -- the field is compared against ZeroAddress / a literal on each of them -- the block is not reported as "any address" *)
Theorem C08_constrained_field_is_not_any :
  forall (f : func) (fam : keyfam) (fld : string) (bc : list (nat * sset)) (fuel : nat) (lo : list (nat * sset)) (b : nat) (v : sset),
       init_constraints sset addr_universal_set addr_null_set addr_union addr_intersection (addr_single (fn_intcs f) fam fld) f = Some bc ->
       solve sset sset_seteqb addr_universal_set addr_null_set addr_union addr_intersection (addr_single (fn_intcs f) fam fld) f fuel bc = Done lo ->
       lookup sset lo b = Some v ->
       (exists n : string, is_marker n = false /\ ~ Lit (addr_lit (fn_intcs f) fam fld n) f b) -> smem ANY_ADDRESS v = false.
Proof. exact @C08_constrained_not_any. Qed.

(* exact: an address is admitted at a block iff some literal accepting path through the block admits it *)
Theorem C08_exact :
  forall (f : func) (fam : keyfam) (fld : string) (bc : list (nat * sset)) (fuel : nat) (lo : list (nat * sset)) (n : string),
       graph_wf f = true ->
       is_marker n = false ->
       init_constraints sset addr_universal_set addr_null_set addr_union addr_intersection (addr_single (fn_intcs f) fam fld) f = Some bc ->
       solve sset sset_seteqb addr_universal_set addr_null_set addr_union addr_intersection (addr_single (fn_intcs f) fam fld) f fuel bc = Done lo ->
       forall b : nat, (exists v : sset, lookup sset lo b = Some v /\ addr_gamma v n) <-> Lit (addr_lit (fn_intcs f) fam fld n) f b.
Proof. exact @C08_result_exact. Qed.

Print Assumptions C08_constrained_field_is_not_any.
Print Assumptions C08_exact.

(* ------------------------------------------------------------------------------------------------------------
   Extension (third round): the operand-order / constant-extraction WRAPPER of this domain is REGENERATED from the Python
   source (tools/translate_single.py -> Gen/SingleGen.v, in an exception monad) and proved equal to the model's wrapper on
   every comparison of table arity (Lemmas/SingleGenLemmas.v): an edit of the wrapper in /repo changes the subject of
   these theorems on the next run. *)
From Coq Require Import List String NArith ZArith Bool Arith.
From Tealer Require Import Tables Leaves LeafPrelude Syntax Parse Cfg StackAst Keys KeysGen SingleGen Analysis Domains Eval LeafLemmas SingleLemmas ExecLemmas TypeLemmas SingleGenLemmas.

Theorem C08_wrapper_regenerated :
  forall (intcs : option (list N)) (fam : keyfam) (fld : string) (op : instr) (pos : nat) (args : list sval),
       stack_pop_size op = Some (Datatypes.length args) -> addr_single_gen intcs fam fld op pos args = Some (addr_single intcs fam fld op pos args).
Proof. exact @addr_single_gen_eq_table. Qed.

Theorem C08_wrapper_regenerated_sound :
  forall (e : env) (fam : keyfam) (fld : string) (op : instr) (pos : nat) (args : list sval) (t : N) (a : string) (b : bool) (r : sset * sset),
       fld <> "GroupIndex" ->
       key_txn e fam = Some t ->
       e_field e t fld = VAddr a ->
       a <> "ZERO" ->
       is_marker a = false ->
       addr_const_compared (e_intcs e) fam fld args ->
       zero_literal_ok args ->
       creator_not_literal e args ->
       leaf_truth e op args = Some b ->
       addr_single_gen (e_intcs e) fam fld op pos args = Some r -> addr_gamma (if b then fst r else snd r) (abs_name e a).
Proof. exact @addr_single_gen_sound. Qed.

Print Assumptions C08_wrapper_regenerated.
Print Assumptions C08_wrapper_regenerated_sound.

(* ------------------------------------------------------------------------------------------------------------
   Extension (store round): AddrFields._store_results / _set_addr_values and the BlockTransactionContext objects / accessors
   are REGENERATED (tools/translate_store.py -> Gen/StoreGen.v).  Lemmas/StoreGenLemmas.v: after the regenerated store every
   slot (b, fam) holds, for each of the four (key, attribute) pairs whose key is in BASE_KEYS, the AddrFieldValue of the
   solver result of ITS OWN key key_of_fam key fam in that attribute (addr_rel); nothing else changes; the AddrFieldValue
   is the one the detectors' model reads (Detect.addrval_of). *)
From Tealer Require Import GraphGen SolverGen RunGen StoreGen Detect RunGenLemmas StoreGenLemmas.

Theorem C08_store_results_regenerated :
  forall (f : func) (d : gdict sset) (BK : list string) (t : state ctxobj),
    (forall b, In b (function_blocks f) -> exists c, lookup ctxobj t b = Some c /\ ctx_shape c) ->
    (forall p b fam, In p addr_pairs -> str_in (fst p) BK = true -> In b (function_blocks f) -> In fam all_fams ->
       bc_get d (key_of_fam (fst p) fam) b <> None) ->
    exists t', addr_store_results_gen f d BK t = Some t' /\
      (forall b, ~ In b (function_blocks f) -> lookup ctxobj t' b = lookup ctxobj t b) /\
      (forall b c, lookup ctxobj t b = Some c -> ctx_shape c -> exists c', lookup ctxobj t' b = Some c' /\ ctx_shape c') /\
      (forall b, In b (function_blocks f) -> forall fam, In fam all_fams -> exists o o',
         read_slot t b fam = Some o /\ read_slot t' b fam = Some o' /\ addr_rel d BK b fam addr_pairs o o').
Proof. exact @addr_store_read_back. Qed.

Theorem C08_set_addr_values_regenerated : forall (a : addrval) (v : sset), set_addr_values_gen a v = addrval_of v.
Proof. exact @set_addr_values_addrval_of. Qed.

Print Assumptions C08_store_results_regenerated.
Print Assumptions C08_set_addr_values_regenerated.
