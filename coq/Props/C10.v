(* C10  Cross-transaction (gtxn) contexts: reads are attributed to the right transaction.  Property theorems only.
   Spec/Eval.v gives the concrete meaning of operand trees for a transaction group. *)
From Coq Require Import List String NArith ZArith.
From Tealer Require Import LeafPrelude Leaves Syntax StackAst Keys Analysis Domains LeafLemmas Eval Runs Exec SingleLemmas ExecLemmas.
Import ListNotations.

(* index classification: the reconstructed index tree denotes own index / an absolute index / own+offset *)
Theorem C10_index_classification : forall e v j,
  sv_eval e v = Some (VInt j) -> index_denotes e (get_index (e_intcs e) v) j.
Proof. exact get_index_correct. Qed.

(* key matching: a value that matches the key (self / at index i / absolute i / relative k) of field fld IS that
   field of the transaction the key talks about -- for `gtxn i f`, `int i; gtxns f`,
   `txn GroupIndex; int k; +/-; gtxns f` (both operand orders of +) and `txn f` *)
Theorem C10_reads_attributed : forall e fam fld v x t,
  value_matches (e_intcs e) fam fld v = true -> sv_eval e v = Some x -> key_txn e fam = Some t ->
  x = field_of e t fld.
Proof. exact classify_correct. Qed.

(* END TO END for every key family the tool reports (run_all): the Fee of the transaction the key talks about
   (own transaction at index i / Gtxn[i] / Gtxn[GroupIndex+k]) in an approving execution is below the bound
   reported for every block on the run.  The at-index family additionally rests on the soundness of the
   possible-index sets (C06). *)
Theorem C10_fee_contexts_sound : forall e sem f fuel res fam r t fee cfgs,
  sem_ok e sem -> env_ok e -> fn_intcs f = e_intcs e -> graph_ok f ->
  run_all f fuel = Done res -> In (fam, r) (r_fees res) ->
  key_txn e fam = Some t -> e_field e t "Fee"%string = VInt fee -> (0 <= fee <= MAX_UINT64z)%Z ->
  fee_leaves_ok f fam ->
  match fam with KAtIndex _ => fee_leaves_ok f KSelf /\ int_leaves_ok f true /\ int_leaves_ok f false | _ => True end ->
  Accepts e sem f cfgs ->
  forall b st, In (b, st) cfgs -> exists v, Analysis.lookup feeval r b = Some v /\ fee_gamma v fee.
Proof. exact run_all_fee_sound. Qed.

Print Assumptions C10_index_classification.
Print Assumptions C10_reads_attributed.
Print Assumptions C10_fee_contexts_sound.

(* ------------------------------------------------------------------------------------------------------------
   Extension (second round): theorems from Lemmas/{WalkLemmas,OutputLemmas,TypeExec,NoMiss2,ParseLemmas2,PaddingLemmas}.v *)
From Coq Require Import List String NArith ZArith Bool Arith.
From Tealer Require Import Tables Leaves LeafPrelude Syntax Parse Cfg StackAst Keys Analysis Domains Detect Group Output Runs Eval Exec InsExec Paths WalkLemmas OutputLemmas TypeExec NoMiss2 ParseLemmas2 PaddingLemmas.

(* transaction kinds of other group members (all key families) *)
Theorem C10_type_contexts_sound_partial :
  forall (e : env) (sem : opsem) (f : func) (fuel : nat) (indices : list (nat * list Z)) (res : list (keyfam * list (nat * list string)))
         (fam : keyfam) (r : list (nat * list string)) (t : N) (L : string) (ty oc ap : N) (cfgs : list rconfig),
       sem_ok e sem ->
       env_ok e ->
       fn_intcs f = e_intcs e ->
       ExecLemmas.graph_ok f ->
       run_family f fuel lset_eqb ALL_TRANSACTION_TYPES nil lunion linter (fun fam0 : keyfam => type_single (fn_intcs f) fam0) indices = Done res ->
       In (fam, r) res ->
       key_txn e fam = Some t ->
       kind_fields e t ty oc ap ->
       TypeLemmas.in_range ty oc ap ->
       In L TypeLemmas.c07_labels ->
       TypeLemmas.carries ty oc ap L = true ->
       type_leaves_ok f fam L ty oc ap ->
       match fam with
       | KAtIndex i => type_leaves_ok f KSelf L ty oc ap /\ ExecLemmas.index_sound indices i cfgs
       | _ => True
       end ->
       Accepts e sem f cfgs ->
       forall (b : nat) (st : list nat), In (b, st) cfgs -> exists v : list string, lookup (list string) r b = Some v /\ In L v.
Proof. exact @C10_type_sound_partial. Qed.

Print Assumptions C10_type_contexts_sound_partial.

(* ------------------------------------------------------------------------------------------------------------
   Extension (third round): the classification functions REGENERATED from group_helpers.py / key_helpers.py
   (Gen/KeysGen.v, tools/translate_keys.py) satisfy the same theorems; they equal the hand-written model on every value the
   stack emulation can produce (Lemmas/KeysGenLemmas.v).  An edit of `_get_index` / `is_value_matches_key` therefore changes
   the subject of these theorems on the next run. *)
From Coq Require Import String NArith ZArith List.
From Tealer Require Import Syntax StackAst Keys KeysGen Eval SingleLemmas KeysGenLemmas.

Theorem C10_index_classification_regenerated : forall e v j,
  sv_eval e v = Some (VInt j) -> index_denotes e (get_index_gen (e_intcs e) v) j.
Proof. exact get_index_gen_correct. Qed.

Theorem C10_reads_attributed_regenerated : forall e fam fld v x t,
  value_matches_gen (e_intcs e) fam fld v = true -> sv_eval e v = Some x -> key_txn e fam = Some t ->
  x = field_of e t fld.
Proof. exact classify_gen_correct. Qed.

(* generated = hand-written model on every operand tree of well-formed arity (in particular on every tree the emulation builds) *)
Theorem C10_regenerated_equals_model : forall intcs v, arity_ok v ->
  get_index_gen intcs v = get_index intcs v /\
  get_index_and_field_gen intcs v = get_index_and_field intcs v /\
  forall fam fld, value_matches_gen intcs fam fld v = value_matches intcs fam fld v.
Proof. exact gen_eq_on_arity_ok. Qed.

Print Assumptions C10_index_classification_regenerated.
Print Assumptions C10_reads_attributed_regenerated.
Print Assumptions C10_regenerated_equals_model.

(* ------------------------------------------------------------------------------------------------------------
   Extension (third round): regenerated orchestration (Lemmas/RunGenLemmas.v) *)
From Coq Require Import List String NArith ZArith Bool Arith.
From Tealer Require Import Tables Syntax Parse Cfg StackAst Keys Analysis Domains GraphGen SolverGen ConstraintsGen RunGen GraphGenLemmas SolverGenLemmas ConstraintsGenLemmas RunGenLemmas.

(* the list of analysis keys built by run_analysis (REGENERATED: tools/translate_run.py -> Gen/RunGen.v) is exactly the model's family list: per field 16 at-index, 16 absolute and 30 relative keys *)
Theorem C10_key_families_regenerated :
  forall base_keys ks : list string, gtx_keys_gen base_keys ks = Some (flat_map (fun base : string => map (key_of_fam base) all_gtx_fams) ks).
Proof. exact @gtx_keys_gen_eq. Qed.

Theorem C10_key_families_census :
  Datatypes.length all_gtx_fams = 62 /\
       map (fun i : nat => KAtIndex (N.of_nat i)) (seq 0 16) =
       filter (fun fam : keyfam => match fam with
                                   | KAtIndex _ => true
                                   | _ => false
                                   end) all_gtx_fams /\
       map (fun i : nat => KAbs (N.of_nat i)) (seq 0 16) = filter (fun fam : keyfam => match fam with
                                                                                       | KAbs _ => true
                                                                                       | _ => false
                                                                                       end) all_gtx_fams /\
       map (fun o : nat => KRel (Z.of_nat o - 15)) (seq 0 15) ++ map (fun o : nat => KRel (Z.of_nat o + 1)) (seq 0 15) =
       filter (fun fam : keyfam => match fam with
                                   | KRel _ => true
                                   | _ => false
                                   end) all_gtx_fams.
Proof. exact @all_gtx_fams_census. Qed.

(* the post-order worklists of run_analysis equal the model's *)
Theorem C10_worklists_regenerated_forward :
  forall f : func,
       succ_closed f ->
       In (fn_entry f) (SolverLemmas.ids f) ->
       subs_entries_ok f ->
       (forall s : subroutine, In s (fn_subs f) -> In (s_entry s) (SolverLemmas.ids f)) ->
       KeysGen.bind (postorders_gen f (S (Datatypes.length (fn_blocks f)))) forward_worklist_gen = Some (forward_worklist f).
Proof. exact @forward_worklist_gen_model. Qed.

Theorem C10_worklists_regenerated_backward :
  forall f : func,
       succ_closed f ->
       In (fn_entry f) (SolverLemmas.ids f) ->
       subs_entries_ok f ->
       (forall s : subroutine, In s (fn_subs f) -> In (s_entry s) (SolverLemmas.ids f)) ->
       KeysGen.bind (postorders_gen f (S (Datatypes.length (fn_blocks f)))) (backward_worklist_gen f) = Some (backward_worklist f).
Proof. exact @backward_worklist_gen_model. Qed.

(* run_analysis for one base key = the model's run_int (the joint pass over several keys on one shared worklist is not covered) *)
Theorem C10_run_analysis_regenerated_one_key :
  forall (f : func) (size : bool) (base : string) (indices : list (nat * list Z)) (fuel afuel : nat) (d0 : gdict (list Z)),
       run_graph_ok f ->
       (forall b : block, In b (fn_blocks f) -> NoDup (b_ins b) /\ Datatypes.length (b_ins b) < afuel) ->
       let U := if size then Leaves.int_universal_groupsize else Leaves.int_universal_groupindex in
       let single := fun _ : string => int_single size (fn_intcs f) in
       init_gen (list Z) (fun _ : string => U) (fun _ : string => nil) (fun _ : string => zunion) (fun _ : string => zinter) single f afuel
         (base :: nil) (kdict_empty (list Z)) = Some d0 ->
       init_constraints (list Z) U nil zunion zinter (int_single size (fn_intcs f)) f <> None ->
       run_analysis_gen (list Z) zset_eqb (fun _ : string => U) (fun _ : string => nil) (fun _ : string => zunion) (fun _ : string => zinter) single
         f (base :: nil) nil indices fuel (S (Datatypes.length (fn_blocks f))) afuel =
       erase (omap (fun lo : state (list Z) => kdict_set (list Z) d0 base lo) (run_int f fuel size)).
Proof. exact @run_analysis_gen_run_int. Qed.

Print Assumptions C10_key_families_regenerated.
Print Assumptions C10_key_families_census.
Print Assumptions C10_worklists_regenerated_forward.
Print Assumptions C10_worklists_regenerated_backward.
Print Assumptions C10_run_analysis_regenerated_one_key.

(* ------------------------------------------------------------------------------------------------------------
   Extension (joint pass over all keys): theorems from Lemmas/JointGenLemmas.v and Lemmas/JointTotal.v.  tealer iterates
   ONE worklist for all keys of an analysis; the per-key model is related to that joint run here.  *)
From Coq Require Import String List NArith ZArith Bool Arith.
From Tealer Require Import JointGenLemmas JointTotal.

(* joint run over the base key and its gtxn key family against the per-key family run of the model *)
Theorem C10_run_analysis_gen_family_peq :
      forall (T : Type) (t_eqb : T -> T -> bool) (univ null : string -> T)
         (union inter : string -> T -> T -> T)
         (single : string -> Syntax.instr -> nat -> list StackAst.sval -> T * T) 
         (f : Analysis.func) (indices : list (nat * list Z)),
       RunGenLemmas.run_graph_ok f ->
       joint_graph_ok f ->
       forall (base : string) (fuel afuel : nat) (d0 : SolverGen.gdict T) (br : list (nat * T))
         (dfin : SolverGen.gdict T),
       (forall b : nat,
        In b (SolverLemmas.ids f) -> exists gi : list Z, Analysis.lookup (list Z) indices b = Some gi) ->
       RunGenLemmas.init_gen T univ null union inter single f afuel
         (base :: map (RunGenLemmas.key_of_fam base) Keys.all_gtx_fams) (SolverGen.kdict_empty T) = 
       Some d0 ->
       Domains.solve T t_eqb (univ base) (null base) (union base) (inter base) (single base) f fuel
         (SolverGen.ddict_get T d0 base) = Analysis.Done br ->
       RunGen.run_analysis_gen T t_eqb univ null union inter single f (base :: nil) 
         (base :: nil) indices fuel (S (Datatypes.length (Analysis.fn_blocks f))) afuel = 
       Some (Some dfin) ->
       SolverGen.ddict_get T dfin base = br /\
       (forall (fam : Keys.keyfam) (leq : T -> T -> Prop) (fuel' : nat) (r : list (nat * T)),
        In fam Keys.all_gtx_fams ->
        let key := RunGenLemmas.key_of_fam base fam in
        key_order T t_eqb (null key) (union key) (inter key) leq ->
        Domains.solve T t_eqb (univ key) (null key) (union key) (inter key) (single key) f fuel'
          (RunGenLemmas.refine_fam (inter key) (null key) indices br fam (SolverGen.ddict_get T d0 key)) =
        Analysis.Done r -> SolverLemmas.peq T t_eqb (SolverGen.ddict_get T dfin key) r).
Proof. exact @run_analysis_gen_family_peq. Qed.

Print Assumptions C10_run_analysis_gen_family_peq.

(* ------------------------------------------------------------------------------------------------------------
   Extension (store round): the result-storing / reading layer of the key families is REGENERATED (tools/translate_store.py
   -> Gen/StoreGen.v: BlockTransactionContext.__init__, gtxn_context / absolute_context / relative_context, the three
   _store_results).  From the fresh objects of Function.__init__, after the three stores every slot (b, fam) -- read back
   through the regenerated accessors -- holds attribute by attribute the result of its own key (store_all_read_back), i.e.
   Detect.ctx_of of the model result for every tail family, and for KSelf up to group_sizes / group_indices (ConstsGen);
   distinct families are distinct objects (accessor_refs_distinct); outside 0..15 the accessors alias (documented). *)
From Tealer Require Import GraphGen SolverGen RunGen StoreGen Detect RunGenLemmas StoreGenLemmas.

Theorem C10_store_all_ctx_of :
  forall (f : func) (r : fn_result) (dF : gdict feeval) (dT : gdict (list string)) (dA : gdict sset),
    (forall b fam, In b (function_blocks f) -> In fam all_fams -> bc_get dF (key_of_fam "Fee" fam) b = Some (res_fee r fam b)) ->
    (forall b fam, In b (function_blocks f) -> In fam all_fams -> bc_get dT (key_of_fam "TransactionType" fam) b = Some (res_types r fam b)) ->
    (forall key b fam, In key addr_BASE_KEYS_gen -> In b (function_blocks f) -> In fam all_fams ->
       bc_get dA (key_of_fam key fam) b = Some (res_addr r key fam b)) ->
    exists t1 t2 t3,
      fee_store_results_gen f dF (function_transaction_contexts_gen f) = Some t1 /\
      type_store_results_gen f dT t1 = Some t2 /\
      addr_store_results_gen f dA addr_BASE_KEYS_gen t2 = Some t3 /\
      forall b, In b (function_blocks f) -> forall fam, In fam all_fams ->
        exists o, read_slot t3 b fam = Some o /\ same_but_int o (ctx_of r b fam) /\ (fam <> KSelf -> o = ctx_of r b fam).
Proof. exact @store_all_ctx_of. Qed.

Theorem C10_families_exact : forall fam, In fam all_fams <-> famb fam = true.
Proof. exact @all_fams_famb. Qed.

Theorem C10_accessor_refs_distinct :
  forall c, ctx_shape c -> forall fam1 fam2, In fam1 all_fams -> In fam2 all_fams ->
    slot_ref c fam1 <> None /\ (slot_ref c fam1 = slot_ref c fam2 -> fam1 = fam2).
Proof. exact @accessor_refs_distinct. Qed.

Print Assumptions C10_store_all_ctx_of.
Print Assumptions C10_families_exact.
Print Assumptions C10_accessor_refs_distinct.
