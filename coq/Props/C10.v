(* C10  Cross-transaction (gtxn) contexts: reads are attributed to the right transaction.  Property theorems only.
   Spec/Eval.v gives the concrete meaning of operand trees for a transaction group. *)
From Coq Require Import List String NArith ZArith.
From Tealer Require Import LeafPrelude Leaves Syntax StackAst Keys Analysis Domains LeafLemmas Eval Runs Exec SingleLemmas ExecLemmas.
Import ListNotations.

(* index classification: the reconstructed index tree denotes own index / an absolute index / own+offset *)
Theorem C10_index_classification : forall e v j,
  sv_eval e v = Some (VInt j) -> index_denotes e (get_index (e_intcs e) v) j.
Proof. exact get_index_correct. Qed.

(* key matching: a value that matches the key (self / at index i / absolute i / relative k) of field fld IS that
   field of the transaction the key talks about -- for `gtxn i f`, `int i; gtxns f`,
   `txn GroupIndex; int k; +/-; gtxns f` (both operand orders of +) and `txn f` *)
Theorem C10_reads_attributed : forall e fam fld v x t,
  value_matches (e_intcs e) fam fld v = true -> sv_eval e v = Some x -> key_txn e fam = Some t ->
  x = field_of e t fld.
Proof. exact classify_correct. Qed.

(* END TO END for every key family the tool reports (run_all): the Fee of the transaction the key talks about
   (own transaction at index i / Gtxn[i] / Gtxn[GroupIndex+k]) in an approving execution is below the bound
   reported for every block on the run.  The at-index family additionally rests on the soundness of the
   possible-index sets (C06). *)
Theorem C10_fee_contexts_sound : forall e sem f fuel res fam r t fee cfgs,
  sem_ok e sem -> env_ok e -> fn_intcs f = e_intcs e -> graph_ok f ->
  run_all f fuel = Done res -> In (fam, r) (r_fees res) ->
  key_txn e fam = Some t -> e_field e t "Fee"%string = VInt fee -> (0 <= fee <= MAX_UINT64z)%Z ->
  fee_leaves_ok f fam ->
  match fam with KAtIndex _ => fee_leaves_ok f KSelf /\ int_leaves_ok f true /\ int_leaves_ok f false | _ => True end ->
  Accepts e sem f cfgs ->
  forall b st, In (b, st) cfgs -> exists v, Analysis.lookup feeval r b = Some v /\ fee_gamma v fee.
Proof. exact run_all_fee_sound. Qed.

Print Assumptions C10_index_classification.
Print Assumptions C10_reads_attributed.
Print Assumptions C10_fee_contexts_sound.

(* ------------------------------------------------------------------------------------------------------------
   Extension (second round): theorems from Lemmas/{WalkLemmas,OutputLemmas,TypeExec,NoMiss2,ParseLemmas2,PaddingLemmas}.v *)
From Coq Require Import List String NArith ZArith Bool Arith.
From Tealer Require Import Tables Leaves LeafPrelude Syntax Parse Cfg StackAst Keys Analysis Domains Detect Group Output Runs Eval Exec InsExec Paths WalkLemmas OutputLemmas TypeExec NoMiss2 ParseLemmas2 PaddingLemmas.

(* transaction kinds of other group members (all key families) *)
Theorem C10_type_contexts_sound_partial :
  forall (e : env) (sem : opsem) (f : func) (fuel : nat) (indices : list (nat * list Z)) (res : list (keyfam * list (nat * list string)))
         (fam : keyfam) (r : list (nat * list string)) (t : N) (L : string) (ty oc ap : N) (cfgs : list rconfig),
       sem_ok e sem ->
       env_ok e ->
       fn_intcs f = e_intcs e ->
       ExecLemmas.graph_ok f ->
       run_family f fuel lset_eqb ALL_TRANSACTION_TYPES nil lunion linter (fun fam0 : keyfam => type_single (fn_intcs f) fam0) indices = Done res ->
       In (fam, r) res ->
       key_txn e fam = Some t ->
       kind_fields e t ty oc ap ->
       TypeLemmas.in_range ty oc ap ->
       In L TypeLemmas.c07_labels ->
       TypeLemmas.carries ty oc ap L = true ->
       type_leaves_ok f fam L ty oc ap ->
       match fam with
       | KAtIndex i => type_leaves_ok f KSelf L ty oc ap /\ ExecLemmas.index_sound indices i cfgs
       | _ => True
       end ->
       Accepts e sem f cfgs ->
       forall (b : nat) (st : list nat), In (b, st) cfgs -> exists v : list string, lookup (list string) r b = Some v /\ In L v.
Proof. exact @C10_type_sound_partial. Qed.

Print Assumptions C10_type_contexts_sound_partial.

(* ------------------------------------------------------------------------------------------------------------
   Extension (third round): the classification functions REGENERATED from group_helpers.py / key_helpers.py
   (Gen/KeysGen.v, tools/translate_keys.py) satisfy the same theorems; they equal the hand-written model on every value the
   stack emulation can produce (Lemmas/KeysGenLemmas.v).  An edit of `_get_index` / `is_value_matches_key` therefore changes
   the subject of these theorems on the next run. *)
From Coq Require Import String NArith ZArith List.
From Tealer Require Import Syntax StackAst Keys KeysGen Eval SingleLemmas KeysGenLemmas.

Theorem C10_index_classification_regenerated : forall e v j,
  sv_eval e v = Some (VInt j) -> index_denotes e (get_index_gen (e_intcs e) v) j.
Proof. exact get_index_gen_correct. Qed.

Theorem C10_reads_attributed_regenerated : forall e fam fld v x t,
  value_matches_gen (e_intcs e) fam fld v = true -> sv_eval e v = Some x -> key_txn e fam = Some t ->
  x = field_of e t fld.
Proof. exact classify_gen_correct. Qed.

(* generated = hand-written model on every operand tree of well-formed arity (in particular on every tree the emulation builds) *)
Theorem C10_regenerated_equals_model : forall intcs v, arity_ok v ->
  get_index_gen intcs v = get_index intcs v /\
  get_index_and_field_gen intcs v = get_index_and_field intcs v /\
  forall fam fld, value_matches_gen intcs fam fld v = value_matches intcs fam fld v.
Proof. exact gen_eq_on_arity_ok. Qed.

Print Assumptions C10_index_classification_regenerated.
Print Assumptions C10_reads_attributed_regenerated.
Print Assumptions C10_regenerated_equals_model.
