(* C10  Cross-transaction (gtxn) contexts: reads are attributed to the right transaction.  Property theorems only.
   Spec/Eval.v gives the concrete meaning of operand trees for a transaction group. *)
From Coq Require Import List String NArith ZArith.
From Tealer Require Import LeafPrelude Leaves Syntax StackAst Keys Analysis Domains LeafLemmas Eval Runs Exec SingleLemmas ExecLemmas.
Import ListNotations.

(* index classification: the reconstructed index tree denotes own index / an absolute index / own+offset *)
Theorem C10_index_classification : forall e v j,
  sv_eval e v = Some (VInt j) -> index_denotes e (get_index (e_intcs e) v) j.
Proof. exact get_index_correct. Qed.

(* key matching: a value that matches the key (self / at index i / absolute i / relative k) of field fld IS that
   field of the transaction the key talks about -- for `gtxn i f`, `int i; gtxns f`,
   `txn GroupIndex; int k; +/-; gtxns f` (both operand orders of +) and `txn f` *)
Theorem C10_reads_attributed : forall e fam fld v x t,
  value_matches (e_intcs e) fam fld v = true -> sv_eval e v = Some x -> key_txn e fam = Some t ->
  x = field_of e t fld.
Proof. exact classify_correct. Qed.

(* END TO END for every key family the tool reports (run_all): the Fee of the transaction the key talks about
   (own transaction at index i / Gtxn[i] / Gtxn[GroupIndex+k]) in an approving execution is below the bound
   reported for every block on the run.  The at-index family additionally rests on the soundness of the
   possible-index sets (C06). *)
Theorem C10_fee_contexts_sound : forall e sem f fuel res fam r t fee cfgs,
  sem_ok e sem -> env_ok e -> fn_intcs f = e_intcs e -> graph_ok f ->
  run_all f fuel = Done res -> In (fam, r) (r_fees res) ->
  key_txn e fam = Some t -> e_field e t "Fee"%string = VInt fee -> (0 <= fee <= MAX_UINT64z)%Z ->
  fee_leaves_ok f fam ->
  match fam with KAtIndex _ => fee_leaves_ok f KSelf /\ int_leaves_ok f true /\ int_leaves_ok f false | _ => True end ->
  Accepts e sem f cfgs ->
  forall b st, In (b, st) cfgs -> exists v, Analysis.lookup feeval r b = Some v /\ fee_gamma v fee.
Proof. exact run_all_fee_sound. Qed.

Print Assumptions C10_index_classification.
Print Assumptions C10_reads_attributed.
Print Assumptions C10_fee_contexts_sound.
