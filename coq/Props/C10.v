(* C10  Cross-transaction (gtxn) contexts: reads are attributed to the right transaction.  Property theorems only.
   Spec/Eval.v gives the concrete meaning of operand trees for a transaction group. *)
From Coq Require Import List String NArith ZArith.
From Tealer Require Import Syntax StackAst Keys Eval SingleLemmas.
Import ListNotations.

(* index classification: the reconstructed index tree denotes own index / an absolute index / own+offset *)
Theorem C10_index_classification : forall e v j,
  sv_eval e v = Some (VInt j) -> index_denotes e (get_index (e_intcs e) v) j.
Proof. exact get_index_correct. Qed.

(* key matching: a value that matches the key (self / at index i / absolute i / relative k) of field fld IS that
   field of the transaction the key talks about -- for `gtxn i f`, `int i; gtxns f`,
   `txn GroupIndex; int k; +/-; gtxns f` (both operand orders of +) and `txn f` *)
Theorem C10_reads_attributed : forall e fam fld v x t,
  value_matches (e_intcs e) fam fld v = true -> sv_eval e v = Some x -> key_txn e fam = Some t ->
  x = field_of e t fld.
Proof. exact classify_correct. Qed.

Print Assumptions C10_index_classification.
Print Assumptions C10_reads_attributed.
