(* C01  Detectors never miss an approvable dangerous transaction.  Property theorems only.
   Composition so far (model level):  accepting run whose blocks are all unvalidated  ==>  a path is reported.
   "All blocks unvalidated" is what the soundness of the contexts (C06-C10, RunLemmas.solve_sound) gives for a
   run carrying the dangerous value; that last link is stated per domain in Lemmas/ExecLemmas when present. *)
From Coq Require Import List String.
From Tealer Require Import Syntax Cfg Analysis Detect Runs Paths SearchLemmas PathCut Compose.
Import ListNotations.

(* every accepting run (loops, shared and nested subroutines) cuts down to a genuine path through a subset of its blocks *)
Theorem C01_run_cuts_to_path : forall f validated cfgs,
  AcceptingRun f cfgs -> returns_all f cfgs ->
  (forall c, In c cfgs -> validated (fst c) = false) -> nonrecursive f cfgs ->
  exists p, GoodPath f validated p /\ incl p (map fst cfgs) /\ last p 0 = fst (final f cfgs).
Proof. exact run_to_goodpath. Qed.

(* ... hence the detector reports at least one path (for detectors without an extra report condition) *)
Theorem C01_unvalidated_run_reported : forall f validated report fuel cfgs ps,
  AcceptingRun f cfgs -> returns_all f cfgs ->
  (forall c, In c cfgs -> validated (fst c) = false) -> nonrecursive f cfgs ->
  (forall p, report p = true) ->
  detect_paths f validated report fuel = Done ps -> ps <> [].
Proof. exact unvalidated_run_reported_nonempty. Qed.

Print Assumptions C01_run_cuts_to_path.
Print Assumptions C01_unvalidated_run_reported.
