(* C01  Detectors never miss an approvable dangerous transaction.  Property theorems only.
   Composition so far (model level):  accepting run whose blocks are all unvalidated  ==>  a path is reported.
   "All blocks unvalidated" is what the soundness of the contexts (C06-C10, RunLemmas.solve_sound) gives for a
   run carrying the dangerous value; that last link is stated per domain in Lemmas/ExecLemmas when present. *)
From Coq Require Import List String.
From Coq Require Import ZArith.
From Tealer Require Import LeafPrelude Leaves Syntax Parse Cfg Keys Analysis Domains Detect Eval Runs Paths Exec LeafLemmas SingleLemmas SearchLemmas PathCut Compose GraphWf ExecLemmas GraphOk NoMiss.
Import ListNotations.

(* every accepting run (loops, shared and nested subroutines) cuts down to a genuine path through a subset of its blocks *)
Theorem C01_run_cuts_to_path : forall f validated cfgs,
  AcceptingRun f cfgs -> returns_all f cfgs ->
  (forall c, In c cfgs -> validated (fst c) = false) -> nonrecursive f cfgs ->
  exists p, GoodPath f validated p /\ incl p (map fst cfgs) /\ last p 0 = fst (final f cfgs).
Proof. exact run_to_goodpath. Qed.

(* ... hence the detector reports at least one path (for detectors without an extra report condition) *)
Theorem C01_unvalidated_run_reported : forall f validated report fuel cfgs ps,
  AcceptingRun f cfgs -> returns_all f cfgs ->
  (forall c, In c cfgs -> validated (fst c) = false) -> nonrecursive f cfgs ->
  (forall p, report p = true) ->
  detect_paths f validated report fuel = Done ps -> ps <> [].
Proof. exact unvalidated_run_reported_nonempty. Qed.

(* END TO END, missing-fee-check: if a concrete approving execution (Spec/Exec.v) has Fee > 272000 then the
   detector reports at least one path.  fuel / fuel' arbitrary (Done excludes out-of-fuel). *)
Theorem C01_fee_no_miss_end_to_end : forall e sem f fuel fuel' res cfgs ps fee,
  sem_ok e sem -> env_ok e -> fn_intcs f = e_intcs e -> graph_ok f ->
  fee_leaves_ok f KSelf -> fee_leaves_ok f (KAtIndex (e_own e)) -> int_leaves_ok f true -> int_leaves_ok f false ->
  run_all f fuel = Done res -> Accepts e sem f cfgs -> nonrecursive f cfgs ->
  e_field e (e_own e) "Fee"%string = VInt fee -> (MAX_TRANSACTION_COSTz < fee <= MAX_UINT64z)%Z ->
  run_detector f res fuel' "missing-fee-check"%string checks_missing_fee_check = Done ps -> ps <> [].
Proof. exact C01_fee_no_miss. Qed.

(* END TO END, rekey-to: RekeyTo = an address not listed anywhere in the tool's result (never named by the contract) *)
Theorem C01_rekey_no_miss_end_to_end_partial : forall e sem f fuel fuel' res cfgs ps a,
  sem_ok e sem -> env_ok e -> fn_intcs f = e_intcs e -> graph_ok f ->
  addr_leaves_ok e f KSelf "RekeyTo"%string -> addr_leaves_ok e f (KAtIndex (e_own e)) "RekeyTo"%string ->
  int_leaves_ok f true -> int_leaves_ok f false ->
  run_all f fuel = Done res -> Accepts e sem f cfgs -> nonrecursive f cfgs ->
  e_field e (e_own e) "RekeyTo"%string = VAddr a -> a <> "ZERO"%string -> is_marker a = false ->
  fresh_in res "RekeyTo"%string (abs_name e a) ->
  run_detector f res fuel' "rekey-to"%string checks_rekey_to = Done ps -> ps <> [].
Proof. exact C01_rekey_no_miss_partial. Qed.

(* the graph hypotheses hold for every structured parsed program *)
Theorem C01_graph_ok_for_structured_programs : forall p t, parse_teal p = Ok t -> struct_ok t -> graph_ok (whole_function t).
Proof. exact graph_ok_whole_function. Qed.

Print Assumptions C01_run_cuts_to_path.
Print Assumptions C01_unvalidated_run_reported.
Print Assumptions C01_fee_no_miss_end_to_end.
Print Assumptions C01_rekey_no_miss_end_to_end_partial.
Print Assumptions C01_graph_ok_for_structured_programs.

(* ------------------------------------------------------------------------------------------------------------
   Extension (second round): theorems from Lemmas/{WalkLemmas,OutputLemmas,TypeExec,NoMiss2,ParseLemmas2,PaddingLemmas}.v *)
From Coq Require Import List String NArith ZArith Bool Arith.
From Tealer Require Import Tables Leaves LeafPrelude Syntax Parse Cfg StackAst Keys Analysis Domains Detect Group Output Runs Eval Exec InsExec Paths WalkLemmas OutputLemmas TypeExec NoMiss2 ParseLemmas2 PaddingLemmas.

(* END TO END, can-close-account *)
Theorem C01_can_close_account_no_miss_partial :
  forall (e : env) (sem : opsem) (f : func) (fuel fuel' : nat) (res : fn_result) (cfgs : list rconfig) (ps : list (list nat)) (a : string),
       sem_ok e sem ->
       env_ok e ->
       fn_intcs f = e_intcs e ->
       ExecLemmas.graph_ok f ->
       ExecLemmas.addr_leaves_ok e f KSelf "CloseRemainderTo" ->
       ExecLemmas.addr_leaves_ok e f (KAtIndex (e_own e)) "CloseRemainderTo" ->
       type_leaves_ok f KSelf "Pay" 1 0 0 ->
       type_leaves_ok f (KAtIndex (e_own e)) "Pay" 1 0 0 ->
       ExecLemmas.int_leaves_ok f true ->
       ExecLemmas.int_leaves_ok f false ->
       run_all f fuel = Done res ->
       Accepts e sem f cfgs ->
       PathCut.nonrecursive f cfgs ->
       kind_fields e (e_own e) 1 0 0 ->
       e_field e (e_own e) "CloseRemainderTo" = VAddr a ->
       a <> "ZERO" ->
       LeafLemmas.is_marker a = false ->
       NoMiss.fresh_in res "CloseRemainderTo" (SingleLemmas.abs_name e a) ->
       run_detector f res fuel' "can-close-account" checks_can_close_account = Done ps -> ps <> nil.
Proof. exact @C01_closeto_no_miss_partial. Qed.

(* END TO END, can-close-asset *)
Theorem C01_can_close_asset_no_miss_partial :
  forall (e : env) (sem : opsem) (f : func) (fuel fuel' : nat) (res : fn_result) (cfgs : list rconfig) (ps : list (list nat)) (a : string),
       sem_ok e sem ->
       env_ok e ->
       fn_intcs f = e_intcs e ->
       ExecLemmas.graph_ok f ->
       ExecLemmas.addr_leaves_ok e f KSelf "AssetCloseTo" ->
       ExecLemmas.addr_leaves_ok e f (KAtIndex (e_own e)) "AssetCloseTo" ->
       type_leaves_ok f KSelf "Axfer" 4 0 0 ->
       type_leaves_ok f (KAtIndex (e_own e)) "Axfer" 4 0 0 ->
       ExecLemmas.int_leaves_ok f true ->
       ExecLemmas.int_leaves_ok f false ->
       run_all f fuel = Done res ->
       Accepts e sem f cfgs ->
       PathCut.nonrecursive f cfgs ->
       kind_fields e (e_own e) 4 0 0 ->
       e_field e (e_own e) "AssetCloseTo" = VAddr a ->
       a <> "ZERO" ->
       LeafLemmas.is_marker a = false ->
       NoMiss.fresh_in res "AssetCloseTo" (SingleLemmas.abs_name e a) ->
       run_detector f res fuel' "can-close-asset" checks_can_close_asset = Done ps -> ps <> nil.
Proof. exact @C01_assetcloseto_no_miss_partial. Qed.

(* END TO END, is-updatable *)
Theorem C01_is_updatable_no_miss_partial :
  forall (e : env) (sem : opsem) (f : func) (fuel fuel' : nat) (res : fn_result) (cfgs : list rconfig) (ps : list (list nat)) (ap : N),
       sem_ok e sem ->
       env_ok e ->
       fn_intcs f = e_intcs e ->
       ExecLemmas.graph_ok f ->
       type_leaves_ok f KSelf "ApplUpdateApplication" 6 4 ap ->
       type_leaves_ok f (KAtIndex (e_own e)) "ApplUpdateApplication" 6 4 ap ->
       ExecLemmas.int_leaves_ok f true ->
       ExecLemmas.int_leaves_ok f false ->
       run_all f fuel = Done res ->
       Accepts e sem f cfgs ->
       PathCut.nonrecursive f cfgs ->
       kind_fields e (e_own e) 6 4 ap -> run_detector f res fuel' "is-updatable" checks_is_updatable = Done ps -> ps <> nil.
Proof. exact @C01_updatable_no_miss_partial. Qed.

(* END TO END, is-deletable *)
Theorem C01_is_deletable_no_miss_partial :
  forall (e : env) (sem : opsem) (f : func) (fuel fuel' : nat) (res : fn_result) (cfgs : list rconfig) (ps : list (list nat)) (ap : N),
       sem_ok e sem ->
       env_ok e ->
       fn_intcs f = e_intcs e ->
       ExecLemmas.graph_ok f ->
       type_leaves_ok f KSelf "ApplDeleteApplication" 6 5 ap ->
       type_leaves_ok f (KAtIndex (e_own e)) "ApplDeleteApplication" 6 5 ap ->
       ExecLemmas.int_leaves_ok f true ->
       ExecLemmas.int_leaves_ok f false ->
       run_all f fuel = Done res ->
       Accepts e sem f cfgs ->
       PathCut.nonrecursive f cfgs ->
       kind_fields e (e_own e) 6 5 ap -> run_detector f res fuel' "is-deletable" checks_is_deletable = Done ps -> ps <> nil.
Proof. exact @C01_deletable_no_miss_partial. Qed.

(* END TO END, unprotected-updatable *)
Theorem C01_unprotected_updatable_no_miss_partial :
  forall (e : env) (sem : opsem) (f : func) (fuel fuel' : nat) (res : fn_result) (cfgs : list rconfig) (ps : list (list nat)) 
         (ap : N) (a : string),
       sem_ok e sem ->
       env_ok e ->
       fn_intcs f = e_intcs e ->
       ExecLemmas.graph_ok f ->
       type_leaves_ok f KSelf "ApplUpdateApplication" 6 4 ap ->
       type_leaves_ok f (KAtIndex (e_own e)) "ApplUpdateApplication" 6 4 ap ->
       ExecLemmas.addr_leaves_ok e f KSelf "Sender" ->
       ExecLemmas.addr_leaves_ok e f (KAtIndex (e_own e)) "Sender" ->
       ExecLemmas.int_leaves_ok f true ->
       ExecLemmas.int_leaves_ok f false ->
       run_all f fuel = Done res ->
       Accepts e sem f cfgs ->
       PathCut.nonrecursive f cfgs ->
       kind_fields e (e_own e) 6 4 ap ->
       e_field e (e_own e) "Sender" = VAddr a ->
       a <> "ZERO" ->
       LeafLemmas.is_marker a = false ->
       NoMiss.fresh_in res "Sender" (SingleLemmas.abs_name e a) ->
       run_detector f res fuel' "unprotected-updatable" checks_unprotected_updatable = Done ps -> ps <> nil.
Proof. exact @C01_unprotected_updatable_no_miss_partial. Qed.

(* END TO END, unprotected-deletable *)
Theorem C01_unprotected_deletable_no_miss_partial :
  forall (e : env) (sem : opsem) (f : func) (fuel fuel' : nat) (res : fn_result) (cfgs : list rconfig) (ps : list (list nat)) 
         (ap : N) (a : string),
       sem_ok e sem ->
       env_ok e ->
       fn_intcs f = e_intcs e ->
       ExecLemmas.graph_ok f ->
       type_leaves_ok f KSelf "ApplDeleteApplication" 6 5 ap ->
       type_leaves_ok f (KAtIndex (e_own e)) "ApplDeleteApplication" 6 5 ap ->
       ExecLemmas.addr_leaves_ok e f KSelf "Sender" ->
       ExecLemmas.addr_leaves_ok e f (KAtIndex (e_own e)) "Sender" ->
       ExecLemmas.int_leaves_ok f true ->
       ExecLemmas.int_leaves_ok f false ->
       run_all f fuel = Done res ->
       Accepts e sem f cfgs ->
       PathCut.nonrecursive f cfgs ->
       kind_fields e (e_own e) 6 5 ap ->
       e_field e (e_own e) "Sender" = VAddr a ->
       a <> "ZERO" ->
       LeafLemmas.is_marker a = false ->
       NoMiss.fresh_in res "Sender" (SingleLemmas.abs_name e a) ->
       run_detector f res fuel' "unprotected-deletable" checks_unprotected_deletable = Done ps -> ps <> nil.
Proof. exact @C01_unprotected_deletable_no_miss_partial. Qed.

(* END TO END, group-size-check: group of size 16, an absolute-index read on a part of the run that is not cut away as a loop (D21) *)
Theorem C01_group_size_check_no_miss_partial :
  forall (e : env) (sem : opsem) (f : func) (fuel fuel' : nat) (res : fn_result) (cfgs : list rconfig) (ps : list (list nat)),
       sem_ok e sem ->
       env_ok e ->
       fn_intcs f = e_intcs e ->
       ExecLemmas.graph_ok f ->
       ExecLemmas.int_leaves_ok f true ->
       ExecLemmas.int_leaves_ok f false ->
       run_all f fuel = Done res ->
       Accepts e sem f cfgs ->
       PathCut.nonrecursive f cfgs ->
       e_size e = MAX_GROUP_SIZE -> uncut_access f cfgs -> run_detector f res fuel' "group-size-check" checks_group_size_check = Done ps -> ps <> nil.
Proof. exact @C01_groupsize_no_miss_partial. Qed.

Print Assumptions C01_can_close_account_no_miss_partial.
Print Assumptions C01_can_close_asset_no_miss_partial.
Print Assumptions C01_is_updatable_no_miss_partial.
Print Assumptions C01_is_deletable_no_miss_partial.
Print Assumptions C01_unprotected_updatable_no_miss_partial.
Print Assumptions C01_unprotected_deletable_no_miss_partial.
Print Assumptions C01_group_size_check_no_miss_partial.

(* ------------------------------------------------------------------------------------------------------------
   Extension (second round): the executions the theorems speak about are derived from a CFG-FREE, instruction-level
   concrete semantics (Spec/InsSem.v: program counter, return stack, data stack; data-determined bz/bnz), not defined on
   tealer's blocks: Lemmas/InsSemLemmas.v *)
From Coq Require Import List String NArith ZArith Bool Arith.
From Tealer Require Import Tables Leaves LeafPrelude Syntax Parse Cfg StackAst Keys Analysis Domains Detect Runs Eval Exec InsExec InsSem WalkLemmas ExecLemmas GraphWf NoMiss InsSemLemmas.

(* the block-level approving executions (Spec/Exec.Accepts) used in every end-to-end theorem are EXACTLY the abstractions of instruction-level approving executions: nothing about the graph is assumed in what "execution" means *)
Theorem C01_executions_are_instruction_level :
  forall (e : env) (sem : opsem) (p : prog) (t : teal) (cfgs : list rconfig),
       parse_teal p = Ok t ->
       Accepts e sem (whole_function t) cfgs <-> (exists tr : list dconfig, IAccepts e sem p tr /\ abs_trace t (ctl_trace tr) = cfgs).
Proof. exact @accepts_iff_iaccepts. Qed.

(* END TO END at instruction level, missing-fee-check: a pc-level approving execution of a structured parsed program with Fee > 272000 => a path is reported *)
Theorem C01_fee_no_miss_instruction_level :
  forall (e : env) (sem : opsem) (p : prog) (t : teal) (fuel fuel' : nat) (res0 : fn_result) (tr : list dconfig) (ps : list (list nat))
         (fee : Z),
       parse_teal p = Ok t ->
       struct_okb t = true ->
       sem_ok e sem ->
       env_ok e ->
       t_intcs t = e_intcs e ->
       fee_leaves_ok (whole_function t) KSelf ->
       fee_leaves_ok (whole_function t) (KAtIndex (e_own e)) ->
       int_leaves_ok (whole_function t) true ->
       int_leaves_ok (whole_function t) false ->
       run_all (whole_function t) fuel = Done res0 ->
       IAccepts e sem p tr ->
       inonrecursive p tr ->
       e_field e (e_own e) "Fee" = VInt fee ->
       (MAX_TRANSACTION_COSTz < fee <= MAX_UINT64z)%Z ->
       run_detector (whole_function t) res0 fuel' "missing-fee-check" checks_missing_fee_check = Done ps -> ps <> nil.
Proof. exact @C01_fee_no_miss_ins_pc. Qed.

Print Assumptions C01_executions_are_instruction_level.
Print Assumptions C01_fee_no_miss_instruction_level.

(* ------------------------------------------------------------------------------------------------------------
   Extension (detector bodies regenerated: Lemmas/DetectorsGenLemmas.v about Gen/DetectorsGen.v, the translation of the detect methods of the nine detectors in tealer/detectors) *)
From Coq Require Import String List NArith ZArith Bool Arith.
From Tealer Require Import Tables LeafPrelude Leaves Syntax Parse Cfg StackAst Keys KeysGen StackGen Analysis Domains Detect Driver DetectorsGen SearchGen StackLemmas StackGenLemmas SolverLemmas SearchGenLemmas TotalSolver Runs Paths Eval Exec LeafLemmas SingleLemmas SearchLemmas PathCut Compose ExecLemmas NoMiss DetectorsGenLemmas.

(* the nine regenerated checks_field closures are the predicates of the model table, name by name, on every context *)
Theorem C01_detectors_gen_eq :
      Forall2
         (fun (g : string * (bctx -> option bool)) (m : string * (bctx -> bool)) =>
          fst g = fst m /\ (forall c : bctx, snd g c = Some (snd m c))) detectors_genE detectors.
Proof. exact @detectors_genE_eq. Qed.

(* NAME strings *)
Theorem C01_detector_names_gen_eq :
      rekey_to_NAME
       :: can_close_account_NAME
          :: can_close_asset_NAME
             :: missing_fee_check_NAME
                :: is_updatable_NAME
                   :: is_deletable_NAME
                      :: unprotected_updatable_NAME
                         :: unprotected_deletable_NAME :: group_size_check_NAME :: nil = 
       map fst detectors.
Proof. exact @detector_names_gen_eq. Qed.

(* the closures never raise *)
Theorem C01_checks_field_gen_total :
      forall (n : string) (g : bctx -> py bool), In (n, g) detectors_genE -> forall c : bctx, g c <> None.
Proof. exact @checks_field_genE_total. Qed.

(* the model table is a permutation of the registration order of all_detectors.py *)
Theorem C01_registration_is_permutation :
      same_elements (map fst detectors) all_detectors_import_order_gen = true /\
       same_elements (map fst detectors) all_detectors_dir_order_gen = true /\ NoDup (map fst detectors).
Proof. exact @registration_is_permutation. Qed.

(* each regenerated detect body calls the path driver with its own closure and report condition *)
Theorem C01_detect_gen_paths_mode :
      forall (Contract GOut : Type) (t : tealer_obj Contract GOut) (n : string)
         (d : tealer_obj Contract GOut -> py (list (Output Contract GOut))),
       In (n, d) detector_calls_gen ->
       tealer_output_group t = false \/ n = "group-size-check" ->
       exists checks : bctx -> py bool,
         In (n, checks) detectors_genE /\ d t = paths_mode t n checks (report_of n).
Proof. exact @detect_gen_paths_mode. Qed.

(* on one function the regenerated detect body returns what run_detector of the model returns *)
Theorem C01_detect_gen_single_function :
      forall (f : func) (r : fn_result) (fuel : nat) (n : string)
         (d : tealer_obj unit unit -> py (list (Output unit unit))) (m : bctx -> bool),
       defined_okb f = true ->
       (forall b : block, In b (fn_blocks f) -> NoDup (b_ins b)) ->
       In (n, d) detector_calls_gen ->
       In (n, m) detectors ->
       d (single_function_tealer f r fuel) =
       option_map (fun ps : list (list nat) => ExecutionPaths tt n ps :: nil)
         (lift nil (run_detector f r fuel n m)).
Proof. exact @detect_gen_single_function_defined. Qed.

(* run_detector with the regenerated predicate *)
Theorem C01_run_detector_generated_predicate :
      forall (f : func) (r : fn_result) (fuel : nat) (n : string) (g m : bctx -> bool),
       In (n, g) detectors_gen ->
       In (n, m) detectors -> run_detector f r fuel n g = run_detector f r fuel n m.
Proof. exact @run_detector_generated_predicate. Qed.

(* no approvable dangerous transaction is missed, stated with the regenerated predicates *)
Theorem C01_no_miss_generated :
      forall (e : env) (sem : opsem) (f : func) (fuel fuel' : nat) (res : fn_result) 
         (cfgs : list rconfig) (name : string) (g m : bctx -> bool) (ps : list (list nat)),
       In (name, g) detectors_gen ->
       In (name, m) detectors ->
       name <> "group-size-check" ->
       sem_ok e sem ->
       env_ok e ->
       fn_intcs f = e_intcs e ->
       graph_ok f ->
       int_leaves_ok f true ->
       int_leaves_ok f false ->
       run_all f fuel = Done res ->
       Accepts e sem f cfgs ->
       nonrecursive f cfgs ->
       (forall (b : nat) (st : list nat), In (b, st) cfgs -> m (ctx_of res b KSelf) = false) ->
       (forall (b : nat) (st : list nat), In (b, st) cfgs -> m (ctx_of res b (KAtIndex (e_own e))) = false) ->
       run_detector f res fuel' name g = Done ps -> ps <> nil.
Proof. exact @no_miss_generic_generated. Qed.

(* end to end for the fee detector through its regenerated detect body *)
Theorem C01_fee_no_miss_detect_gen :
      forall (e : env) (sem : opsem) (f : func) (fuel fuel' : nat) (res : fn_result) 
         (cfgs : list rconfig) (out : list (Output unit unit)) (fee : Z),
       defined_okb f = true ->
       sem_ok e sem ->
       env_ok e ->
       fn_intcs f = e_intcs e ->
       graph_ok f ->
       fee_leaves_ok f KSelf ->
       fee_leaves_ok f (KAtIndex (e_own e)) ->
       int_leaves_ok f true ->
       int_leaves_ok f false ->
       run_all f fuel = Done res ->
       Accepts e sem f cfgs ->
       nonrecursive f cfgs ->
       e_field e (e_own e) "Fee" = VInt fee ->
       (MAX_TRANSACTION_COSTz < fee <= MAX_UINT64z)%Z ->
       missing_fee_check_detect_gen (single_function_tealer f res fuel') = Some out ->
       exists ps : list (list nat), out = ExecutionPaths tt "missing-fee-check" ps :: nil /\ ps <> nil.
Proof. exact @C01_fee_no_miss_detect_gen. Qed.

Print Assumptions C01_detectors_gen_eq.
Print Assumptions C01_detector_names_gen_eq.
Print Assumptions C01_checks_field_gen_total.
Print Assumptions C01_registration_is_permutation.
Print Assumptions C01_detect_gen_paths_mode.
Print Assumptions C01_detect_gen_single_function.
Print Assumptions C01_run_detector_generated_predicate.
Print Assumptions C01_no_miss_generated.
Print Assumptions C01_fee_no_miss_detect_gen.
