(* C12  A function cut out by a dispatch path has exactly that path's executions.  Property theorems only. *)
From Coq Require Import List String.
From Tealer Require Import Syntax Parse Cfg StackAst Analysis Detect Group GraphWf GroupLemmas.
Import ListNotations.
Open Scope list_scope.

(* with path [B0] the function IS the whole contract's function: same blocks, instruction text, line numbers,
   edges, shared subroutines (record equality), no err blocks -- for structured programs *)
Theorem C12_identity_path : forall p t, parse_teal p = Ok t -> struct_ok t ->
  construct_function t [0] = Ok (whole_function t, []).
Proof. exact construct_function_identity_struct_ok. Qed.
(* the hypothesis is needed: a subroutine jumping into main code changes predecessor lists *)
Theorem C12_identity_path_needs_structure : exists p t, parse_teal p = Ok t /\ construct_function t [0] <> Ok (whole_function t, []).
Proof. exact construct_function_identity_refuted. Qed.

(* a dispatch path is accepted iff it starts at B0, follows successor edges and repeats no block *)
Theorem C12_valid_paths : forall t path r, walk_path t path [0] [] = Ok r ->
  r = path /\ NoDup path /\ chain t [0] path /\ (forall b rest, path = b :: rest -> b = 0).
Proof. exact dispatch_path_spec. Qed.

(* for longer paths every departure from the path before its last block leads to an err block: a block
   whose single instruction is the custom err instruction, without successors, rejecting in every analysis *)
Theorem C12_departures_rejected : forall p t, parse_teal p = Ok t ->
  forall path f errs, construct_function t path = Ok (f, errs) ->
  forall pre a b post ab, path = pre ++ a :: b :: post -> tblock t a = Some ab ->
  exists ab' e0, fblock f a = Some ab' /\ b_ins ab' = b_ins ab /\ b_next ab' = cut_next (b_next ab) b e0 /\
    max_idx (t_blocks t) < e0 /\
    (forall e, In e (b_next ab') ->
       (e = b /\ In b (b_next ab)) \/
       (max_idx (t_blocks t) < e /\ exists pos,
          fblock f e = Some (mkBlock e [pos] [] [a]) /\ op_at (fn_prog f) pos = Some ICustomErr /\
          forall T univ null union inter single,
            block_constraint T univ null union inter single f (mkBlock e [pos] [] [a]) = Some null)).
Proof. exact construct_function_cut_spec. Qed.

Print Assumptions C12_identity_path.
Print Assumptions C12_valid_paths.
Print Assumptions C12_departures_rejected.

(* ------------------------------------------------------------------------------------------------------------
   Extension (second round): the semantic half (Lemmas/CutExec.v, CutExecEx.v, CutGraphOk.v) *)
From Coq Require Import List String NArith ZArith Bool Arith.
From Tealer Require Import Tables Leaves LeafPrelude Syntax Parse Cfg StackAst Keys Analysis Domains Detect Group Runs Eval Exec GraphWf ExecLemmas GroupLemmas CutExec CutExecEx CutGraphOk.

(* THE SEMANTIC CLAUSE: the approving executions of the cut function are exactly the approving executions of the contract that FOLLOW the dispatch path (every departure from a path block before the last -- by an edge, or by returning from a call made there -- goes to the next path block) *)
Theorem C12_executions_exact :
  forall (p : prog) (t : teal) (path : list nat) (f' : func) (errs : list (nat * (nat * nat))),
       parse_teal p = Ok t ->
       construct_function t path = Ok (f', errs) ->
       forall (e : env) (sem : opsem) (cfgs : list rconfig),
       Accepts e sem f' cfgs <-> Accepts e sem (whole_function t) cfgs /\ follows path cfgs.
Proof. exact @cutfun_accepts_iff. Qed.

(* in terms of block sequences: an approving execution of the contract that starts with the path and does not re-enter its earlier blocks is an execution of the cut function *)
Theorem C12_executions_complete_prefix :
  forall (p : prog) (t : teal) (path : list nat) (f' : func) (errs : list (nat * (nat * nat))),
       parse_teal p = Ok t ->
       construct_function t path = Ok (f', errs) ->
       forall (e : env) (sem : opsem) (cfgs : list rconfig),
       path_plain t path -> Accepts e sem (whole_function t) cfgs -> starts_with_path path cfgs -> Accepts e sem f' cfgs.
Proof. exact @cutfun_accepts_complete_prefix. Qed.

(* ... and every approving execution of the cut function (at least as long as the path) is one of the contract and starts with the path *)
Theorem C12_executions_sound_prefix :
  forall (p : prog) (t : teal) (path : list nat) (f' : func) (errs : list (nat * (nat * nat))),
       parse_teal p = Ok t ->
       construct_function t path = Ok (f', errs) ->
       forall (e : env) (sem : opsem) (cfgs : list rconfig),
       path_plain t path ->
       Accepts e sem f' cfgs ->
       Datatypes.length path <= Datatypes.length cfgs ->
       Accepts e sem (whole_function t) cfgs /\ map fst (firstn (Datatypes.length path) cfgs) = path.
Proof. exact @cutfun_accepts_sound_prefix_long. Qed.

(* an error block ends every run that reaches it *)
Theorem C12_err_blocks_stop_every_run :
  forall (p : prog) (t : teal) (path : list nat) (f' : func) (errs : list (nat * (nat * nat))),
       parse_teal p = Ok t ->
       construct_function t path = Ok (f', errs) ->
       forall (cfgs pre : list rconfig) (c : rconfig) (post : list rconfig),
       Run f' cfgs -> cfgs = pre ++ c :: post -> max_idx (t_blocks t) < fst c -> post = nil.
Proof. exact @cutfun_run_err_last. Qed.

(* ... and never executes successfully *)
Theorem C12_err_blocks_never_execute :
  forall (p : prog) (t : teal) (path : list nat) (f' : func) (errs : list (nat * (nat * nat))),
       parse_teal p = Ok t ->
       construct_function t path = Ok (f', errs) ->
       forall (e : env) (sem : opsem) (x : nat) (blk : block) (cs : list cval) (tr : StackLemmas.trace cval) (cs' : list cval),
       fblock f' x = Some blk -> max_idx (t_blocks t) < x -> ~ bexec e sem (fn_prog f') blk cs tr cs'.
Proof. exact @cutfun_err_fails. Qed.

(* the cut function satisfies every graph fact the dataflow theorems need, so C06-C10 apply to it *)
Theorem C12_cut_function_graph_ok :
  forall (p : prog) (t : teal) (path : list nat) (f' : func) (errs : list (nat * (nat * nat))),
       parse_teal p = Ok t -> struct_ok t -> construct_function t path = Ok (f', errs) -> graph_ok f'.
Proof. exact @cutfun_graph_ok. Qed.

(* C09/C10 instance "with respect to exactly those executions": the fee of every approving execution OF THE CONTRACT that starts with the path is within the bound the cut function reports for each block on it *)
Theorem C12_fee_contexts_wrt_path_executions :
  forall (p : prog) (t : teal) (path : list nat) (f' : func) (errs : list (nat * (nat * nat))) (e : env) (sem : opsem) 
         (fam : keyfam) (tx : N) (fee : Z) (bc : list (nat * feeval)) (fuel : nat) (lo : list (nat * feeval)) (cfgs : list rconfig),
       parse_teal p = Ok t ->
       struct_ok t ->
       construct_function t path = Ok (f', errs) ->
       sem_ok e sem ->
       env_ok e ->
       fn_intcs (whole_function t) = e_intcs e ->
       key_txn e fam = Some tx ->
       e_field e tx "Fee" = VInt fee ->
       (0 <= fee <= MAX_UINT64z)%Z ->
       fee_leaves_ok (whole_function t) fam ->
       init_constraints feeval fee_universal_set fee_null_set fee_union fee_intersection (fee_single (fn_intcs f') fam) f' = Some bc ->
       solve feeval feeval_eqb fee_universal_set fee_null_set fee_union fee_intersection (fee_single (fn_intcs f') fam) f' fuel bc = Done lo ->
       path_plain t path ->
       Accepts e sem (whole_function t) cfgs ->
       starts_with_path path cfgs ->
       forall (b : nat) (st : list nat), In (b, st) cfgs -> exists v : feeval, lookup feeval lo b = Some v /\ LeafLemmas.fee_gamma v fee.
Proof. exact @cutfun_fee_context_sound_prefix. Qed.

(* C06 instance *)
Theorem C12_size_index_contexts_wrt_path_executions :
  forall (p : prog) (t : teal) (path : list nat) (f' : func) (errs : list (nat * (nat * nat))) (e : env) (sem : opsem) 
         (sz : bool) (fuel : nat) (lo : list (nat * list Z)) (cfgs : list rconfig),
       parse_teal p = Ok t ->
       struct_ok t ->
       construct_function t path = Ok (f', errs) ->
       sem_ok e sem ->
       env_ok e ->
       fn_intcs (whole_function t) = e_intcs e ->
       int_leaves_ok (whole_function t) sz ->
       run_int f' fuel sz = Done lo ->
       Accepts e sem (whole_function t) cfgs ->
       follows path cfgs ->
       forall (b : nat) (st : list nat), In (b, st) cfgs -> exists v : list Z, lookup (list Z) lo b = Some v /\ In (SingleLemmas.int_value sz e) v.
Proof. exact @cutfun_int_context_sound_struct. Qed.

(* subroutine blocks of the cut function are the contract's own *)
Theorem C12_subroutine_blocks_shared :
  forall (p : prog) (t : teal) (path : list nat) (f' : func) (errs : list (nat * (nat * nat))),
       parse_teal p = Ok t ->
       construct_function t path = Ok (f', errs) ->
       forall (s : subroutine) (n : nat), In s (fn_subs f') -> In n (s_blocks s) -> ~ In n (fn_main f') -> fblock f' n = fblock (whole_function t) n.
Proof. exact @cutfun_sub_blocks_shared. Qed.

(* the cut function's program is the contract's plus appended custom err instructions *)
Theorem C12_program_text :
  forall (p : prog) (t : teal) (path : list nat) (f' : func) (errs : list (nat * (nat * nat))),
       parse_teal p = Ok t -> construct_function t path = Ok (f', errs) -> exists m : nat, fn_prog f' = fn_prog (whole_function t) ++ repeat ERRI m.
Proof. exact @cutfun_prog. Qed.

(* REFUTED (finding D27): "every execution that starts with the path" is too strong -- an approving execution that loops back into an earlier path block and leaves it differently is not an execution of the cut function *)
Theorem C12_loop_reentry_refuted :
  exists (p : prog) (t : teal) (path : list nat) (f' : func) (errs : list (nat * (nat * nat))) (e : env) (sem : opsem) 
       (cfgs : list rconfig),
         parse_teal p = Ok t /\
         construct_function t path = Ok (f', errs) /\
         path_plain t path /\
         sem_ok e sem /\ Accepts e sem (whole_function t) cfgs /\ map fst (firstn (Datatypes.length path) cfgs) = path /\ ~ Run f' cfgs.
Proof. exact @cut_complete_naive_refuted. Qed.

Print Assumptions C12_executions_exact.
Print Assumptions C12_executions_complete_prefix.
Print Assumptions C12_executions_sound_prefix.
Print Assumptions C12_err_blocks_stop_every_run.
Print Assumptions C12_err_blocks_never_execute.
Print Assumptions C12_cut_function_graph_ok.
Print Assumptions C12_fee_contexts_wrt_path_executions.
Print Assumptions C12_size_index_contexts_wrt_path_executions.
Print Assumptions C12_subroutine_blocks_shared.
Print Assumptions C12_program_text.
Print Assumptions C12_loop_reentry_refuted.
