(* C12  A function cut out by a dispatch path has exactly that path's executions.  Property theorems only. *)
From Coq Require Import List String.
From Tealer Require Import Syntax Parse Cfg StackAst Analysis Detect Group GraphWf GroupLemmas.
Import ListNotations.
Open Scope list_scope.

(* with path [B0] the function IS the whole contract's function: same blocks, instruction text, line numbers,
   edges, shared subroutines (record equality), no err blocks -- for structured programs *)
Theorem C12_identity_path : forall p t, parse_teal p = Ok t -> struct_ok t ->
  construct_function t [0] = Ok (whole_function t, []).
Proof. exact construct_function_identity_struct_ok. Qed.
(* the hypothesis is needed: a subroutine jumping into main code changes predecessor lists *)
Theorem C12_identity_path_needs_structure : exists p t, parse_teal p = Ok t /\ construct_function t [0] <> Ok (whole_function t, []).
Proof. exact construct_function_identity_refuted. Qed.

(* a dispatch path is accepted iff it starts at B0, follows successor edges and repeats no block *)
Theorem C12_valid_paths : forall t path r, walk_path t path [0] [] = Ok r ->
  r = path /\ NoDup path /\ chain t [0] path /\ (forall b rest, path = b :: rest -> b = 0).
Proof. exact dispatch_path_spec. Qed.

(* for longer paths every departure from the path before its last block leads to an err block: a block
   whose single instruction is the custom err instruction, without successors, rejecting in every analysis *)
Theorem C12_departures_rejected : forall p t, parse_teal p = Ok t ->
  forall path f errs, construct_function t path = Ok (f, errs) ->
  forall pre a b post ab, path = pre ++ a :: b :: post -> tblock t a = Some ab ->
  exists ab' e0, fblock f a = Some ab' /\ b_ins ab' = b_ins ab /\ b_next ab' = cut_next (b_next ab) b e0 /\
    max_idx (t_blocks t) < e0 /\
    (forall e, In e (b_next ab') ->
       (e = b /\ In b (b_next ab)) \/
       (max_idx (t_blocks t) < e /\ exists pos,
          fblock f e = Some (mkBlock e [pos] [] [a]) /\ op_at (fn_prog f) pos = Some ICustomErr /\
          forall T univ null union inter single,
            block_constraint T univ null union inter single f (mkBlock e [pos] [] [a]) = Some null)).
Proof. exact construct_function_cut_spec. Qed.

Print Assumptions C12_identity_path.
Print Assumptions C12_valid_paths.
Print Assumptions C12_departures_rejected.

(* ------------------------------------------------------------------------------------------------------------
   Extension (second round): the semantic half (Lemmas/CutExec.v, CutExecEx.v, CutGraphOk.v) *)
From Coq Require Import List String NArith ZArith Bool Arith.
From Tealer Require Import Tables Leaves LeafPrelude Syntax Parse Cfg StackAst Keys Analysis Domains Detect Group Runs Eval Exec GraphWf ExecLemmas GroupLemmas CutExec CutExecEx CutGraphOk.

(* THE SEMANTIC CLAUSE: the approving executions of the cut function are exactly the approving executions of the contract that FOLLOW the dispatch path (every departure from a path block before the last -- by an edge, or by returning from a call made there -- goes to the next path block) *)
Theorem C12_executions_exact :
  forall (p : prog) (t : teal) (path : list nat) (f' : func) (errs : list (nat * (nat * nat))),
       parse_teal p = Ok t ->
       construct_function t path = Ok (f', errs) ->
       forall (e : env) (sem : opsem) (cfgs : list rconfig),
       Accepts e sem f' cfgs <-> Accepts e sem (whole_function t) cfgs /\ follows path cfgs.
Proof. exact @cutfun_accepts_iff. Qed.

(* in terms of block sequences: an approving execution of the contract that starts with the path and does not re-enter its earlier blocks is an execution of the cut function *)
Theorem C12_executions_complete_prefix :
  forall (p : prog) (t : teal) (path : list nat) (f' : func) (errs : list (nat * (nat * nat))),
       parse_teal p = Ok t ->
       construct_function t path = Ok (f', errs) ->
       forall (e : env) (sem : opsem) (cfgs : list rconfig),
       path_plain t path -> Accepts e sem (whole_function t) cfgs -> starts_with_path path cfgs -> Accepts e sem f' cfgs.
Proof. exact @cutfun_accepts_complete_prefix. Qed.

(* ... and every approving execution of the cut function (at least as long as the path) is one of the contract and starts with the path *)
Theorem C12_executions_sound_prefix :
  forall (p : prog) (t : teal) (path : list nat) (f' : func) (errs : list (nat * (nat * nat))),
       parse_teal p = Ok t ->
       construct_function t path = Ok (f', errs) ->
       forall (e : env) (sem : opsem) (cfgs : list rconfig),
       path_plain t path ->
       Accepts e sem f' cfgs ->
       Datatypes.length path <= Datatypes.length cfgs ->
       Accepts e sem (whole_function t) cfgs /\ map fst (firstn (Datatypes.length path) cfgs) = path.
Proof. exact @cutfun_accepts_sound_prefix_long. Qed.

(* an error block ends every run that reaches it *)
Theorem C12_err_blocks_stop_every_run :
  forall (p : prog) (t : teal) (path : list nat) (f' : func) (errs : list (nat * (nat * nat))),
       parse_teal p = Ok t ->
       construct_function t path = Ok (f', errs) ->
       forall (cfgs pre : list rconfig) (c : rconfig) (post : list rconfig),
       Run f' cfgs -> cfgs = pre ++ c :: post -> max_idx (t_blocks t) < fst c -> post = nil.
Proof. exact @cutfun_run_err_last. Qed.

(* ... and never executes successfully *)
Theorem C12_err_blocks_never_execute :
  forall (p : prog) (t : teal) (path : list nat) (f' : func) (errs : list (nat * (nat * nat))),
       parse_teal p = Ok t ->
       construct_function t path = Ok (f', errs) ->
       forall (e : env) (sem : opsem) (x : nat) (blk : block) (cs : list cval) (tr : StackLemmas.trace cval) (cs' : list cval),
       fblock f' x = Some blk -> max_idx (t_blocks t) < x -> ~ bexec e sem (fn_prog f') blk cs tr cs'.
Proof. exact @cutfun_err_fails. Qed.

(* the cut function satisfies every graph fact the dataflow theorems need, so C06-C10 apply to it *)
Theorem C12_cut_function_graph_ok :
  forall (p : prog) (t : teal) (path : list nat) (f' : func) (errs : list (nat * (nat * nat))),
       parse_teal p = Ok t -> struct_ok t -> construct_function t path = Ok (f', errs) -> graph_ok f'.
Proof. exact @cutfun_graph_ok. Qed.

(* C09/C10 instance "with respect to exactly those executions": the fee of every approving execution OF THE CONTRACT that starts with the path is within the bound the cut function reports for each block on it *)
Theorem C12_fee_contexts_wrt_path_executions :
  forall (p : prog) (t : teal) (path : list nat) (f' : func) (errs : list (nat * (nat * nat))) (e : env) (sem : opsem) 
         (fam : keyfam) (tx : N) (fee : Z) (bc : list (nat * feeval)) (fuel : nat) (lo : list (nat * feeval)) (cfgs : list rconfig),
       parse_teal p = Ok t ->
       struct_ok t ->
       construct_function t path = Ok (f', errs) ->
       sem_ok e sem ->
       env_ok e ->
       fn_intcs (whole_function t) = e_intcs e ->
       key_txn e fam = Some tx ->
       e_field e tx "Fee" = VInt fee ->
       (0 <= fee <= MAX_UINT64z)%Z ->
       fee_leaves_ok (whole_function t) fam ->
       init_constraints feeval fee_universal_set fee_null_set fee_union fee_intersection (fee_single (fn_intcs f') fam) f' = Some bc ->
       solve feeval feeval_eqb fee_universal_set fee_null_set fee_union fee_intersection (fee_single (fn_intcs f') fam) f' fuel bc = Done lo ->
       path_plain t path ->
       Accepts e sem (whole_function t) cfgs ->
       starts_with_path path cfgs ->
       forall (b : nat) (st : list nat), In (b, st) cfgs -> exists v : feeval, lookup feeval lo b = Some v /\ LeafLemmas.fee_gamma v fee.
Proof. exact @cutfun_fee_context_sound_prefix. Qed.

(* C06 instance *)
Theorem C12_size_index_contexts_wrt_path_executions :
  forall (p : prog) (t : teal) (path : list nat) (f' : func) (errs : list (nat * (nat * nat))) (e : env) (sem : opsem) 
         (sz : bool) (fuel : nat) (lo : list (nat * list Z)) (cfgs : list rconfig),
       parse_teal p = Ok t ->
       struct_ok t ->
       construct_function t path = Ok (f', errs) ->
       sem_ok e sem ->
       env_ok e ->
       fn_intcs (whole_function t) = e_intcs e ->
       int_leaves_ok (whole_function t) sz ->
       run_int f' fuel sz = Done lo ->
       Accepts e sem (whole_function t) cfgs ->
       follows path cfgs ->
       forall (b : nat) (st : list nat), In (b, st) cfgs -> exists v : list Z, lookup (list Z) lo b = Some v /\ In (SingleLemmas.int_value sz e) v.
Proof. exact @cutfun_int_context_sound_struct. Qed.

(* subroutine blocks of the cut function are the contract's own *)
Theorem C12_subroutine_blocks_shared :
  forall (p : prog) (t : teal) (path : list nat) (f' : func) (errs : list (nat * (nat * nat))),
       parse_teal p = Ok t ->
       construct_function t path = Ok (f', errs) ->
       forall (s : subroutine) (n : nat), In s (fn_subs f') -> In n (s_blocks s) -> ~ In n (fn_main f') -> fblock f' n = fblock (whole_function t) n.
Proof. exact @cutfun_sub_blocks_shared. Qed.

(* the cut function's program is the contract's plus appended custom err instructions *)
Theorem C12_program_text :
  forall (p : prog) (t : teal) (path : list nat) (f' : func) (errs : list (nat * (nat * nat))),
       parse_teal p = Ok t -> construct_function t path = Ok (f', errs) -> exists m : nat, fn_prog f' = fn_prog (whole_function t) ++ repeat ERRI m.
Proof. exact @cutfun_prog. Qed.

(* REFUTED (finding D27): "every execution that starts with the path" is too strong -- an approving execution that loops back into an earlier path block and leaves it differently is not an execution of the cut function *)
Theorem C12_loop_reentry_refuted :
  exists (p : prog) (t : teal) (path : list nat) (f' : func) (errs : list (nat * (nat * nat))) (e : env) (sem : opsem) 
       (cfgs : list rconfig),
         parse_teal p = Ok t /\
         construct_function t path = Ok (f', errs) /\
         path_plain t path /\
         sem_ok e sem /\ Accepts e sem (whole_function t) cfgs /\ map fst (firstn (Datatypes.length path) cfgs) = path /\ ~ Run f' cfgs.
Proof. exact @cut_complete_naive_refuted. Qed.

Print Assumptions C12_executions_exact.
Print Assumptions C12_executions_complete_prefix.
Print Assumptions C12_executions_sound_prefix.
Print Assumptions C12_err_blocks_stop_every_run.
Print Assumptions C12_err_blocks_never_execute.
Print Assumptions C12_cut_function_graph_ok.
Print Assumptions C12_fee_contexts_wrt_path_executions.
Print Assumptions C12_size_index_contexts_wrt_path_executions.
Print Assumptions C12_subroutine_blocks_shared.
Print Assumptions C12_program_text.
Print Assumptions C12_loop_reentry_refuted.

(* ------------------------------------------------------------------------------------------------------------
   Extension (function construction regenerated): theorems from Lemmas/FunctionGenLemmas.v about Gen/FunctionGen.v,
   the translation of parse_functions.py construct_function (dispatch-path walk, off-path cutting loop, main blocks,
   used-subroutine closure, Function record).  copy_main_cfg is fingerprinted, not translated. *)
From Coq Require Import String List NArith ZArith Bool Arith.
From Tealer Require Import Tables LeafPrelude Leaves Syntax Parse Cfg StackAst Keys Analysis Domains Detect Group KeysGen FunctionGen CfgLemmas SubLemmas GraphWf GroupLemmas CutExec CutExecEx CutGraphOk SubOrderEx FunctionGenLemmas.

(* the regenerated construct_function returns the function of the model, with the err-block id and line tables, for every parsed contract and accepted path *)
Theorem C12_function_gen_eq :
      forall (p : prog) (t : teal) (path : list nat) (fmn : string) (f : func)
         (errs : list (nat * (nat * nat))),
       parse_teal p = Ok t ->
       construct_function t path = Ok (f, errs) ->
       exists h : fheap,
         construct_function_gen (dfs_budget t path) (subs_budget t) t fmn path (function_blocks0 t) (heap0 t) =
         Some (Some (Ok (f, h))) /\
         fh_prog h = fn_prog f /\
         fh_next_id h = fs_next_id (cut_path (fn_state0 t) path) /\
         fh_idx h = map err_idx errs /\ fh_line h = map (err_line t) (enumerate errs).
Proof. exact @construct_function_gen_eq. Qed.

(* and rejects with the same exception *)
Theorem C12_function_gen_rejected :
      forall (p : prog) (t : teal) (path : list nat) (fmn e : string) (f1 f2 : nat),
       parse_teal p = Ok t ->
       construct_function t path = Err e ->
       path <> nil ->
       construct_function_gen f1 f2 t fmn path (function_blocks0 t) (heap0 t) = Some (Some (Err e)).
Proof. exact @construct_function_gen_rejected. Qed.

(* conversely, whatever the regenerated function returns is the model function *)
Theorem C12_function_gen_inv :
      forall (p : prog) (t : teal) (path : list nat) (fmn : string) (f : func) (h : fheap),
       parse_teal p = Ok t ->
       construct_function_gen (dfs_budget t path) (subs_budget t) t fmn path (function_blocks0 t) (heap0 t) =
       Some (Some (Ok (f, h))) ->
       exists errs : list (nat * (nat * nat)),
         construct_function t path = Ok (f, errs) /\ fh_idx h = map err_idx errs.
Proof. exact @construct_function_gen_inv. Qed.

(* dispatch-path walk of the source *)
Theorem C12_walk_gen_eq :
      forall (p : prog) (t : teal),
       parse_teal p = Ok t ->
       forall path : list nat,
       dispatch_walk_gen (function_blocks0 t) path (heap0 t) = Some (walk_path t path (0 :: nil) nil).
Proof. exact @dispatch_walk_gen_eq. Qed.

(* accepted paths are duplicate-free chains of the main graph starting at block 0 *)
Theorem C12_walk_gen_spec :
      forall (p : prog) (t : teal),
       parse_teal p = Ok t ->
       forall path r : list nat,
       dispatch_walk_gen (function_blocks0 t) path (heap0 t) = Some (Ok r) ->
       r = path /\
       NoDup path /\
       chain t (0 :: nil) path /\ (forall (b : nat) (rest : list nat), path = b :: rest -> b = 0).
Proof. exact @dispatch_walk_gen_spec. Qed.

(* cutting loop of the source *)
Theorem C12_cut_gen_eq :
      forall (p : prog) (t : teal),
       parse_teal p = Ok t ->
       forall path dpb : list nat,
       walk_path t path (0 :: nil) nil = Ok dpb ->
       cut_path_gen dpb (heap0 t) = Some (heap_of t (cut_path (fn_state0 t) dpb)).
Proof. exact @cut_path_gen_eq. Qed.

(* after the cutting loop every successor of a path block is the next path block or a fresh err block *)
Theorem C12_cut_gen_spec :
      forall (p : prog) (t : teal),
       parse_teal p = Ok t ->
       forall (path : list nat) (h : fheap) (pre : list nat) (a b : nat) (post : list nat) (ab : block),
       walk_path t path (0 :: nil) nil = Ok path ->
       cut_path_gen path (heap0 t) = Some h ->
       path = pre ++ a :: b :: post ->
       tblock t a = Some ab ->
       exists (ab' : block) (e0 : nat),
         get_blk (fh_blocks h) a = Some ab' /\
         b_ins ab' = b_ins ab /\
         b_next ab' = cut_next (b_next ab) b e0 /\
         S (max_idx (t_blocks t)) <= e0 /\
         (forall e : nat,
          In e (b_next ab') ->
          e = b /\ In b (b_next ab) \/
          S (max_idx (t_blocks t)) <= e /\
          (exists pos : nat,
             get_blk (fh_blocks h) e =
             Some {| b_idx := e; b_ins := pos :: nil; b_next := nil; b_prev := a :: nil |} /\
             op_at (fh_prog h) pos = Some ICustomErr)).
Proof. exact @cut_path_gen_spec. Qed.

(* used-subroutine closure of the source *)
Theorem C12_used_subs_gen_eq :
      forall (p : prog) (t : teal),
       parse_teal p = Ok t ->
       forall (heap : fheap) (fmb : list nat) (called : list string),
       called_subroutines_gen t heap fmb FunctionMain = Some (map TealSub called) ->
       NoDup called ->
       incl called (map s_name (t_subs t)) ->
       (forall fuel : nat,
        used_subroutines_gen (S fuel) t fmb heap = Some None \/
        used_subroutines_gen (S fuel) t fmb heap = Some (Some (map TealSub (used_subs fuel t called called)))) /\
       used_subroutines_gen (S (S (Datatypes.length (t_subs t)))) t fmb heap =
       Some (Some (map TealSub (used_subs (S (Datatypes.length (t_subs t))) t called called))).
Proof. exact @used_subroutines_gen_eq. Qed.

(* the function built by the regenerated code has a well-formed graph *)
Theorem C12_function_gen_graph_ok :
      forall (p : prog) (t : teal) (path : list nat) (fmn : string) (f : func) (h : fheap),
       parse_teal p = Ok t ->
       struct_ok t ->
       construct_function_gen (dfs_budget t path) (subs_budget t) t fmn path (function_blocks0 t) (heap0 t) =
       Some (Some (Ok (f, h))) -> ExecLemmas.graph_ok f.
Proof. exact @construct_function_gen_graph_ok. Qed.

(* and contains every run of the contract that follows the dispatch path *)
Theorem C12_function_gen_run_complete :
      forall (p : prog) (t : teal) (path : list nat) (fmn : string) (f : func) (h : fheap)
         (cfgs : list Runs.rconfig),
       parse_teal p = Ok t ->
       construct_function_gen (dfs_budget t path) (subs_budget t) t fmn path (function_blocks0 t) (heap0 t) =
       Some (Some (Ok (f, h))) -> Runs.Run (whole_function t) cfgs -> follows path cfgs -> Runs.Run f cfgs.
Proof. exact @construct_function_gen_run_complete. Qed.

Print Assumptions C12_function_gen_eq.
Print Assumptions C12_function_gen_rejected.
Print Assumptions C12_function_gen_inv.
Print Assumptions C12_walk_gen_eq.
Print Assumptions C12_walk_gen_spec.
Print Assumptions C12_cut_gen_eq.
Print Assumptions C12_cut_gen_spec.
Print Assumptions C12_used_subs_gen_eq.
Print Assumptions C12_function_gen_graph_ok.
Print Assumptions C12_function_gen_run_complete.

(* ------------------------------------------------------------------------------------------------------------
   Extension (copy_main_cfg regenerated): Lemmas/Copy*.v about Gen/CopyGen.v, the translation of parse_functions.py
   copy_main_cfg (re-parse of the source lines of the main blocks, block passes, transfer of ids, lines and callsub targets).
   This discharges the assumption Gen/FunctionGen.v makes about the initial function state on structured contracts;
   the refuted statement records the unstructured contracts (a subroutine jumping into a main block) where it fails. *)
From Coq Require Import String List NArith ZArith Bool Arith.
From Tealer Require Import CopyNext CopyGenLemmas.

(* re-parsing the instructions of any successor-closed set of blocks yields exactly those blocks *)
Theorem C12_sub_program_blocks :
      forall (p : Cfg.prog) (bs : list Cfg.block) 
         (M : list nat) (pc : Cfg.prog),
       Cfg.build_blocks p = Some bs ->
       CopyDefs.closed bs M ->
       CopyDefs.nonempty_sel bs M ->
       CopyDefs.copy_of p (CopyDefs.sel_pos bs M) pc ->
       Cfg.build_blocks pc = Some (CopyDefs.sel_blocks bs M).
Proof. exact @sub_program_blocks. Qed.

(* the regenerated copy_main_cfg returns the main blocks of the contract with predecessors restricted to main *)
Theorem C12_copy_main_cfg_gen_main :
      forall (p : Cfg.prog) (t : Cfg.teal) (attrs : CopyGen.ins_attrs),
       Cfg.parse_teal p = Parse.Ok t ->
       lines_increasing p ->
       attrs_ok p attrs ->
       CopyGen.copy_main_cfg_state t attrs =
       Some (FunctionGenLemmas.function_blocks0 t, CopyInstances.heap0m t).
Proof. exact @copy_main_cfg_state_main. Qed.

(* which is the initial function state of the model when no subroutine block precedes a main block *)
Theorem C12_copy_main_cfg_gen_eq :
      forall (p : Cfg.prog) (t : Cfg.teal) (attrs : CopyGen.ins_attrs),
       Cfg.parse_teal p = Parse.Ok t ->
       lines_increasing p ->
       attrs_ok p attrs ->
       main_prev_closed t ->
       CopyGen.copy_main_cfg_state t attrs =
       Some (FunctionGenLemmas.function_blocks0 t, FunctionGenLemmas.heap0 t).
Proof. exact @copy_main_cfg_state_eq. Qed.

(* in particular on structured contracts *)
Theorem C12_main_prev_closed_struct_ok :
      forall (p : Cfg.prog) (t : Cfg.teal),
       Cfg.parse_teal p = Parse.Ok t -> GraphWf.struct_ok t -> main_prev_closed t.
Proof. exact @main_prev_closed_struct_ok. Qed.

(* construct_function composed with the regenerated copy *)
Theorem C12_construct_function_from_copy_gen_eq :
      forall (p : Cfg.prog) (t : Cfg.teal) (attrs : CopyGen.ins_attrs) (path : list nat) 
         (fmn : string) (f : Analysis.func) (errs : list (nat * (nat * nat))),
       Cfg.parse_teal p = Parse.Ok t ->
       lines_increasing p ->
       attrs_ok p attrs ->
       main_prev_closed t ->
       Group.construct_function t path = Parse.Ok (f, errs) ->
       exists h : FunctionGen.fheap,
         CopyGen.construct_function_from_copy_gen (FunctionGenLemmas.dfs_budget t path)
           (FunctionGenLemmas.subs_budget t) t attrs fmn path = Some (Some (Parse.Ok (f, h))) /\
         FunctionGen.fh_prog h = Analysis.fn_prog f /\
         FunctionGen.fh_next_id h = Group.fs_next_id (Group.cut_path (GroupLemmas.fn_state0 t) path) /\
         FunctionGen.fh_idx h = map FunctionGenLemmas.err_idx errs /\
         FunctionGen.fh_line h = map (FunctionGenLemmas.err_line t) (FunctionGen.enumerate errs).
Proof. exact @construct_function_from_copy_gen_eq. Qed.

(* hypotheses discharged for a parsed source text *)
Theorem C12_copy_main_cfg_gen_source :
      forall (src : string) (p : Cfg.prog) (attrs : CopyGen.ins_attrs) (t : Cfg.teal),
       CopyGen.first_pass_lines (Cfg.splitlines src) 1 = Some p ->
       CopyInstances.attrs_of_lines (Cfg.splitlines src) nil = Some attrs ->
       Cfg.parse_teal p = Parse.Ok t ->
       CopyGen.copy_main_cfg_state t attrs =
       Some (FunctionGenLemmas.function_blocks0 t, CopyInstances.heap0m t) /\
       (main_prev_closed t ->
        CopyGen.copy_main_cfg_state t attrs =
        Some (FunctionGenLemmas.function_blocks0 t, FunctionGenLemmas.heap0 t)).
Proof. exact @copy_main_cfg_source. Qed.

(* a contract whose subroutine jumps into a main block: the copy drops the predecessor the model keeps *)
Theorem C12_copy_main_cfg_gen_refuted :
      exists (ls : list string) (p : Cfg.prog) (attrs : CopyGen.ins_attrs) (t : Cfg.teal),
         CopyGen.first_pass_lines ls 1 = Some p /\
         CopyInstances.attrs_of_lines ls nil = Some attrs /\
         Cfg.parse_teal p = Parse.Ok t /\
         CopyGen.copy_main_cfg_state t attrs <>
         Some (FunctionGenLemmas.function_blocks0 t, FunctionGenLemmas.heap0 t) /\ 
         ~ main_prev_closed t.
Proof. exact @copy_main_cfg_state_refuted. Qed.

Print Assumptions C12_sub_program_blocks.
Print Assumptions C12_copy_main_cfg_gen_main.
Print Assumptions C12_copy_main_cfg_gen_eq.
Print Assumptions C12_main_prev_closed_struct_ok.
Print Assumptions C12_construct_function_from_copy_gen_eq.
Print Assumptions C12_copy_main_cfg_gen_source.
Print Assumptions C12_copy_main_cfg_gen_refuted.
