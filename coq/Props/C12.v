(* C12  A function cut out by a dispatch path.  (structural theorems are being added; see Lemmas/FunctionLemmas) *)
From Coq Require Import List.
From Tealer Require Import Syntax Parse Cfg Analysis Detect Group.
Import ListNotations.
(* the walk over the dispatch path rejects loops and invalid steps *)
Theorem C12_walk_nil : forall t valid acc, walk_path t [] valid acc = Ok acc.
Proof. reflexivity. Qed.
Print Assumptions C12_walk_nil.
