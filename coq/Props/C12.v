(* C12  A function cut out by a dispatch path has exactly that path's executions.  Property theorems only. *)
From Coq Require Import List String.
From Tealer Require Import Syntax Parse Cfg StackAst Analysis Detect Group GraphWf GroupLemmas.
Import ListNotations.
Open Scope list_scope.

(* with path [B0] the function IS the whole contract's function: same blocks, instruction text, line numbers,
   edges, shared subroutines (record equality), no err blocks -- for structured programs *)
Theorem C12_identity_path : forall p t, parse_teal p = Ok t -> struct_ok t ->
  construct_function t [0] = Ok (whole_function t, []).
Proof. exact construct_function_identity_struct_ok. Qed.
(* the hypothesis is needed: a subroutine jumping into main code changes predecessor lists *)
Theorem C12_identity_path_needs_structure : exists p t, parse_teal p = Ok t /\ construct_function t [0] <> Ok (whole_function t, []).
Proof. exact construct_function_identity_refuted. Qed.

(* a dispatch path is accepted iff it starts at B0, follows successor edges and repeats no block *)
Theorem C12_valid_paths : forall t path r, walk_path t path [0] [] = Ok r ->
  r = path /\ NoDup path /\ chain t [0] path /\ (forall b rest, path = b :: rest -> b = 0).
Proof. exact dispatch_path_spec. Qed.

(* for longer paths every departure from the path before its last block leads to an err block: a block
   whose single instruction is the custom err instruction, without successors, rejecting in every analysis *)
Theorem C12_departures_rejected : forall p t, parse_teal p = Ok t ->
  forall path f errs, construct_function t path = Ok (f, errs) ->
  forall pre a b post ab, path = pre ++ a :: b :: post -> tblock t a = Some ab ->
  exists ab' e0, fblock f a = Some ab' /\ b_ins ab' = b_ins ab /\ b_next ab' = cut_next (b_next ab) b e0 /\
    max_idx (t_blocks t) < e0 /\
    (forall e, In e (b_next ab') ->
       (e = b /\ In b (b_next ab)) \/
       (max_idx (t_blocks t) < e /\ exists pos,
          fblock f e = Some (mkBlock e [pos] [] [a]) /\ op_at (fn_prog f) pos = Some ICustomErr /\
          forall T univ null union inter single,
            block_constraint T univ null union inter single f (mkBlock e [pos] [] [a]) = Some null)).
Proof. exact construct_function_cut_spec. Qed.

Print Assumptions C12_identity_path.
Print Assumptions C12_valid_paths.
Print Assumptions C12_departures_rejected.
