(* C07  Transaction-kind sets keep every approvable detector-relevant kind.  Property theorems only.
   Universes and enum maps are REGENERATED from tealer/utils/teal_enums.py on every run.
   The full statement is REFUTED on the unchanged tree (known finding D16, pinned by
   tests/transaction_context/test_transaction_types.py); what is proved is the statement with exactly the
   32 (pattern, side, label) triples of `dropped_table` excluded -- a new dropped label falsifies it. *)
From Coq Require Import List Bool String NArith.
From Tealer Require Import LeafPrelude Tables Leaves Syntax StackAst Keys Analysis Domains LeafLemmas TypeLemmas.
Import ListNotations.

(* the finite obligation table: which (comparison pattern, side, label) triples drop a label a concrete
   transaction passing that side still carries -- computed from the generated enums *)
Theorem C07_dropped_table_is : filter (fun x => negb (preserved3 x)) all_triples = dropped_table.
Proof. exact C07_dropped_table. Qed.

(* full statement refuted: TypeEnum == appl, true side, drops ApplUpdateApplication of the call (6,4,7) *)
Theorem C07_sound_refuted : exists pat side lab t o a,
  In (pat, side, lab) all_triples /\ in_range t o a /\ pattern_truth pat t o a = side /\ carries t o a lab = true
  /\ ~ In lab (side_set pat side).
Proof. exact C07_refuted. Qed.

(* every triple outside the table is preserved, for every concrete (TypeEnum, OnCompletion, ApplicationID) *)
Theorem C07_sound_partial : forall pat side lab, In (pat, side, lab) all_triples -> ~ In (pat, side, lab) dropped_table ->
  forall t o a, in_range t o a -> pattern_truth pat t o a = side -> carries t o a lab = true -> In lab (side_set pat side).
Proof. exact C07_preserved_partial. Qed.

(* the table entries are genuine: each has a concrete transaction witnessing the drop *)
Theorem C07_table_exact : forall pat side lab, In (pat, side, lab) dropped_table ->
  exists t o a, in_range t o a /\ pattern_truth pat t o a = side /\ carries t o a lab = true /\ ~ In lab (side_set pat side).
Proof. intros; eapply C07_dropped_exact; eauto. Qed.

(* several checks combined in a block (intersection of their sides): labels outside the table survive *)
Theorem C07_block_sound_partial : forall lab conds t o a,
  In lab c07_labels -> in_range t o a -> carries t o a lab = true ->
  Forall (fun ps : pattern * bool =>
            In (fst ps, snd ps, lab) all_triples /\ ~ In (fst ps, snd ps, lab) dropped_table /\
            pattern_truth (fst ps) t o a = snd ps) conds ->
  In lab (fold_left linter (map (fun ps : pattern * bool => side_set (fst ps) (snd ps)) conds) ALL_TRANSACTION_TYPES).
Proof. exact C07_block_preserved. Qed.

Print Assumptions C07_dropped_table_is.
Print Assumptions C07_sound_refuted.
Print Assumptions C07_sound_partial.
Print Assumptions C07_block_sound_partial.

(* ------------------------------------------------------------------------------------------------------------
   Extension (second round): theorems from Lemmas/{WalkLemmas,OutputLemmas,TypeExec,NoMiss2,ParseLemmas2,PaddingLemmas}.v *)
From Coq Require Import List String NArith ZArith Bool Arith.
From Tealer Require Import Tables Leaves LeafPrelude Syntax Parse Cfg StackAst Keys Analysis Domains Detect Group Output Runs Eval Exec InsExec Paths WalkLemmas OutputLemmas TypeExec NoMiss2 ParseLemmas2 PaddingLemmas.

(* END TO END: along every approving concrete execution the kind label of the governed transaction is in the set of every visited block, for programs whose kind comparisons avoid exactly the D16 triples on the side taken (type_leaves_ok) *)
Theorem C07_sound_end_to_end_partial :
  forall (e : env) (sem : opsem) (f : func) (L : string) (ty oc ap : N) (bc : list (nat * list string)) (fuel : nat)
         (lo : list (nat * list string)) (cfgs : list rconfig),
       sem_ok e sem ->
       env_ok e ->
       fn_intcs f = e_intcs e ->
       ExecLemmas.graph_ok f ->
       kind_fields e (e_own e) ty oc ap ->
       TypeLemmas.in_range ty oc ap ->
       In L TypeLemmas.c07_labels ->
       TypeLemmas.carries ty oc ap L = true ->
       type_leaves_ok f KSelf L ty oc ap ->
       init_constraints (list string) ALL_TRANSACTION_TYPES nil lunion linter (type_single (fn_intcs f) KSelf) f = Some bc ->
       solve (list string) lset_eqb ALL_TRANSACTION_TYPES nil lunion linter (type_single (fn_intcs f) KSelf) f fuel bc = Done lo ->
       Accepts e sem f cfgs ->
       forall (b : nat) (st : list nat), In (b, st) cfgs -> exists v : list string, lookup (list string) lo b = Some v /\ In L v.
Proof. exact @C07_exec_sound_partial. Qed.

(* the exclusion is exact: every excluded (pattern, side, label) triple really drops the label *)
Theorem C07_exclusion_is_exact :
  forall (intcs : option (list N)) (pat : TypeLemmas.pattern) (ty oc ap : N) (L : string) (p q pos : nat),
       In (pat, TypeLemmas.pattern_truth pat ty oc ap, L) TypeLemmas.dropped_table ->
       let tf := type_single intcs KSelf (TypeLemmas.pat_op pat false) pos (TypeLemmas.pat_args pat p q) in
       ~ In L (if TypeLemmas.pattern_truth pat ty oc ap then fst tf else snd tf).
Proof. exact @type_leaves_ok_exact. Qed.

Print Assumptions C07_sound_end_to_end_partial.
Print Assumptions C07_exclusion_is_exact.

(* ------------------------------------------------------------------------------------------------------------
   Extension (third round): the operand-order / constant-extraction WRAPPER of this domain is REGENERATED from the Python
   source (tools/translate_single.py -> Gen/SingleGen.v, in an exception monad) and proved equal to the model's wrapper on
   every comparison of table arity (Lemmas/SingleGenLemmas.v): an edit of the wrapper in /repo changes the subject of
   these theorems on the next run. *)
From Coq Require Import List String NArith ZArith Bool Arith.
From Tealer Require Import Tables Leaves LeafPrelude Syntax Parse Cfg StackAst Keys KeysGen SingleGen Analysis Domains Eval LeafLemmas SingleLemmas ExecLemmas TypeLemmas SingleGenLemmas.

Theorem C07_wrapper_regenerated :
  forall (intcs : option (list N)) (fam : keyfam) (v : sval) (op : instr) (pos : nat) (args : list sval),
       cond_leaf (cond_of v) op pos args ->
       stack_pop_size op = Some (Datatypes.length args) -> type_single_gen intcs fam op pos args = Some (type_single intcs fam op pos args).
Proof. exact @type_single_gen_eq_leaf. Qed.

Print Assumptions C07_wrapper_regenerated.

(* ------------------------------------------------------------------------------------------------------------
   Extension (store round): TxnType._store_results and the BlockTransactionContext objects / accessors are REGENERATED
   (tools/translate_store.py -> Gen/StoreGen.v).  Lemmas/StoreGenLemmas.v: after the regenerated store every slot (b, fam)
   holds as transaction_types the solver result of ITS OWN key key_of_fam "TransactionType" fam; nothing else changes. *)
From Tealer Require Import GraphGen SolverGen RunGen StoreGen RunGenLemmas StoreGenLemmas.

Theorem C07_store_results_regenerated :
  forall (f : func) (d : gdict (list string)) (t : state ctxobj),
    (forall b, In b (function_blocks f) -> exists c, lookup ctxobj t b = Some c /\ ctx_shape c) ->
    (forall b fam, In b (function_blocks f) -> In fam all_fams -> bc_get d (key_of_fam "TransactionType" fam) b <> None) ->
    exists t', type_store_results_gen f d t = Some t' /\
      (forall b, ~ In b (function_blocks f) -> lookup ctxobj t' b = lookup ctxobj t b) /\
      (forall b c, lookup ctxobj t b = Some c -> ctx_shape c -> exists c', lookup ctxobj t' b = Some c' /\ ctx_shape c') /\
      (forall b, In b (function_blocks f) -> forall fam, In fam all_fams -> exists v o,
         bc_get d (key_of_fam "TransactionType" fam) b = Some v /\ read_slot t b fam = Some o /\ read_slot t' b fam = Some (type_upd v o)).
Proof. exact @type_store_read_back. Qed.

Print Assumptions C07_store_results_regenerated.
