(* C06  Per-block GroupSize/GroupIndex sets are sound and exact.  Property theorems only.
   The comparison leaf int_get_asserted_int_values is REGENERATED from int_fields.py on every run. *)
From Coq Require Import ZArith List Bool.
From Tealer Require Import LeafPrelude Tables Leaves Syntax StackAst Analysis Domains LeafLemmas AssertedLemmas Instances SolverLemmas Keys Eval Runs Exec SingleLemmas ExecLemmas.
Import ListNotations.

(* comparison -> (true set, false set): all six operators, exact on the universe *)
Theorem C06_true_set_exact : forall c k U x, NoDup U -> c <> LeafPrelude.COther -> c <> LeafPrelude.CEq ->
  (In x (int_get_asserted_int_values c k U) <-> In x U /\ cmp_holds c x k = true).
Proof. exact int_asserted_exact. Qed.
Theorem C06_eq_true_set : forall k U, int_get_asserted_int_values LeafPrelude.CEq k U = [k].
Proof. exact int_asserted_eq. Qed.
Theorem C06_false_set_exact : forall c k U x, NoDup U -> c <> LeafPrelude.COther ->
  (In x (zdiff U (int_get_asserted_int_values c k U)) <-> In x U /\ cmp_holds c x k = false).
Proof. exact int_asserted_false_exact. Qed.
Theorem C06_universe_sizes : forall x, In x int_universal_groupsize <-> (1 <= x <= 16)%Z.
Proof. exact int_universal_groupsize_In. Qed.
Theorem C06_universe_indices : forall x, In x int_universal_groupindex <-> (0 <= x <= 15)%Z.
Proof. exact int_universal_groupindex_In. Qed.

(* conditions joined by && || ! (any nesting, unknown leaves): the combined (true,false) sets are sound ... *)
Theorem C06_conditions_sound : forall U single rho (v : inU U), leaf_sound (list Z) single (inU U) (zgamma U) rho v ->
  forall c b, ceval rho c b ->
    if b then zgamma U (fst (asserted (list Z) U [] zunion zinter single c)) v
    else zgamma U (snd (asserted (list Z) U [] zunion zinter single c)) v.
Proof. exact int_conditions_sound. Qed.
(* ... and exact: a value is in the true (false) set iff the condition can evaluate to true (false) when
   direct comparisons are read literally and every other leaf / unknown value is free *)
Theorem C06_conditions_exact : forall U single det,
  (forall op pos args v,
      match det op pos args with
      | Some f => (zgamma U (fst (single op pos args)) v <-> f v = true) /\ (zgamma U (snd (single op pos args)) v <-> f v = false)
      | None => zgamma U (fst (single op pos args)) v /\ zgamma U (snd (single op pos args)) v
      end) ->
  forall v c,
    (zgamma U (fst (asserted (list Z) U [] zunion zinter single c)) v <-> csat (inU U) det v c true) /\
    (zgamma U (snd (asserted (list Z) U [] zunion zinter single c)) v <-> csat (inU U) det v c false).
Proof. exact int_conditions_exact. Qed.

(* END TO END: the group size (sz = true) / own group index (sz = false) of every approving concrete execution
   is in the set reported for every block it passes through.  _partial: int_leaves_ok excludes exactly the
   mirrored ordered comparisons of known finding D2 (refuted: SingleLemmas.int_single_mirrored_refuted). *)
Theorem C06_sound_end_to_end_partial : forall e sem f sz fuel lo cfgs,
  sem_ok e sem -> env_ok e -> fn_intcs f = e_intcs e -> graph_ok f ->
  int_leaves_ok f sz -> run_int f fuel sz = Done lo -> Accepts e sem f cfgs ->
  forall b st, In (b, st) cfgs -> exists v, Analysis.lookup (list Z) lo b = Some v /\ In (int_value sz e) v.
Proof. exact C06_sound_partial. Qed.
Theorem C06_mirrored_refuted : exists e op args,
  env_ok e /\ leaf_truth e op args = Some true /\ mirrored_ordered true (e_intcs e) op args = true /\
  fst (int_single true (e_intcs e) op 0 args) = [1%Z; 2%Z] /\
  ~ In (int_value true e) (fst (int_single true (e_intcs e) op 0 args)).
Proof. exact int_single_mirrored_refuted. Qed.

Print Assumptions C06_true_set_exact.
Print Assumptions C06_false_set_exact.
Print Assumptions C06_conditions_sound.
Print Assumptions C06_conditions_exact.
Print Assumptions C06_sound_end_to_end_partial.
Print Assumptions C06_mirrored_refuted.

(* ------------------------------------------------------------------------------------------------------------
   Extension (second round): exactness w.r.t. the LITERAL reading (Lemmas/ExactInstances.v).  `Lit lit f b` = some literal
   accepting path through block b admits the value: comparisons of the governed field against constants read exactly
   (`lit`), every other condition free; no domain, solver or fuel appears in it (Spec/Literal.v; the backward pass ignoring
   edge constraints, known finding D12, is reflected there). *)
From Coq Require Import List String NArith ZArith Bool Arith.
From Tealer Require Import Tables Leaves LeafPrelude Syntax Parse Cfg StackAst Keys Analysis Domains Detect Literal GraphWf ExecLemmas LeafLemmas ExactLemmas ExactInstances.

(* EXACT: a size / index is listed at a block iff some literal accepting path through the block admits it (either operand order, all six operators) -- for programs without the mirrored ordered comparisons of known finding D2 *)
Theorem C06_exact_on_direct_checks_partial :
  forall (f : func) (sz : bool) (fuel : nat) (lo : list (nat * list Z)) (x : Z),
       graph_wf f = true ->
       int_not_mirrored f sz ->
       In x (SingleLemmas.int_U sz) ->
       run_int f fuel sz = Done lo ->
       forall b : nat, (exists v : list Z, lookup (list Z) lo b = Some v /\ In x v) <-> Lit (int_lit sz (fn_intcs f) x) f b.
Proof. exact @C06_result_exact_partial. Qed.

(* without the D2 hypothesis: exact w.r.t. the reading the tool implements *)
Theorem C06_exact_tool_reading :
  forall (f : func) (sz : bool) (fuel : nat) (lo : list (nat * list Z)) (x : Z),
       graph_wf f = true ->
       In x (SingleLemmas.int_U sz) ->
       run_int f fuel sz = Done lo ->
       forall b : nat, (exists v : list Z, lookup (list Z) lo b = Some v /\ In x v) <-> Lit (int_lit_tool sz (fn_intcs f) x) f b.
Proof. exact @C06_result_exact_tool. Qed.

(* a block on no accepting path lists nothing *)
Theorem C06_no_accepting_path_lists_nothing_partial :
  forall (f : func) (sz : bool) (fuel : nat) (lo : list (nat * list Z)) (b : nat) (v : list Z),
       int_not_mirrored f sz ->
       run_int f fuel sz = Done lo ->
       lookup (list Z) lo b = Some v -> (forall x : Z, In x (SingleLemmas.int_U sz) -> ~ Lit (int_lit sz (fn_intcs f) x) f b) -> v = nil.
Proof. exact @C06_no_literal_path_lists_nothing_partial. Qed.

Print Assumptions C06_exact_on_direct_checks_partial.
Print Assumptions C06_exact_tool_reading.
Print Assumptions C06_no_accepting_path_lists_nothing_partial.

(* ------------------------------------------------------------------------------------------------------------
   Extension (third round): the operand-order / constant-extraction WRAPPER of this domain is REGENERATED from the Python
   source (tools/translate_single.py -> Gen/SingleGen.v, in an exception monad) and proved equal to the model's wrapper on
   every comparison of table arity (Lemmas/SingleGenLemmas.v): an edit of the wrapper in /repo changes the subject of
   these theorems on the next run. *)
From Coq Require Import List String NArith ZArith Bool Arith.
From Tealer Require Import Tables Leaves LeafPrelude Syntax Parse Cfg StackAst Keys KeysGen SingleGen Analysis Domains Eval LeafLemmas SingleLemmas ExecLemmas TypeLemmas SingleGenLemmas.

Theorem C06_wrapper_regenerated :
  forall (size : bool) (intcs : option (list N)) (op : instr) (pos : nat) (args : list sval),
       stack_pop_size op = Some (Datatypes.length args) -> int_single_gen size intcs op pos args = Some (int_single size intcs op pos args).
Proof. exact @int_single_gen_eq_table. Qed.

Theorem C06_wrapper_regenerated_sound_partial :
  forall (sz : bool) (e : env) (op : instr) (pos : nat) (args : list sval) (b : bool) (r : list Z * list Z),
       env_ok e ->
       leaf_truth e op args = Some b ->
       mirrored_ordered sz (e_intcs e) op args = false ->
       int_single_gen sz (e_intcs e) op pos args = Some r -> In (int_value sz e) (if b then fst r else snd r).
Proof. exact @int_single_gen_sound_partial. Qed.

Print Assumptions C06_wrapper_regenerated.
Print Assumptions C06_wrapper_regenerated_sound_partial.

(* ------------------------------------------------------------------------------------------------------------
   Extension (third round): further code regenerated from the Python source with equivalence lemmas *)
From Coq Require Import List String NArith ZArith Bool Arith.
From Tealer Require Import Tables Leaves LeafPrelude Syntax Parse Cfg StackAst Keys KeysGen Analysis Domains Detect Regex Group AssertedGen GraphGen SearchGen ConstraintsGen RegexGen GroupGen GraphGenLemmas TotalSolver GroupLemmas RegexLemmas ConstraintsGenLemmas RegexGenLemmas GroupGenLemmas.

(* _block_level_constraints / _path_level_constraints REGENERATED from generic.py (tools/translate_constraints.py -> Gen/ConstraintsGen.v) write exactly the model's block_constraint / edge_constraint (assignment order of the two branch edges included) *)
Theorem C06_constraint_initialisation_regenerated :
  forall (T : Type) (univ null : T) (union inter : T -> T -> T) (single : instr -> nat -> list sval -> T * T) (f : func) 
         (b : block) (fuel succ : nat),
       NoDup (SolverLemmas.ids f) ->
       In b (fn_blocks f) ->
       defined_okb f = true ->
       NoDup (b_ins b) ->
       Datatypes.length (b_ins b) < fuel ->
       block_level_constraints_gen T univ null union inter single f fuel (b_idx b) = block_constraint T univ null union inter single f b /\
       (main_name_fresh f ->
        fexit_op f b <> None ->
        exit_next_ok f (b_idx b) b ->
        bind (path_level_constraints_gen T univ null union inter single f fuel (b_idx b)) (fun w : list (nat * T) => last_write T w succ) =
        edge_constraint T univ null union inter single f b succ).
Proof. exact @constraints_gen_eq_In. Qed.

(* the Python test `len(exit_instr.next) > 1` and the model's "jump target is the next line" agree on every parsed contract *)
Theorem C06_single_successor_test_agrees :
  forall (p : prog) (t : teal),
       parse_teal p = Ok t ->
       (forall k : nat, op_at p k <> Some ICustomErr) ->
       forall pred : block, In pred (fn_blocks (whole_function t)) -> exit_next_ok (whole_function t) (b_idx pred) pred.
Proof. exact @exit_next_ok_whole. Qed.

Print Assumptions C06_constraint_initialisation_regenerated.
Print Assumptions C06_single_successor_test_agrees.

(* ------------------------------------------------------------------------------------------------------------
   Extension (joint pass over all keys): theorems from Lemmas/JointGenLemmas.v and Lemmas/JointTotal.v.  tealer iterates
   ONE worklist for all keys of an analysis; the per-key model is related to that joint run here.  *)
From Coq Require Import String List NArith ZArith Bool Arith.
From Tealer Require Import JointGenLemmas JointTotal.

(* for every key of the list the joint pass of the regenerated solver returns, as a set, what the per-key model solver returns *)
Theorem C06_joint_pass_solve_peq :
      forall (T : Type) (t_eqb : T -> T -> bool) (univ null : string -> T)
         (union inter : string -> T -> T -> T)
         (single : string -> Syntax.instr -> nat -> list StackAst.sval -> T * T) 
         (f : Analysis.func) (k : string) (leq : T -> T -> Prop) (keys : list string) 
         (fuel fuel' : nat) (d d' : SolverGen.gdict T) (lo : list (nat * T)),
       key_order T t_eqb (null k) (union k) (inter k) leq ->
       joint_graph_ok f ->
       GraphGenLemmas.main_name_fresh f ->
       NoDup (SolverLemmas.ids f) ->
       (forall l : list nat, In l (Analysis.postorders f) -> incl l (SolverLemmas.ids f)) ->
       NoDup keys ->
       In k keys ->
       JointGen.joint_pass_gen T t_eqb univ null union inter single f fuel keys (Analysis.postorders f) d =
       Some (Some d') ->
       Domains.solve T t_eqb (univ k) (null k) (union k) (inter k) (single k) f fuel'
         (SolverGen.ddict_get T d k) = Analysis.Done lo ->
       SolverLemmas.peq T t_eqb (SolverGen.ddict_get T d' k) lo.
Proof. exact @joint_pass_solve_peq. Qed.

(* Leibniz equality when the domain equality test is exact *)
Theorem C06_joint_pass_solve_eq :
      forall (T : Type) (t_eqb : T -> T -> bool) (univ null : string -> T)
         (union inter : string -> T -> T -> T)
         (single : string -> Syntax.instr -> nat -> list StackAst.sval -> T * T) 
         (f : Analysis.func) (k : string) (leq : T -> T -> Prop) (keys : list string) 
         (fuel fuel' : nat) (d d' : SolverGen.gdict T) (lo : list (nat * T)),
       (forall a b : T, t_eqb a b = true -> a = b) ->
       key_order T t_eqb (null k) (union k) (inter k) leq ->
       joint_graph_ok f ->
       GraphGenLemmas.main_name_fresh f ->
       NoDup (SolverLemmas.ids f) ->
       (forall l : list nat, In l (Analysis.postorders f) -> incl l (SolverLemmas.ids f)) ->
       NoDup keys ->
       In k keys ->
       JointGen.joint_pass_gen T t_eqb univ null union inter single f fuel keys (Analysis.postorders f) d =
       Some (Some d') ->
       Domains.solve T t_eqb (univ k) (null k) (union k) (inter k) (single k) f fuel'
         (SolverGen.ddict_get T d k) = Analysis.Done lo -> SolverGen.ddict_get T d' k = lo.
Proof. exact @joint_pass_solve_eq. Qed.

(* keys outside the list are untouched *)
Theorem C06_joint_pass_other_keys :
      forall (T : Type) (t_eqb : T -> T -> bool) (univ null : string -> T)
         (union inter : string -> T -> T -> T)
         (single : string -> Syntax.instr -> nat -> list StackAst.sval -> T * T) 
         (f : Analysis.func) (keys : list string) (fuel : nat) (d d' : SolverGen.gdict T) 
         (k : string),
       GraphGenLemmas.main_name_fresh f ->
       NoDup (SolverLemmas.ids f) ->
       (forall l : list nat, In l (Analysis.postorders f) -> incl l (SolverLemmas.ids f)) ->
       NoDup keys ->
       ~ In k keys ->
       JointGen.joint_pass_gen T t_eqb univ null union inter single f fuel keys (Analysis.postorders f) d =
       Some (Some d') -> SolverGen.ddict_get T d' k = SolverGen.ddict_get T d k.
Proof. exact @joint_pass_other_keys. Qed.

(* GroupSize and GroupIndex analysed jointly by the regenerated run_analysis against the model run_int *)
Theorem C06_group_indices_joint_peq :
      forall (f : Analysis.func) (indices : list (nat * list Z)) (fuel fuel' afuel : nat)
         (dfin : SolverGen.gdict (list Z)) (size : bool) (res : list (nat * list Z)),
       RunGenLemmas.run_graph_ok f ->
       joint_graph_ok f ->
       (forall b : Cfg.block,
        In b (Analysis.fn_blocks f) -> NoDup (Cfg.b_ins b) /\ Datatypes.length (Cfg.b_ins b) < afuel) ->
       RunGen.run_analysis_gen (list Z) Domains.zset_eqb gi_univ (fun _ : string => nil)
         (fun _ : string => Domains.zunion) (fun _ : string => Domains.zinter)
         (gi_single (Analysis.fn_intcs f)) f ("GroupSize" :: "GroupIndex" :: nil) nil indices fuel
         (S (Datatypes.length (Analysis.fn_blocks f))) afuel = Some (Some dfin) ->
       Domains.run_int f fuel' size = Analysis.Done res ->
       SolverLemmas.peq (list Z) Domains.zset_eqb
         (SolverGen.ddict_get (list Z) dfin (if size then "GroupSize" else "GroupIndex")) res.
Proof. exact @group_indices_joint_peq. Qed.

(* same members block by block: the membership theorems of this file transfer to the joint run *)
Theorem C06_group_indices_joint_same_members :
      forall (f : Analysis.func) (indices : list (nat * list Z)) (fuel fuel' afuel : nat)
         (dfin : SolverGen.gdict (list Z)) (size : bool) (res : list (nat * list Z)) 
         (b : nat) (v : list Z),
       RunGenLemmas.run_graph_ok f ->
       joint_graph_ok f ->
       (forall b0 : Cfg.block,
        In b0 (Analysis.fn_blocks f) -> NoDup (Cfg.b_ins b0) /\ Datatypes.length (Cfg.b_ins b0) < afuel) ->
       RunGen.run_analysis_gen (list Z) Domains.zset_eqb gi_univ (fun _ : string => nil)
         (fun _ : string => Domains.zunion) (fun _ : string => Domains.zinter)
         (gi_single (Analysis.fn_intcs f)) f ("GroupSize" :: "GroupIndex" :: nil) nil indices fuel
         (S (Datatypes.length (Analysis.fn_blocks f))) afuel = Some (Some dfin) ->
       Domains.run_int f fuel' size = Analysis.Done res ->
       Analysis.lookup (list Z) res b = Some v ->
       exists v' : list Z,
         Analysis.lookup (list Z)
           (SolverGen.ddict_get (list Z) dfin (if size then "GroupSize" else "GroupIndex")) b = 
         Some v' /\ (forall x : Z, In x v' <-> In x v).
Proof. exact @group_indices_joint_same_members. Qed.

Print Assumptions C06_joint_pass_solve_peq.
Print Assumptions C06_joint_pass_solve_eq.
Print Assumptions C06_joint_pass_other_keys.
Print Assumptions C06_group_indices_joint_peq.
Print Assumptions C06_group_indices_joint_same_members.

(* ------------------------------------------------------------------------------------------------------------
   Extension (result storing regenerated: Lemmas/ConstsGenLemmas.v about store_results_gen, the translation of int_fields.py _store_results) *)
From Coq Require Import String List NArith ZArith Bool Arith.
From Tealer Require Import Tables Syntax Parse Cfg StackAst Keys KeysGen CfgGen Analysis GraphGen SolverGen Domains ConstsGen CfgLemmas SubLemmas RewriteLemmas CfgGenLemmas LeafPrelude Leaves LeafLemmas AssertedLemmas Instances SolverLemmas Eval Runs Exec SingleLemmas ExecLemmas SolverGenLemmas ExactInstances ConstsGenLemmas.

(* regenerated GroupIndices._store_results: sizes stored as they are, indices cut below the largest size *)
Theorem C06_store_results_gen_eq :
      forall (f : func) (d : gdict LZ) (ts ti : state LZ),
       let bl := function_blocks f in
       let sizes := ddict_get LZ d "GroupSize" in
       let idx0 := ddict_get LZ d "GroupIndex" in
       NoDup bl ->
       NoDup (map fst idx0) ->
       (forall b : nat, In b (map fst idx0) -> In b bl) ->
       (forall b : nat,
        In b bl ->
        lookup LZ idx0 b <> None /\
        lookup LZ sizes b <> None /\ lookup LZ ts b <> None /\ lookup LZ ti b <> None) ->
       (forall (b : nat) (gi : LZ) (i : Z), lookup LZ idx0 b = Some gi -> In i gi -> (0 <= i)%Z) ->
       exists (d' : gdict LZ) (ts' ti' : tctx_attr),
         store_results_gen f d ts ti = Some (d', ts', ti') /\
         ddict_get LZ d' "GroupSize" = sizes /\
         ddict_get LZ d' "GroupIndex" = indices_of sizes idx0 /\
         map fst ts' = map fst ts /\
         map fst ti' = map fst ti /\
         (forall b : nat, lookup LZ ts' b = (if nat_mem b bl then lookup LZ sizes b else lookup LZ ts b)) /\
         (forall b : nat,
          lookup LZ ti' b = (if nat_mem b bl then lookup LZ (indices_of sizes idx0) b else lookup LZ ti b)).
Proof. exact @store_results_gen_eq. Qed.

(* index below size and index soundness for what the regenerated _store_results writes into the block contexts *)
Theorem C06_index_lt_size_regenerated :
      forall (e : env) (sem : opsem) (f : func) (fuel : nat) (sizes idx0 : list (nat * LZ))
         (cfgs : list rconfig) (d : gdict LZ) (ts ti : tctx_attr),
       sem_ok e sem ->
       env_ok e ->
       fn_intcs f = e_intcs e ->
       graph_ok f ->
       int_leaves_ok f true ->
       int_leaves_ok f false ->
       run_int f fuel true = Done sizes ->
       run_int f fuel false = Done idx0 ->
       Accepts e sem f cfgs ->
       ddict_get LZ d "GroupSize" = sizes ->
       ddict_get LZ d "GroupIndex" = idx0 ->
       NoDup (function_blocks f) ->
       map fst ts = function_blocks f ->
       map fst ti = function_blocks f ->
       exists (d' : gdict LZ) (ts' ti' : tctx_attr),
         store_results_gen f d ts ti = Some (d', ts', ti') /\
         index_sound ti' (e_own e) cfgs /\
         (forall (b : nat) (gs gi : LZ) (i : Z),
          In b (function_blocks f) ->
          lookup LZ ts' b = Some gs ->
          lookup LZ ti' b = Some gi -> In i gi -> (0 <= i)%Z /\ (exists s : Z, In s gs /\ (i < s)%Z)).
Proof. exact @C06_index_lt_size_regenerated. Qed.

Print Assumptions C06_store_results_gen_eq.
Print Assumptions C06_index_lt_size_regenerated.
