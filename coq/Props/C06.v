(* C06  Per-block GroupSize/GroupIndex sets are sound and exact.  Property theorems only.
   The comparison leaf int_get_asserted_int_values is REGENERATED from int_fields.py on every run. *)
From Coq Require Import ZArith List Bool.
From Tealer Require Import LeafPrelude Tables Leaves Syntax StackAst Analysis Domains LeafLemmas AssertedLemmas Instances SolverLemmas.
Import ListNotations.

(* comparison -> (true set, false set): all six operators, exact on the universe *)
Theorem C06_true_set_exact : forall c k U x, NoDup U -> c <> LeafPrelude.COther -> c <> LeafPrelude.CEq ->
  (In x (int_get_asserted_int_values c k U) <-> In x U /\ cmp_holds c x k = true).
Proof. exact int_asserted_exact. Qed.
Theorem C06_eq_true_set : forall k U, int_get_asserted_int_values LeafPrelude.CEq k U = [k].
Proof. exact int_asserted_eq. Qed.
Theorem C06_false_set_exact : forall c k U x, NoDup U -> c <> LeafPrelude.COther ->
  (In x (zdiff U (int_get_asserted_int_values c k U)) <-> In x U /\ cmp_holds c x k = false).
Proof. exact int_asserted_false_exact. Qed.
Theorem C06_universe_sizes : forall x, In x int_universal_groupsize <-> (1 <= x <= 16)%Z.
Proof. exact int_universal_groupsize_In. Qed.
Theorem C06_universe_indices : forall x, In x int_universal_groupindex <-> (0 <= x <= 15)%Z.
Proof. exact int_universal_groupindex_In. Qed.

(* conditions joined by && || ! (any nesting, unknown leaves): the combined (true,false) sets are sound ... *)
Theorem C06_conditions_sound : forall U single rho (v : inU U), leaf_sound (list Z) single (inU U) (zgamma U) rho v ->
  forall c b, ceval rho c b ->
    if b then zgamma U (fst (asserted (list Z) U [] zunion zinter single c)) v
    else zgamma U (snd (asserted (list Z) U [] zunion zinter single c)) v.
Proof. exact int_conditions_sound. Qed.
(* ... and exact: a value is in the true (false) set iff the condition can evaluate to true (false) when
   direct comparisons are read literally and every other leaf / unknown value is free *)
Theorem C06_conditions_exact : forall U single det,
  (forall op pos args v,
      match det op pos args with
      | Some f => (zgamma U (fst (single op pos args)) v <-> f v = true) /\ (zgamma U (snd (single op pos args)) v <-> f v = false)
      | None => zgamma U (fst (single op pos args)) v /\ zgamma U (snd (single op pos args)) v
      end) ->
  forall v c,
    (zgamma U (fst (asserted (list Z) U [] zunion zinter single c)) v <-> csat (inU U) det v c true) /\
    (zgamma U (snd (asserted (list Z) U [] zunion zinter single c)) v <-> csat (inU U) det v c false).
Proof. exact int_conditions_exact. Qed.

Print Assumptions C06_true_set_exact.
Print Assumptions C06_false_set_exact.
Print Assumptions C06_conditions_sound.
Print Assumptions C06_conditions_exact.
