(* C19  Version, mode and cost reporting agree with the AVM specification.  Property theorems only.
   Subject: Gen/Tables.v (REGENERATED from instructions.py / *_field.py on every run).
   Reference: Spec/AvmTables.v, a hand transcription of the AVM specification v1-v8 (trusted base). *)
From Coq Require Import List String NArith.
From Tealer Require Import Tables Syntax AvmTables TableLemmas.
Import ListNotations.

(* introduction version of every opcode class = spec, except the explicitly listed names *)
Theorem C19_versions_partial : forall ci, In ci opcode_classes -> ~ In (c_name ci) version_mismatch_names ->
  exists o, spec_of ci = Some o /\ c_version ci = a_version o.
Proof. exact C19_versions_match_partial. Qed.
Theorem C19_version_exclusions : version_mismatch_names = ["Method"]%string.
Proof. reflexivity. Qed.

(* execution mode of every opcode class = spec (v8 classification) *)
Theorem C19_modes : forall ci, In ci opcode_classes -> exists o, spec_of ci = Some o /\ c_mode ci = a_mode o.
Proof. exact C19_modes_match. Qed.

(* opcode cost for every declared version 1..8 = spec; the exclusion list is empty for every version *)
Theorem C19_costs : forall ci v, In ci opcode_classes -> In v prog_versions -> ~ In (c_name ci) (cost_mismatch_names v) ->
  exists o, spec_of ci = Some o /\
    (N.le (a_version o) v ->
       (is_curve_op o = false -> forall ps, gen_cost ci ps v = a_cost o v) /\
       (is_curve_op o = true -> forall c ps, In c (curves_at v) -> nth_error ps 0 = Some (PStr c) ->
                                 gen_cost ci ps v = avm_cost_curve o c v)).
Proof. exact C19_costs_match_partial. Qed.
Theorem C19_cost_exclusions_empty : forall v, cost_mismatch_names v = [].
Proof. intro v; unfold cost_mismatch_names; destruct (N.leb 7 v); reflexivity. Qed.

(* introduction version of every transaction / global / asset / app / account field = spec *)
Theorem C19_field_versions : forall n g s, In (n, g, s) field_tables ->
  forall t c v sv, In (t, (c, v)) g -> lookup_field s t = Some sv -> v = sv.
Proof. exact C19_field_versions_match. Qed.

Print Assumptions C19_versions_partial.
Print Assumptions C19_modes.
Print Assumptions C19_costs.
Print Assumptions C19_field_versions.

(* ------------------------------------------------------------------------------------------------------------
   Extension (second round): what the three ALGORITHMS compute (Lemmas/VersionLemmas.v), composed with the table theorems *)
From Coq Require Import List String NArith ZArith Bool Arith.
From Tealer Require Import Tables Syntax Parse Cfg AvmTables TableLemmas Driver VersionLemmas.

(* _verify_version: the flag list is the in-order list of instructions whose introduction version exceeds the declared one (FlagIns), else whose field version does (FlagField) *)
Theorem C19_flags_are_the_unsupported_instructions :
  forall (p : prog) (v : N),
       fst (verify_version p v) =
       flat_map
         (fun i : ins =>
          if unsupported_ins v (i_op i)
          then (i_line i, FlagIns) :: nil
          else if unsupported_field v (i_op i) then (i_line i, FlagField) :: nil else nil) p.
Proof. exact @verify_version_flags_exact. Qed.

(* a line is flagged iff its instruction or its field is newer than the declared version *)
Theorem C19_line_flagged_iff :
  forall (p : prog) (v : N) (ln : nat),
       (exists fl : vflag, In (ln, fl) (fst (verify_version p v))) <->
       (exists (i : ins) (iv : N),
          In i p /\
          i_line i = ln /\
          ins_version (i_op i) = Some iv /\ (v < iv \/ (exists (kind : string) (fv : N), ins_field (i_op i) = Some (kind, fv) /\ v < fv))).
Proof. exact @verify_version_line_flagged_iff. Qed.

(* declared version = the `#pragma version` of the first instruction (1 when absent); mode = detect_mode *)
Theorem C19_declared_version :
  forall (p : prog) (t : teal), parse_teal p = Ok t -> t_version t = declared_version p /\ t_mode t = detect_mode p /\ t_prog t = p.
Proof. exact @parse_teal_version_mode. Qed.

(* THE FIRST SENTENCE OF THE PROPERTY: an instruction (outside the exclusion list [Method]) is flagged iff its AVM introduction version exceeds the declared version *)
Theorem C19_flag_iff_avm_version :
  forall (p : list ins) (v : N) (ln : nat),
       (forall i : ins, In i p -> i_line i = ln -> ins_spec (i_op i) <> None /\ ~ In (cls_of (i_op i)) version_mismatch_names) ->
       In (ln, FlagIns) (fst (verify_version p v)) <->
       (exists (i : ins) (o : avm_op), In i p /\ i_line i = ln /\ ins_spec (i_op i) = Some o /\ v < a_version o).
Proof. exact @C19_flag_iff_avm_version_partial. Qed.

(* ... and a field is flagged iff the instruction is supported and the field's AVM version exceeds the declared version *)
Theorem C19_field_flag_iff_avm_version :
  forall (v : N) (i : instr) (o : avm_op) (k : string) (sv : N),
       ins_spec i = Some o ->
       ~ In (cls_of i) version_mismatch_names -> avm_field i = Some (k, sv) -> verify_ins v i = Some FlagField <-> a_version o <= v < sv.
Proof. exact @C19_field_flag_iff_avm_version_partial. Qed.

(* a mixture is flagged iff the program uses both a Stateful-only and a Stateless-only instruction *)
Theorem C19_mixture_flagged :
  forall (p : prog) (v : N),
       snd (verify_version p v) = true <->
       (exists i : ins, In i p /\ ins_mode (i_op i) = Some MStateful) /\ (exists j : ins, In j p /\ ins_mode (i_op j) = Some MStateless).
Proof. exact @verify_version_mixed_iff. Qed.

(* classification = mode of the FIRST mode-specific instruction; for unmixed programs: classified m iff it uses an m-only instruction; analysed as application iff classified Stateful *)
Theorem C19_mode_classification_exact :
  forall (p : prog) (t : teal),
       parse_teal p = Ok t ->
       (t_mode t = MAny <-> (forall i : ins, In i p -> mode_specific (i_op i) = false)) /\
       (forall m : xmode,
        m <> MAny ->
        t_mode t = m <->
        (exists (p1 : list ins) (i : ins) (p2 : list ins),
           p = p1 ++ i :: p2 /\ (forall j : ins, In j p1 -> mode_specific (i_op j) = false) /\ ins_mode (i_op i) = Some m)) /\
       (snd (verify_version (t_prog t) (t_version t)) = false ->
        forall m : xmode, m <> MAny -> t_mode t = m <-> (exists i : ins, In i p /\ ins_mode (i_op i) = Some m)) /\
       (contract_type_of t = "ApprovalProgram" <->
        (exists (p1 : list ins) (i : ins) (p2 : list ins),
           p = p1 ++ i :: p2 /\ (forall j : ins, In j p1 -> mode_specific (i_op j) = false) /\ ins_mode (i_op i) = Some MStateful)).
Proof. exact @C19_mode_classification. Qed.

(* ... with the AVM (v8) modes of the specification table *)
Theorem C19_mode_against_avm :
  forall p : prog,
       detect_mode p =
       match find (fun i : ins => negb (xmode_eqb (avm_mode_of (i_op i)) MAny)) p with
       | Some i => avm_mode_of (i_op i)
       | None => MAny
       end.
Proof. exact @C19_detect_mode_avm. Qed.

(* displayed block cost = sum of the per-instruction costs at the declared version *)
Theorem C19_block_cost_is_sum :
  forall (t : teal) (b : block), block_cost t b = Nsum (map (cost_at t) (b_ins b)).
Proof. exact @block_cost_sum. Qed.

(* ... = the sum of the AVM specification costs, for declared versions 1..8 and blocks whose instructions all exist in that version *)
Theorem C19_block_cost_is_avm_sum :
  forall (t : teal) (b : block) (cs : list N),
       In (t_version t) prog_versions -> map_opt (avm_cost_at t) (b_ins b) = Some cs -> block_cost t b = Nsum cs.
Proof. exact @C19_block_cost_avm. Qed.

(* REFUTED as worded for mixed programs: `arg 0; app_global_get` uses a Stateful-only instruction but is classified Stateless (first mode-specific instruction wins; the mixture IS flagged) *)
Theorem C19_mixed_classification_refuted :
  exists p : list ins,
         (exists i : ins, In i p /\ ins_mode (i_op i) = Some MStateful) /\
         detect_mode p = MStateless /\ (forall v : N, snd (verify_version p v) = true).
Proof. exact @detect_mode_uses_naive_refuted. Qed.

(* REFUTED (finding D22): ed25519verify is LogicSig-only up to v4; a v4 program using it with app_global_get is classified Stateful without any flag *)
Theorem C19_versioned_mode_refuted :
  exists (p : prog) (t : teal),
         parse_teal p = Ok t /\
         t_version t = 4 /\
         t_mode t = MStateful /\
         verify_version (t_prog t) (t_version t) = (nil, false) /\
         (exists (i : ins) (o : avm_op), In i p /\ ins_spec (i_op i) = Some o /\ avm_mode_at o (t_version t) = MStateless).
Proof. exact @C19_mode_versioned_refuted. Qed.

Print Assumptions C19_flags_are_the_unsupported_instructions.
Print Assumptions C19_line_flagged_iff.
Print Assumptions C19_declared_version.
Print Assumptions C19_flag_iff_avm_version.
Print Assumptions C19_field_flag_iff_avm_version.
Print Assumptions C19_mixture_flagged.
Print Assumptions C19_mode_classification_exact.
Print Assumptions C19_mode_against_avm.
Print Assumptions C19_block_cost_is_sum.
Print Assumptions C19_block_cost_is_avm_sum.
Print Assumptions C19_mixed_classification_refuted.
Print Assumptions C19_versioned_mode_refuted.

(* ------------------------------------------------------------------------------------------------------------
   Extension (version, mode and cost reporting regenerated): Lemmas/VersionGenLemmas.v about Gen/VersionGen.v, the translation
   of parse_teal.py _detect_execution_mode, _verify_version, the version slice of parse_teal, Teal contract type and
   BasicBlock.cost.  Messages written to stderr are read as events through a fixed table of the six message texts. *)
From Coq Require Import String List NArith ZArith Bool Arith.
From Tealer Require Import Tables Syntax Parse Cfg KeysGen CfgGen VersionGen CfgLemmas SubLemmas CfgGenLemmas TableLemmas TotalParse Driver VersionLemmas VersionGenLemmas.

(* on every source text the model parses: mode, version, reported events, and block costs of the regenerated code are those of the model *)
Theorem C19_version_gen_on_sources :
      forall (src : string) (p : list ins) (t : teal),
       parse_program src = Ok p ->
       parse_teal p = Ok t ->
       parse_teal_version_gen p (seq 0 (Datatypes.length p)) =
       Some (t_mode t, t_version t, vv_events (t_prog t) (t_version t)) /\
       (forall v : N,
        verify_version_gen p (seq 0 (Datatypes.length p)) v = Some (vv_error p v, vv_events p v)) /\
       detect_execution_mode_gen p (seq 0 (Datatypes.length p)) = Some (detect_mode p) /\
       (forall b : block, In b (t_blocks t) -> bb_cost_gen t b = Some (block_cost t b)).
Proof. exact @version_gen_on_sources. Qed.

(* the parser only builds instructions of known classes *)
Theorem C19_parse_program_known :
      forall (src : string) (p : list ins), parse_program src = Ok p -> known p.
Proof. exact @parse_program_known. Qed.

(* regenerated mode detection *)
Theorem C19_detect_mode_gen_eq :
      forall p : list ins,
       known p -> detect_execution_mode_gen p (seq 0 (Datatypes.length p)) = Some (detect_mode p).
Proof. exact @detect_execution_mode_gen_eq_prog. Qed.

(* the first mode-specific instruction decides *)
Theorem C19_detect_mode_gen_first_iff :
      forall (p : list ins) (m : xmode),
       known p ->
       m <> MAny ->
       detect_execution_mode_gen p (seq 0 (Datatypes.length p)) = Some m <->
       (exists (p1 : list ins) (i : ins) (p2 : list ins),
          p = p1 ++ i :: p2 /\
          (forall j : ins, In j p1 -> mode_specific (i_op j) = false) /\ ins_mode (i_op i) = Some m).
Proof. exact @detect_execution_mode_gen_first_iff. Qed.

(* regenerated version verification: returned flag and events *)
Theorem C19_verify_version_gen_eq :
      forall (p : list ins) (v : N),
       known p -> verify_version_gen p (seq 0 (Datatypes.length p)) v = Some (vv_error p v, vv_events p v).
Proof. exact @verify_version_gen_eq_prog. Qed.

(* an unsupported-field report exactly for a supported instruction whose field is newer than the program *)
Theorem C19_verify_version_gen_field_iff :
      forall (p : list ins) (v : N) (err : bool) (evs : list event) (ln : nat),
       known p ->
       verify_version_gen p (seq 0 (Datatypes.length p)) v = Some (err, evs) ->
       In (EvFieldUnsupported ln) evs <->
       (exists (i : ins) (iv : N) (kind : string) (fv : N),
          In i p /\
          i_line i = ln /\
          ins_version (i_op i) = Some iv /\ (iv <= v)%N /\ ins_field (i_op i) = Some (kind, fv) /\ (v < fv)%N).
Proof. exact @verify_version_gen_FlagField_iff. Qed.

(* an unsupported-instruction report exactly for an instruction newer than the program *)
Theorem C19_verify_version_gen_ins_iff :
      forall (p : list ins) (v : N) (err : bool) (evs : list event) (ln : nat),
       known p ->
       verify_version_gen p (seq 0 (Datatypes.length p)) v = Some (err, evs) ->
       In (EvInsUnsupported ln) evs <->
       (exists (i : ins) (iv : N), In i p /\ i_line i = ln /\ ins_version (i_op i) = Some iv /\ (v < iv)%N).
Proof. exact @verify_version_gen_FlagIns_iff. Qed.

(* the mixed-mode report exactly when both a stateful-only and a stateless-only instruction occur *)
Theorem C19_verify_version_gen_mixed_iff :
      forall (p : list ins) (v : N) (err : bool) (evs : list event),
       known p ->
       verify_version_gen p (seq 0 (Datatypes.length p)) v = Some (err, evs) ->
       In EvMixed evs <->
       (exists i : ins, In i p /\ ins_mode (i_op i) = Some MStateful) /\
       (exists j : ins, In j p /\ ins_mode (i_op j) = Some MStateless).
Proof. exact @verify_version_gen_mixed_iff. Qed.

(* the version slice of parse_teal *)
Theorem C19_parse_teal_version_gen_eq :
      forall (p : list ins) (t : teal),
       known p ->
       parse_teal p = Ok t ->
       parse_teal_version_gen p (seq 0 (Datatypes.length p)) =
       Some (t_mode t, t_version t, vv_events (t_prog t) (t_version t)).
Proof. exact @parse_teal_version_gen_parse_teal. Qed.

(* classification of the detected mode *)
Theorem C19_parse_teal_version_gen_classification :
      forall (p : list ins) (t : teal) (mode : xmode) (version : N) (evs : list event),
       known p ->
       parse_teal p = Ok t ->
       parse_teal_version_gen p (seq 0 (Datatypes.length p)) = Some (mode, version, evs) ->
       (mode = MAny <-> (forall i : ins, In i p -> mode_specific (i_op i) = false)) /\
       (forall m : xmode,
        m <> MAny ->
        mode = m <->
        (exists (p1 : list ins) (i : ins) (p2 : list ins),
           p = p1 ++ i :: p2 /\
           (forall j : ins, In j p1 -> mode_specific (i_op j) = false) /\ ins_mode (i_op i) = Some m)) /\
       (mixed_of_events evs = false ->
        forall m : xmode, m <> MAny -> mode = m <-> (exists i : ins, In i p /\ ins_mode (i_op i) = Some m)).
Proof. exact @parse_teal_version_gen_classification. Qed.

(* contract type is ApprovalProgram exactly for stateful mode *)
Theorem C19_contract_type_gen_iff :
      forall m : xmode,
       (teal_init_contract_type_gen m = Some CT_ApprovalProgram <-> m = MStateful) /\
       (teal_init_contract_type_gen m = Some CT_LogicSig <-> m <> MStateful).
Proof. exact @teal_init_contract_type_gen_application_iff. Qed.

(* regenerated BasicBlock.cost on the blocks of a parsed contract *)
Theorem C19_bb_cost_gen_eq :
      forall (p : list ins) (t : teal) (b : block),
       known p -> parse_teal p = Ok t -> In b (t_blocks t) -> bb_cost_gen t b = Some (block_cost t b).
Proof. exact @bb_cost_gen_parse_teal. Qed.

Print Assumptions C19_version_gen_on_sources.
Print Assumptions C19_parse_program_known.
Print Assumptions C19_detect_mode_gen_eq.
Print Assumptions C19_detect_mode_gen_first_iff.
Print Assumptions C19_verify_version_gen_eq.
Print Assumptions C19_verify_version_gen_field_iff.
Print Assumptions C19_verify_version_gen_ins_iff.
Print Assumptions C19_verify_version_gen_mixed_iff.
Print Assumptions C19_parse_teal_version_gen_eq.
Print Assumptions C19_parse_teal_version_gen_classification.
Print Assumptions C19_contract_type_gen_iff.
Print Assumptions C19_bb_cost_gen_eq.

(* ------------------------------------------------------------------------------------------------------------
   Extension (report producers regenerated): Lemmas/ReportGenLemmas.v about Gen/ReportGen.v, the translation of
   ExecutionPaths.to_json, __main__.py handle_output and the filter / report slices of main, the transaction-context
   printer annotations and the human-summary printer; values, not text layout.  *)
From Coq Require Import String List NArith ZArith Bool Arith.
From Tealer Require Import Tables LeafPrelude Syntax Parse Cfg Keys Analysis Domains Detect KeysGen Output OutputGen ReportGen CfgLemmas SubLemmas GraphWf OutputLemmas OutputGenLemmas VersionLemmas VersionGenLemmas ReportGenLemmas.

(* human-summary printer: declared version, detected mode, numbers of retained blocks, retained instructions and subroutines *)
Theorem C19_summary_gen_parsed :
      forall (p : prog) (t : teal),
       parse_teal p = Ok t ->
       summary_gen t =
       Some
         ((SumVersion (N.to_nat (declared_version p))
           :: SumMode (detect_mode p)
              :: SumBlocks (Datatypes.length (full_cfg_nodes t))
                 :: SumInstructions (Datatypes.length (t_retained_ins t))
                    :: SumSubroutines (Datatypes.length (t_subs t)) :: nil) ++
          flat_map (fun s : subroutine => SumSubName (s_name s) :: SumSubBlocks (s_blocks s) :: nil)
            (t_subs t)).
Proof. exact @summary_gen_parsed. Qed.

Print Assumptions C19_summary_gen_parsed.
