(* C19  Version, mode and cost reporting agree with the AVM specification.  Property theorems only.
   Subject: Gen/Tables.v (REGENERATED from instructions.py / *_field.py on every run).
   Reference: Spec/AvmTables.v, a hand transcription of the AVM specification v1-v8 (trusted base). *)
From Coq Require Import List String NArith.
From Tealer Require Import Tables Syntax AvmTables TableLemmas.
Import ListNotations.

(* introduction version of every opcode class = spec, except the explicitly listed names *)
Theorem C19_versions_partial : forall ci, In ci opcode_classes -> ~ In (c_name ci) version_mismatch_names ->
  exists o, spec_of ci = Some o /\ c_version ci = a_version o.
Proof. exact C19_versions_match_partial. Qed.
Theorem C19_version_exclusions : version_mismatch_names = ["Method"]%string.
Proof. reflexivity. Qed.

(* execution mode of every opcode class = spec (v8 classification) *)
Theorem C19_modes : forall ci, In ci opcode_classes -> exists o, spec_of ci = Some o /\ c_mode ci = a_mode o.
Proof. exact C19_modes_match. Qed.

(* opcode cost for every declared version 1..8 = spec; the exclusion list is empty for every version *)
Theorem C19_costs : forall ci v, In ci opcode_classes -> In v prog_versions -> ~ In (c_name ci) (cost_mismatch_names v) ->
  exists o, spec_of ci = Some o /\
    (N.le (a_version o) v ->
       (is_curve_op o = false -> forall ps, gen_cost ci ps v = a_cost o v) /\
       (is_curve_op o = true -> forall c ps, In c (curves_at v) -> nth_error ps 0 = Some (PStr c) ->
                                 gen_cost ci ps v = avm_cost_curve o c v)).
Proof. exact C19_costs_match_partial. Qed.
Theorem C19_cost_exclusions_empty : forall v, cost_mismatch_names v = [].
Proof. intro v; unfold cost_mismatch_names; destruct (N.leb 7 v); reflexivity. Qed.

(* introduction version of every transaction / global / asset / app / account field = spec *)
Theorem C19_field_versions : forall n g s, In (n, g, s) field_tables ->
  forall t c v sv, In (t, (c, v)) g -> lookup_field s t = Some sv -> v = sv.
Proof. exact C19_field_versions_match. Qed.

Print Assumptions C19_versions_partial.
Print Assumptions C19_modes.
Print Assumptions C19_costs.
Print Assumptions C19_field_versions.
