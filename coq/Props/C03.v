(* C03  No report when every accepting path directly excludes the dangerous value.  Property theorems only.
   Spec/Literal.v: LiveOut b = "some accepting path of the graph through b admits x when block and edge
   constraints are read literally" (the solver's equations as an inductive definition, independent of fuel
   and worklists). *)
From Coq Require Import List String.
From Tealer Require Import Syntax StackAst Cfg Analysis Domains Detect Literal SolverLemmas AssertedLemmas ExactLemmas.
Import ListNotations.

(* exactness of the solver (L6): with an exact concretisation every value in the result is justified by a
   literal accepting path -- for every graph, fuel and domain *)
Theorem C03_result_justified : forall T t_eqb univ null union inter single f V (gamma : T -> V -> Prop) x,
  ~ gamma null x ->
  (forall a b, gamma (union a b) x -> gamma a x \/ gamma b x) ->
  (forall a b, gamma (inter a b) x -> gamma a x /\ gamma b x) ->
  forall bc fuel lo, solve T t_eqb univ null union inter single f fuel bc = Done lo ->
  forall b v, Analysis.lookup T lo b = Some v -> gamma v x ->
  LiveOut f (okb T V gamma x bc) (oke T univ null union inter single f V gamma x) b.
Proof. exact solve_exact. Qed.

(* ... and, with the soundness laws and a well-formed graph, the result is EXACTLY the literal reading *)
Theorem C03_result_exact : forall T t_eqb univ null union inter single f V (gamma : T -> V -> Prop) x,
  ~ gamma null x ->
  (forall a b, gamma (union a b) x -> gamma a x \/ gamma b x) ->
  (forall a b, gamma (inter a b) x -> gamma a x /\ gamma b x) ->
  forall bc, gamma univ x ->
  (forall a b, gamma a x -> gamma (union a b) x) -> (forall a b, gamma b x -> gamma (union a b) x) ->
  (forall a b, gamma a x -> gamma b x -> gamma (inter a b) x) ->
  (forall a b, t_eqb a b = true -> gamma a x <-> gamma b x) -> (forall a, t_eqb a a = true) ->
  cover_prev_P f -> cover_ret_P f -> cover_next_P f -> cover_call_P f ->
  forall fuel lo,
  (forall b, In b (ids f) -> In b (forward_worklist f)) ->
  (forall b xb, fblock f b = Some xb -> leaf_global f xb = false -> In b (backward_worklist f)) ->
  solve T t_eqb univ null union inter single f fuel bc = Done lo ->
  forall b, (exists v, Analysis.lookup T lo b = Some v /\ gamma v x) <->
            LiveOut f (okb T V gamma x bc) (oke T univ null union inter single f V gamma x) b.
Proof. exact solve_exact_iff. Qed.

(* the verdict: if no literal accepting path through the entry admits the dangerous value, nothing is reported *)
Theorem C03_no_literal_path_no_report : forall T t_eqb univ null union inter single f V (gamma : T -> V -> Prop) x,
  ~ gamma null x ->
  (forall a b, gamma (union a b) x -> gamma a x \/ gamma b x) ->
  (forall a b, gamma (inter a b) x -> gamma a x /\ gamma b x) ->
  forall bc fuel lo validated report dfuel,
  solve T t_eqb univ null union inter single f fuel bc = Done lo ->
  ~ LiveOut f (okb T V gamma x bc) (oke T univ null union inter single f V gamma x) (fn_entry f) ->
  ((forall v, Analysis.lookup T lo (fn_entry f) = Some v -> ~ gamma v x) -> validated (fn_entry f) = true) ->
  dfuel <> 0 -> detect_paths f validated report dfuel = Done [].
Proof. exact ExactLemmas.C03_no_literal_path_no_report. Qed.

(* conditions: exactness of the (true, false) sets of an && / || / ! combination (any nesting) *)
Theorem C03_conditions_exact : forall T univ null union inter single V (gamma : T -> V -> Prop),
  (forall x, gamma univ x) -> (forall a b x, gamma a x -> gamma (union a b) x) -> (forall a b x, gamma b x -> gamma (union a b) x) ->
  (forall a b x, gamma a x -> gamma b x -> gamma (inter a b) x) -> (forall x, ~ gamma null x) ->
  (forall a b x, gamma (union a b) x -> gamma a x \/ gamma b x) -> (forall a b x, gamma (inter a b) x -> gamma a x /\ gamma b x) ->
  forall det,
  (forall op pos args x, match det op pos args with
     | Some f => (gamma (fst (single op pos args)) x <-> f x = true) /\ (gamma (snd (single op pos args)) x <-> f x = false)
     | None => gamma (fst (single op pos args)) x /\ gamma (snd (single op pos args)) x end) ->
  forall x c, (gamma (fst (asserted T univ null union inter single c)) x <-> csat V det x c true) /\
              (gamma (snd (asserted T univ null union inter single c)) x <-> csat V det x c false).
Proof. exact asserted_exact. Qed.

Print Assumptions C03_result_justified.
Print Assumptions C03_result_exact.
Print Assumptions C03_no_literal_path_no_report.
Print Assumptions C03_conditions_exact.

(* ------------------------------------------------------------------------------------------------------------
   Extension (third round): the && / || / ! combination (`_get_asserted`, `compute_equations`, `_flatten_ast`) is
   REGENERATED from the Python source (tools/translate_asserted.py -> Gen/AssertedGen.v) and proved equal to the model's
   `asserted` on every operand tree the emulation builds, for every domain (Lemmas/AssertedGenLemmas.v). *)
From Coq Require Import List String NArith ZArith Bool Arith.
From Tealer Require Import Tables Syntax Parse Cfg StackAst Keys KeysGen AssertedGen Analysis AssertedLemmas KeysGenLemmas AssertedGenLemmas.

Theorem C03_combination_regenerated :
  forall (T : Type) (univ null : T) (union inter : T -> T -> T) (single : instr -> nat -> list sval -> T * T) (p : prog) 
         (poss : list nat) (ast : list (nat * instr * list sval)),
       emulate p poss nil = Some ast ->
       forall (k : nat) (op : instr) (args : list sval) (a : sval) (fuel : nat),
       In (k, op, args) ast ->
       In a args ->
       a <> SUnknown ->
       cdepth (cond_of a) < fuel ->
       get_asserted_gen T univ null union inter single fuel a = Some (asserted T univ null union inter single (cond_of a)).
Proof. exact @emulate_get_asserted_gen_eq. Qed.

(* soundness of the regenerated combination, any nesting *)
Theorem C03_combination_regenerated_sound :
  forall (T : Type) (univ null : T) (union inter : T -> T -> T) (single : instr -> nat -> list sval -> T * T) (V : Type)
         (gamma : T -> V -> Prop),
       (forall x : V, gamma univ x) ->
       (forall (a b : T) (x : V), gamma a x -> gamma (union a b) x) ->
       (forall (a b : T) (x : V), gamma b x -> gamma (union a b) x) ->
       (forall (a b : T) (x : V), gamma a x -> gamma b x -> gamma (inter a b) x) ->
       forall (rho : instr -> nat -> list sval -> bool) (x : V),
       leaf_sound T single V gamma rho x ->
       forall (fuel : nat) (v : sval) (b : bool),
       aon_ok v ->
       v <> SUnknown ->
       cdepth (cond_of v) < fuel ->
       ceval rho (cond_of v) b ->
       exists r : T * T, get_asserted_gen T univ null union inter single fuel v = Some r /\ (if b then gamma (fst r) x else gamma (snd r) x).
Proof. exact @get_asserted_gen_sound. Qed.

Print Assumptions C03_combination_regenerated.
Print Assumptions C03_combination_regenerated_sound.
