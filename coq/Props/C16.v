(* C16  Each source line parses to the instruction it denotes, and prints back.  Property theorems only.
   parser_rules (the ordered prefix list) and the printing formats are REGENERATED from parse_instruction.py /
   instructions.py on every run. *)
From Coq Require Import List String NArith.
From Tealer Require Import Tables Syntax Parse ParseLemmas.
Import ListNotations.
Open Scope list_scope.

(* no opcode is taken for another that shares a prefix: every key selects its own rule ... *)
Theorem C16_dispatch_key : forall key cls sh, In (key, (cls, sh)) parser_rules -> first_rule key parser_rules = Some (key, cls, sh).
Proof. exact dispatch_key. Qed.
(* ... also when followed by ANY immediate text (exception list = ["replace"], whose continuations "2 " / "3"
   are the opcodes replace2 / replace3 themselves) *)
Theorem C16_dispatch_immediates : forall key cls sh, In (key, (cls, sh)) parser_rules -> sh <> SNone ->
  ~ In key dispatch_exceptions -> forall rest, first_rule (key ++ rest)%string parser_rules = Some (key, cls, sh).
Proof. exact dispatch_partial. Qed.
Theorem C16_dispatch_exceptions : dispatch_exceptions = ["replace"%string].
Proof. reflexivity. Qed.

(* integers: decimal, hexadecimal and octal spellings of one number parse to that number *)
Theorem C16_integers : forall n,
  parse_int (string_of_N n) = Ok n /\ parse_int ("0x" ++ hex_of_N n)%string = Ok n /\ parse_int ("0" ++ oct_of_N n)%string = Ok n.
Proof. exact parse_int_spellings. Qed.

(* round trip: every immediate-free opcode of the table parses from its mnemonic and prints it back *)
Theorem C16_roundtrip_bare : forall key cls, In (key, (cls, SNone)) parser_rules ->
  parse_line key = Ok (Some (of_generic cls [])) /\ str_of_instr (of_generic cls []) = key.
Proof. exact roundtrip_all_bare. Qed.
Theorem C16_roundtrip_int : forall n, parse_line (str_of_instr (IInt (IANum n))) = Ok (Some (IInt (IANum n))).
Proof. exact roundtrip_int. Qed.
Theorem C16_roundtrip_txn : forall txt cls v, In (txt, (cls, v)) tx_fields ->
  parse_line (str_of_instr (ITxn (cls, None))) = Ok (Some (ITxn (cls, None))).
Proof. exact roundtrip_txn. Qed.
Theorem C16_roundtrip_gtxns : forall txt cls v, In (txt, (cls, v)) tx_fields ->
  parse_line (str_of_instr (IGtxns (cls, None))) = Ok (Some (IGtxns (cls, None))).
Proof. exact roundtrip_gtxns. Qed.
Theorem C16_roundtrip_branch : forall l, label_ok l = true -> parse_line (str_of_instr (IB l)) = Ok (Some (IB l)).
Proof. exact roundtrip_b. Qed.
Theorem C16_roundtrip_label : forall l, labeldef_ok l = true -> parse_line (str_of_instr (ILabel l)) = Ok (Some (ILabel l)).
Proof. exact roundtrip_label. Qed.
(* no rule's printed form starts with anything but its own key (was: gtxns, gtxnsa, gtxnas, gitxnas; repaired) *)

(* whitespace and comments do not change the result *)
Theorem C16_leading_ws : forall sp l, all_space sp = true -> parse_line (sp ++ l)%string = parse_line l.
Proof. exact parse_line_lead_spaces. Qed.
Theorem C16_trailing_ws : forall l sp, all_space sp = true -> parse_line (l ++ sp)%string = parse_line l.
Proof. exact parse_line_trail_spaces. Qed.
Theorem C16_comment : forall l c, plain l = true -> parse_line (l ++ " // " ++ c)%string = parse_line l.
Proof. exact parse_line_comment. Qed.

Print Assumptions C16_dispatch_key.
Print Assumptions C16_dispatch_immediates.
Print Assumptions C16_integers.
Print Assumptions C16_roundtrip_bare.
Print Assumptions C16_roundtrip_gtxns.
Print Assumptions C16_comment.
