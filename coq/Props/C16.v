(* C16  Each source line parses to the instruction it denotes, and prints back.  Property theorems only.
   parser_rules (the ordered prefix list) and the printing formats are REGENERATED from parse_instruction.py /
   instructions.py on every run. *)
From Coq Require Import List String NArith.
From Tealer Require Import Tables Syntax Parse ParseLemmas.
Import ListNotations.
Open Scope list_scope.

(* no opcode is taken for another that shares a prefix: every key selects its own rule ... *)
Theorem C16_dispatch_key : forall key cls sh, In (key, (cls, sh)) parser_rules -> first_rule key parser_rules = Some (key, cls, sh).
Proof. exact dispatch_key. Qed.
(* ... also when followed by ANY immediate text (exception list = ["replace"], whose continuations "2 " / "3"
   are the opcodes replace2 / replace3 themselves) *)
Theorem C16_dispatch_immediates : forall key cls sh, In (key, (cls, sh)) parser_rules -> sh <> SNone ->
  ~ In key dispatch_exceptions -> forall rest, first_rule (key ++ rest)%string parser_rules = Some (key, cls, sh).
Proof. exact dispatch_partial. Qed.
Theorem C16_dispatch_exceptions : dispatch_exceptions = ["replace"%string].
Proof. reflexivity. Qed.

(* integers: decimal, hexadecimal and octal spellings of one number parse to that number *)
Theorem C16_integers : forall n,
  parse_int (string_of_N n) = Ok n /\ parse_int ("0x" ++ hex_of_N n)%string = Ok n /\ parse_int ("0" ++ oct_of_N n)%string = Ok n.
Proof. exact parse_int_spellings. Qed.

(* round trip: every immediate-free opcode of the table parses from its mnemonic and prints it back *)
Theorem C16_roundtrip_bare : forall key cls, In (key, (cls, SNone)) parser_rules ->
  parse_line key = Ok (Some (of_generic cls [])) /\ str_of_instr (of_generic cls []) = key.
Proof. exact roundtrip_all_bare. Qed.
Theorem C16_roundtrip_int : forall n, parse_line (str_of_instr (IInt (IANum n))) = Ok (Some (IInt (IANum n))).
Proof. exact roundtrip_int. Qed.
Theorem C16_roundtrip_txn : forall txt cls v, In (txt, (cls, v)) tx_fields ->
  parse_line (str_of_instr (ITxn (cls, None))) = Ok (Some (ITxn (cls, None))).
Proof. exact roundtrip_txn. Qed.
Theorem C16_roundtrip_gtxns : forall txt cls v, In (txt, (cls, v)) tx_fields ->
  parse_line (str_of_instr (IGtxns (cls, None))) = Ok (Some (IGtxns (cls, None))).
Proof. exact roundtrip_gtxns. Qed.
Theorem C16_roundtrip_branch : forall l, label_ok l = true -> parse_line (str_of_instr (IB l)) = Ok (Some (IB l)).
Proof. exact roundtrip_b. Qed.
Theorem C16_roundtrip_label : forall l, labeldef_ok l = true -> parse_line (str_of_instr (ILabel l)) = Ok (Some (ILabel l)).
Proof. exact roundtrip_label. Qed.
(* no rule's printed form starts with anything but its own key (was: gtxns, gtxnsa, gtxnas, gitxnas; repaired) *)

(* whitespace and comments do not change the result *)
Theorem C16_leading_ws : forall sp l, all_space sp = true -> parse_line (sp ++ l)%string = parse_line l.
Proof. exact parse_line_lead_spaces. Qed.
Theorem C16_trailing_ws : forall l sp, all_space sp = true -> parse_line (l ++ sp)%string = parse_line l.
Proof. exact parse_line_trail_spaces. Qed.
(* (l must not end with the token base64 / b64: after these keywords "// c" is base64 data, not a comment) *)
Theorem C16_comment : forall l c, plain l = true -> last_tok_b64 l = false ->
  parse_line (l ++ " // " ++ c)%string = parse_line l.
Proof. exact parse_line_comment. Qed.

Print Assumptions C16_dispatch_key.
Print Assumptions C16_dispatch_immediates.
Print Assumptions C16_integers.
Print Assumptions C16_roundtrip_bare.
Print Assumptions C16_roundtrip_gtxns.
Print Assumptions C16_comment.

(* ------------------------------------------------------------------------------------------------------------
   Extension (second round): theorems from Lemmas/{WalkLemmas,OutputLemmas,TypeExec,NoMiss2,ParseLemmas2,PaddingLemmas}.v *)
From Coq Require Import List String NArith ZArith Bool Arith.
From Tealer Require Import Tables Leaves LeafPrelude Syntax Parse Cfg StackAst Keys Analysis Domains Detect Group Output Runs Eval Exec InsExec Paths WalkLemmas OutputLemmas TypeExec NoMiss2 ParseLemmas2 PaddingLemmas.

(* array fields (all entries of the regenerated table, all indices) *)
Theorem C16_roundtrip_txna :
  forall (txt cls : string) (v : N),
       In (txt, (cls, v)) tx_array_fields ->
       forall n : N,
       parse_line (str_of_instr (IOther "Txna" (PField (cls, Some (Z.of_N n)) :: nil))) =
       Ok (Some (IOther "Txna" (PField (cls, Some (Z.of_N n)) :: nil))).
Proof. exact @roundtrip_txna. Qed.

Theorem C16_roundtrip_gtxna :
  forall (txt cls : string) (v : N),
       In (txt, (cls, v)) tx_array_fields ->
       forall i n : N,
       parse_line (str_of_instr (IOther "Gtxna" (PInt i :: PField (cls, Some (Z.of_N n)) :: nil))) =
       Ok (Some (IOther "Gtxna" (PInt i :: PField (cls, Some (Z.of_N n)) :: nil))).
Proof. exact @roundtrip_gtxna. Qed.

(* array index in decimal / hex / octal *)
Theorem C16_array_index_spellings :
  forall (txt cls : string) (v i n : N),
       In (txt, (cls, v)) tx_array_fields ->
       let x := Ok (Some (IOther "Txna" (PField (cls, Some (Z.of_N n)) :: nil))) in
       let y := Ok (Some (IOther "Gtxna" (PInt i :: PField (cls, Some (Z.of_N n)) :: nil))) in
       parse_line ("txna " ++ cls ++ " " ++ string_of_N n) = x /\
       parse_line ("txna " ++ cls ++ " " ++ "0x" ++ ParseLemmas.hex_of_N n) = x /\
       parse_line ("txna " ++ cls ++ " " ++ "0" ++ ParseLemmas.oct_of_N n) = x /\
       parse_line ("gtxna " ++ string_of_N i ++ " " ++ cls ++ " " ++ string_of_N n) = y /\
       parse_line ("gtxna " ++ ("0x" ++ ParseLemmas.hex_of_N i) ++ " " ++ cls ++ " " ++ "0" ++ ParseLemmas.oct_of_N n) = y /\
       parse_line ("gtxna " ++ ("0" ++ ParseLemmas.oct_of_N i) ++ " " ++ cls ++ " " ++ "0x" ++ ParseLemmas.hex_of_N n) = y.
Proof. exact @array_index_spellings. Qed.

(* byte literals (hex words, quoted strings, decoded base64/base32) *)
Theorem C16_roundtrip_byte :
  forall b : string, lit_tok b -> parse_line (str_of_instr (IOther "Byte" (PStr b :: nil))) = Ok (Some (IOther "Byte" (PStr b :: nil))).
Proof. exact @roundtrip_byte. Qed.

Theorem C16_roundtrip_bytecblock :
  forall l : list string,
       Forall lit_tok l -> parse_line (str_of_instr (IOther "Bytecblock" (PStrs l :: nil))) = Ok (Some (IOther "Bytecblock" (PStrs l :: nil))).
Proof. exact @roundtrip_bytecblock. Qed.

(* every byte-literal spelling parses, and its printed (normalised) form parses back to the same instruction *)
Theorem C16_bytes_parse_print_parse :
  forall (kw : string) (ts : list string) (b : string),
       kw = "byte" \/ kw = "pushbytes" ->
       Forall tok_ok ts ->
       byte_forms ts (b :: nil) -> exists i : instr, parse_line (join " " (kw :: ts)) = Ok (Some i) /\ parse_line (str_of_instr i) = Ok (Some i).
Proof. exact @bytes_parse_print_parse. Qed.

(* unknown opcodes are kept verbatim as unsupported *)
Theorem C16_unknown_verbatim :
  forall ts : list string,
       ts <> nil ->
       Forall tok_ok ts ->
       ParseLemmas.head_generic (hd "" ts) = true ->
       first_rule (join " " ts) parser_rules = None ->
       parse_line (join " " ts) = Ok (Some (IOther "UnsupportedInstruction" (PStr (join " " ts) :: nil))).
Proof. exact @unknown_verbatim. Qed.

(* named constants *)
Theorem C16_named_constants :
  forall (name : string) (n : N),
       In (name, n) transaction_type_to_tealer_type_names ->
       parse_line ("int " ++ name) = Ok (Some (IInt (IAName name))) /\
       parse_line ("pushint " ++ name) = Ok (Some (IPushInt (IAName name))) /\
       parse_line (str_of_instr (IInt (IAName name))) = Ok (Some (IInt (IAName name))) /\
       (forall intcs : option (list N), is_int_push_ins intcs (IInt (IAName name)) = IntName name) /\
       transaction_type_to_tealer_type (IntName name) = transaction_type_to_tealer_type (IntNum n) /\
       transaction_type_to_tealer_type (IntNum n) <> None /\ parse_line ("int " ++ string_of_N n) = Ok (Some (IInt (IANum n))).
Proof. exact @named_txn_type_line. Qed.

(* `method "sig"` prints with its quotes and parses back (was finding D10b: printed without quotes; repaired) *)
Theorem C16_method_roundtrip : forall body, body_ok body = true ->
  parse_line (str_of_instr (IOther "Method" [PStr (quoted body)])) = Ok (Some (IOther "Method" [PStr (quoted body)])).
Proof. exact @roundtrip_method. Qed.

(* a quoted byte string ending in an escaped backslash is accepted (was finding D26: rejected; repaired) *)
Theorem C16_quoted_backslash_accepted :
  parse_line ("byte " ++ quoted "a\\") = Ok (Some (IOther "Byte" [PStr (quoted "a\\")])).
Proof. exact @quoted_backslash_accepted. Qed.

Print Assumptions C16_roundtrip_txna.
Print Assumptions C16_roundtrip_gtxna.
Print Assumptions C16_array_index_spellings.
Print Assumptions C16_roundtrip_byte.
Print Assumptions C16_roundtrip_bytecblock.
Print Assumptions C16_bytes_parse_print_parse.
Print Assumptions C16_unknown_verbatim.
Print Assumptions C16_named_constants.
Print Assumptions C16_method_roundtrip.
Print Assumptions C16_quoted_backslash_accepted.

(* ------------------------------------------------------------------------------------------------------------
   Extension (third round) *)
From Coq Require Import List String NArith ZArith Bool Arith Permutation.
From Tealer Require Import Tables Leaves LeafPrelude Syntax Parse Cfg StackAst Keys Analysis Domains Detect Group Runs Eval Exec ExecLemmas GroupLemmas NoMiss NoMiss2 TypeExec GroupSem GroupSem2 Base64 ParseLemmas2 Base64Lemmas.

(* the base64 decoder is correct against an independent RFC 4648 specification (Spec/Base64.v), for byte strings of every length, padded *)
Theorem C16_base64_decoder_correct :
  forall bs : list N, is_bytes bs -> b64_decode (b64_encode bs) = ("0x" ++ hex_spec bs)%string.
Proof. exact @b64_decode_padded. Qed.

(* ... and unpadded *)
Theorem C16_base64_decoder_correct_unpadded :
  forall bs : list N, is_bytes bs -> b64_decode (b64_encode_nopad bs) = ("0x" ++ hex_spec bs)%string.
Proof. exact @b64_decode_nopad. Qed.

(* base32 likewise *)
Theorem C16_base32_decoder_correct :
  forall bs : list N, is_bytes bs -> b32_decode (b32_encode bs) = ("0x" ++ hex_spec bs)%string.
Proof. exact @b32_decode_padded. Qed.

(* a `byte base64 <X>` line parses to the hex form of the encoded bytes, for EVERY byte string and any number of `=`
   (the payload may contain `/` and `//`; it only has to be there: the empty payload is the line `byte base64`) *)
Theorem C16_base64_literal_is_its_bytes :
  forall (kw sp : string) (bs : list N) (n : nat),
       bytes1_kw kw ->
       sp = "base64" \/ sp = "b64" ->
       is_bytes bs ->
       (b64_encode_nopad bs ++ eqs n)%string <> ""%string ->
       parse_line (kw ++ " " ++ sp ++ " " ++ b64_encode_nopad bs ++ eqs n) = Ok (Some (IOther (bytes_cls kw) (PStr ("0x" ++ hex_spec bs) :: nil))).
Proof. exact @parse_base64_literal. Qed.

(* the parenthesised spelling, unconditionally *)
Theorem C16_base64_paren_literal_is_its_bytes :
  forall (kw sp : string) (bs : list N) (n : nat),
       bytes1_kw kw ->
       sp = "base64(" \/ sp = "b64(" ->
       is_bytes bs ->
       parse_line (kw ++ " " ++ sp ++ (b64_encode_nopad bs ++ eqs n) ++ ")") = Ok (Some (IOther (bytes_cls kw) (PStr ("0x" ++ hex_spec bs) :: nil))).
Proof. exact @parse_base64_paren_literal. Qed.

Theorem C16_base32_literal_is_its_bytes :
  forall (kw sp : string) (bs : list N) (n : nat),
       bytes1_kw kw ->
       sp = "base32" \/ sp = "b32" ->
       is_bytes bs ->
       bs <> nil ->
       parse_line (kw ++ " " ++ sp ++ " " ++ b32_encode_nopad bs ++ eqs n) = Ok (Some (IOther (bytes_cls kw) (PStr ("0x" ++ hex_spec bs) :: nil))).
Proof. exact @parse_base32_literal. Qed.

(* finding D30, repaired: a canonical base64 payload containing `//` (//8= for ff ff) is data, not a comment *)
Theorem C16_base64_literal_with_slashes :
  parse_line "byte base64 //8=" = Ok (Some (IOther "Byte" [PStr "0xffff"])).
Proof. exact fixed_b64_1. Qed.

(* generally: the canonical padded encoding of every non-empty byte string, and all three spellings of ff ff *)
Theorem C16_base64_literal_with_slashes_general :
  forall (kw sp : string) (bs : list N),
       bytes1_kw kw ->
       sp = "base64" \/ sp = "b64" ->
       is_bytes bs ->
       bs <> nil ->
       parse_line (kw ++ " " ++ sp ++ " " ++ b64_encode bs) = Ok (Some (IOther (bytes_cls kw) (PStr ("0x" ++ hex_spec bs) :: nil))).
Proof. exact @parse_base64_literal_padded. Qed.

Theorem C16_base64_literal_with_slashes_spellings :
  exists bs : list N,
         is_bytes bs /\
         b64_encode bs = "//8=" /\
         parse_line ("byte base64 " ++ b64_encode bs) = Ok (Some (IOther "Byte" (PStr "0xffff" :: nil))) /\
         parse_line ("byte base64(" ++ b64_encode bs ++ ")") = Ok (Some (IOther "Byte" (PStr "0xffff" :: nil))) /\
         parse_line ("byte 0x" ++ hex_spec bs) = Ok (Some (IOther "Byte" (PStr "0xffff" :: nil))).
Proof. exact @parse_base64_literal_slashes. Qed.

(* a comment after base64 data is still a comment; tokens with base64 data, in general *)
Theorem C16_base64_then_comment :
  parse_line "byte base64 //8= // c" = Ok (Some (IOther "Byte" [PStr "0xffff"])) /\
  parse_line "byte b64 AB// // c" = Ok (Some (IOther "Byte" [PStr "0x001fff"])) /\
  parse_line "bytecblock base64 //8= b64 AA//" = Ok (Some (IOther "Bytecblock" [PStrs ["0xffff"; "0x000fff"]])) /\
  parse_line "byte base64 // missing" = Err "ParseError: incorrect byte format".
Proof. split; [exact fixed_b64_2|split; [exact fixed_b64_4|split; [exact fixed_b64_5|exact fixed_b64_6]]]. Qed.
Theorem C16_tokens_with_base64_data :
  forall ts : list string, ts <> nil -> toks_ok ts -> parse_line (join " " ts) = ParseLemmas.parse_fields ts.
Proof. exact @parse_line_toks_b64. Qed.

Print Assumptions C16_base64_decoder_correct.
Print Assumptions C16_base64_decoder_correct_unpadded.
Print Assumptions C16_base32_decoder_correct.
Print Assumptions C16_base64_literal_is_its_bytes.
Print Assumptions C16_base32_literal_is_its_bytes.
Print Assumptions C16_base64_paren_literal_is_its_bytes.
Print Assumptions C16_base64_literal_with_slashes.
Print Assumptions C16_base64_literal_with_slashes_general.
Print Assumptions C16_base64_literal_with_slashes_spellings.
Print Assumptions C16_base64_then_comment.
Print Assumptions C16_tokens_with_base64_data.

(* ------------------------------------------------------------------------------------------------------------
   Extension (line front end regenerated): theorems from Lemmas/LineGenLemmas.v about Gen/LineGen.v, the translation
   of parse_instruction.py _split_instruction_into_tokens, _in_base64_literal, _parse_int, _parse_byte_arguments and
   the top of parse_line.  The _refuted statements record where the source and the hand-written model differ: only on
   lines the assembler rejects (a second parenthesis inside a parenthesised byte constant; signs, underscores and double
   prefixes in integer literals). *)
From Coq Require Import String List NArith ZArith Bool Arith.
From Tealer Require Import Tables Syntax Parse Cfg KeysGen LineGen ParseLemmas ParseLemmas2 LineGenLemmas.

(* the regenerated tokenizer is the model tokenizer on every string *)
Theorem C16_tokens_gen_eq :
      forall line : string, tokens_gen line = of_res (tokenize line).
Proof. exact @tokens_gen_eq. Qed.

(* with explicit loop fuel *)
Theorem C16_split_gen_eq :
      forall (wfuel : nat) (line : string),
       String.length (strip line) < wfuel ->
       split_instruction_into_tokens_gen wfuel line = of_res (tokenize line).
Proof. exact @split_instruction_into_tokens_gen_eq. Qed.

(* the base64 context test of the source *)
Theorem C16_in_base64_gen_eq :
      forall (fields : list string) (token : string),
       in_base64_literal_gen fields token = Some (in_b64 (last fields "") (rev_string token)).
Proof. exact @in_base64_literal_gen_eq. Qed.

(* token lists print and tokenize back, base64 data included *)
Theorem C16_tokens_gen_roundtrip :
      forall ts : list string, toks_ok ts -> tokens_gen (join " " ts) = Some ts.
Proof. exact @tokens_gen_toks_b64. Qed.

(* whatever the model integer parser accepts the source parser accepts with the same value *)
Theorem C16_parse_int_gen_complete :
      forall (x : string) (n : N), parse_int x = Ok n -> parse_int_gen x = Some (Z.of_N n).
Proof. exact @parse_int_gen_complete. Qed.

(* equality on plain spellings *)
Theorem C16_parse_int_gen_eq_partial :
      forall x : string, int_plain x = true -> parse_int_gen x = option_map Z.of_N (of_res (parse_int x)).
Proof. exact @parse_int_gen_eq_partial. Qed.

(* the source accepts more spellings than the model, none of them valid TEAL *)
Theorem C16_parse_int_gen_eq_refuted :
      exists (x : string) (z : Z), parse_int_gen x = Some z /\ of_res (parse_int x) = None.
Proof. exact @parse_int_gen_eq_refuted. Qed.

(* decimal, hex and octal spellings of every number *)
Theorem C16_parse_int_gen_spellings :
      forall n : N,
       parse_int_gen (string_of_N n) = Some (Z.of_N n) /\
       parse_int_gen ("0x" ++ hex_of_N n) = Some (Z.of_N n) /\
       parse_int_gen ("0" ++ oct_of_N n) = Some (Z.of_N n).
Proof. exact @parse_int_gen_spellings. Qed.

(* regenerated is_int *)
Theorem C16_is_int_gen_eq :
      forall x : string, is_int_gen x = Some (is_int x).
Proof. exact @is_int_gen_eq. Qed.

(* top of parse_line equals the model on every line whose byte arguments contain at most one parenthesis *)
Theorem C16_parse_line_gen_eq_partial :
      forall line : string, bytes_args_ok line -> parse_line_top line = of_res (parse_line line).
Proof. exact @parse_line_top_eq_partial. Qed.

(* in particular on every line that is not a byte-constant line *)
Theorem C16_parse_line_gen_eq_nonbytes :
      forall line : string,
       (forall (fs : list string) (f0 : string) (rest : list string),
        tokenize line = Ok fs -> strip_comment fs = f0 :: rest -> is_bytes_kw f0 = false) ->
       parse_line_top line = of_res (parse_line line).
Proof. exact @parse_line_top_eq_nonbytes. Qed.

(* the witness of the difference *)
Theorem C16_parse_line_gen_eq_refuted :
      exists line : string,
         parse_line_top line = Some (Some (IOther "Byte" (PStr "0x69b7" :: nil))) /\
         parse_line line = Ok (Some (IOther "Byte" (PStr "0x69b71d79" :: nil))) /\ line = "byte b64(abcd(ef)".
Proof. exact @parse_line_top_eq_refuted. Qed.

(* print then parse of an int instruction *)
Theorem C16_parse_line_gen_roundtrip_int :
      forall n : N, parse_line_top (str_of_instr (IInt (IANum n))) = Some (Some (IInt (IANum n))).
Proof. exact @parse_line_top_roundtrip_int. Qed.

(* blank lines *)
Theorem C16_parse_line_gen_blank :
      forall l : string, all_space l = true -> parse_line_top l = Some None.
Proof. exact @parse_line_top_blank. Qed.

(* byte arguments of the source *)
Theorem C16_byte_args_gen_eq_partial :
      forall (wfuel : nat) (fields : list string),
       Datatypes.length fields < wfuel ->
       Forall (fun x : string => lparen_once x = true) fields ->
       parse_byte_arguments_gen wfuel fields = of_res (parse_byte_args (S (Datatypes.length fields)) fields).
Proof. exact @parse_byte_arguments_gen_eq_partial. Qed.

(* and where they differ *)
Theorem C16_byte_args_gen_eq_refuted :
      exists fields : list string,
         parse_byte_arguments_gen 5 fields = Some ("0x69b7" :: nil) /\
         parse_byte_args 5 fields = Ok ("0x69b71d79" :: nil) /\ fields = "b64(abcd(ef)" :: nil.
Proof. exact @parse_byte_arguments_gen_eq_refuted. Qed.

Print Assumptions C16_tokens_gen_eq.
Print Assumptions C16_split_gen_eq.
Print Assumptions C16_in_base64_gen_eq.
Print Assumptions C16_tokens_gen_roundtrip.
Print Assumptions C16_parse_int_gen_complete.
Print Assumptions C16_parse_int_gen_eq_partial.
Print Assumptions C16_parse_int_gen_eq_refuted.
Print Assumptions C16_parse_int_gen_spellings.
Print Assumptions C16_is_int_gen_eq.
Print Assumptions C16_parse_line_gen_eq_partial.
Print Assumptions C16_parse_line_gen_eq_nonbytes.
Print Assumptions C16_parse_line_gen_eq_refuted.
Print Assumptions C16_parse_line_gen_roundtrip_int.
Print Assumptions C16_parse_line_gen_blank.
Print Assumptions C16_byte_args_gen_eq_partial.
Print Assumptions C16_byte_args_gen_eq_refuted.

(* ------------------------------------------------------------------------------------------------------------
   Extension: the per-rule immediate-argument parsers regenerated from the lambdas of parser_rules, handle_gtxn /
   handle_gtxna / handle_gtxnas and the parse_*_field functions (Gen/ShapeGen.v, exceptions read by class), from
   Lemmas/ShapeGenLemmas.v *)
From Coq Require Import List String NArith ZArith Bool Arith.
From Tealer Require Import Tables Syntax Parse KeysGen LineGen ShapeGen LineGenLemmas ShapeGenLemmas.

(* every rule of the regenerated table, in order, on EVERY argument string: the lambda = the model's parse_shape of
   the rule's shape read with Python's int() in place of parse_int (value or exception class) *)
Theorem C16_rule_lambdas_eq_w : Forall2 rule_agrees_w shape_rules_gen parser_rules.
Proof. exact shape_rules_gen_eq_w. Qed.
(* ... hence against Parse.parse_shape (lambda_spec): equal incl. the exception class where the integer tokens are
   plain and a lone first piece is an integer; equal up to the class where the integer tokens are plain; on every
   string the model never accepts more than the code, with the same immediates; the order condition is exact *)
Theorem C16_rule_lambdas_eq_partial : Forall2 rule_agrees shape_rules_gen parser_rules.
Proof. exact shape_rules_gen_eq_partial. Qed.
(* the witnesses of the difference: `load -1` (Python's int() accepts the sign), `gload zz` (ValueError / IndexError) *)
Theorem C16_rule_lambdas_eq_refuted :
  exists g, first_rule_gen "load -1" shape_rules_gen = Some ("load ", g) /\
    first_rule "load -1" parser_rules = Some ("load ", "Load", SInt) /\
    g "-1" = Val (VObj "Load" (VInt (-1) :: nil)) /\ model_rule "Load" SInt "-1" = None /\ ints_plain SInt "-1" = false.
Proof. exact shape_rules_gen_eq_refuted. Qed.
Theorem C16_rule_lambdas_class_refuted :
  exists g, first_rule_gen "gload zz" shape_rules_gen = Some ("gload ", g) /\
    first_rule "gload zz" parser_rules = Some ("gload ", "Gload", SInt2) /\
    g "zz" = Raise ValueError /\ model_rule_x "Gload" SInt2 "zz" = Raise IndexError /\
    ints_plain SInt2 "zz" = true /\ order_ok SInt2 "zz" = false.
Proof. exact shape_rules_gen_class_refuted. Qed.
(* the same through the dispatcher *)
Theorem C16_rule_dispatch_eq_partial : forall line key cls sh, first_rule line parser_rules = Some (key, cls, sh) ->
  exists g, first_rule_gen line shape_rules_gen = Some (key, g) /\ lambda_spec g cls sh.
Proof. exact shape_dispatch_eq_partial. Qed.
(* the instruction the regenerated parse_line builds through parse_shape is the object the lambda constructs *)
Theorem C16_apply_rule_backed : forall line key cls sh x ins,
  first_rule line parser_rules = Some (key, cls, sh) -> apply_rule (cls, sh) x = Some ins ->
  exists g ps, first_rule_gen line shape_rules_gen = Some (key, g) /\
    g x = Val (VObj cls (map embed_param ps)) /\ ins = new_instruction cls ps.
Proof. exact apply_rule_backed. Qed.
(* the model read with int() against the model, per shape *)
Theorem C16_parse_shape_w_eq_partial : forall sh x, ints_plain sh x = true -> order_ok sh x = true ->
  parse_shape_w sh x = mapx (map embed_param) (of_res_x (parse_shape sh x)).
Proof. exact parse_shape_w_eq_partial. Qed.
Theorem C16_parse_shape_w_erase_eq_partial : forall sh x, ints_plain sh x = true ->
  erase (parse_shape_w sh x) = option_map (map embed_param) (of_res (parse_shape sh x)).
Proof. exact parse_shape_w_erase_eq_partial. Qed.
Theorem C16_parse_shape_w_complete : forall sh x ps, parse_shape sh x = Ok ps -> parse_shape_w sh x = Val (map embed_param ps).
Proof. exact parse_shape_w_complete. Qed.
(* "the same immediates": the Python values determine the model's parameters among the results of one shape *)
Theorem C16_parse_shape_embed_inj : forall sh x x' ps ps', parse_shape sh x = Ok ps -> parse_shape sh x' = Ok ps' ->
  map embed_param ps = map embed_param ps' -> ps = ps'.
Proof. exact parse_shape_embed_inj. Qed.
(* _parse_int / _is_int translated with exception classes are the functions of Gen/LineGen.v *)
Theorem C16_parse_int_x_gen_raising : forall x, parse_int_x_gen x = raising ValueError (parse_int_gen x).
Proof. exact parse_int_x_gen_raising. Qed.
Theorem C16_is_int_x_gen_eq : forall x, is_int_x_gen x = Val (is_int x).
Proof. exact is_int_x_gen_eq. Qed.
(* the field parsers *)
Theorem C16_parse_transaction_field_gen_stack_eq : forall x,
  parse_transaction_field_gen x true = mapx embed_field (of_res_x (parse_tx_field x true)).
Proof. exact parse_transaction_field_gen_stack_eq. Qed.
Theorem C16_parse_transaction_field_gen_eq_partial : forall x, forallb int_plain (tx_int_args x) = true ->
  parse_transaction_field_gen x false = mapx embed_field (of_res_x (parse_tx_field x false)).
Proof. exact parse_transaction_field_gen_eq_partial. Qed.
Theorem C16_parse_transaction_field_gen_complete : forall x us f, parse_tx_field x us = Ok f ->
  parse_transaction_field_gen x us = Val (embed_field f).
Proof. exact parse_transaction_field_gen_complete. Qed.
Theorem C16_parse_transaction_field_gen_eq_refuted :
  exists x v, parse_transaction_field_gen x false = Val v /\ of_res (parse_tx_field x false) = None.
Proof. exact parse_transaction_field_gen_eq_refuted. Qed.
Theorem C16_parse_global_field_gen_eq : forall x,
  parse_global_field_gen x = mapx embed_field (of_res_x (parse_named_field global_fields x)).
Proof. exact parse_global_field_gen_eq. Qed.
Theorem C16_parse_asset_holding_field_gen_eq : forall x,
  parse_asset_holding_field_gen x = mapx embed_field (of_res_x (parse_named_field asset_holding_fields x)).
Proof. exact parse_asset_holding_field_gen_eq. Qed.
Theorem C16_parse_asset_params_field_gen_eq : forall x,
  parse_asset_params_field_gen x = mapx embed_field (of_res_x (parse_named_field asset_params_fields x)).
Proof. exact parse_asset_params_field_gen_eq. Qed.
Theorem C16_parse_app_params_field_gen_eq : forall x,
  parse_app_params_field_gen x = mapx embed_field (of_res_x (parse_named_field app_params_fields x)).
Proof. exact parse_app_params_field_gen_eq. Qed.
Theorem C16_parse_acct_params_field_gen_eq : forall x,
  parse_acct_params_field_gen x = mapx embed_field (of_res_x (parse_named_field acct_params_fields x)).
Proof. exact parse_acct_params_field_gen_eq. Qed.

Print Assumptions C16_rule_lambdas_eq_w.
Print Assumptions C16_rule_lambdas_eq_partial.
Print Assumptions C16_rule_lambdas_eq_refuted.
Print Assumptions C16_rule_lambdas_class_refuted.
Print Assumptions C16_rule_dispatch_eq_partial.
Print Assumptions C16_apply_rule_backed.
Print Assumptions C16_parse_shape_w_eq_partial.
Print Assumptions C16_parse_shape_w_erase_eq_partial.
Print Assumptions C16_parse_shape_w_complete.
Print Assumptions C16_parse_shape_embed_inj.
Print Assumptions C16_parse_int_x_gen_raising.
Print Assumptions C16_parse_transaction_field_gen_stack_eq.
Print Assumptions C16_parse_transaction_field_gen_eq_partial.
Print Assumptions C16_parse_transaction_field_gen_complete.
Print Assumptions C16_parse_transaction_field_gen_eq_refuted.
Print Assumptions C16_parse_global_field_gen_eq.
Print Assumptions C16_parse_acct_params_field_gen_eq.

(* ------------------------------------------------------------------------------------------------------------
   Extension: signed immediates.  `frame_dig i` / `frame_bury i` take an int8 in the AVM; the model reads the
   immediate of these two classes signed (Parse.parse_sint, parameter form PSInt) and of no other class; from
   Lemmas/SignedLemmas.v (and LineGenLemmas PART 7 for the regenerated _parse_int) *)
From Coq Require Import List String NArith ZArith Bool Arith.
From Tealer Require Import Tables Syntax Parse Cfg KeysGen LineGen ShapeGen LineGenLemmas ShapeGenLemmas SignedLemmas.

(* round trip for every integer immediate (no range condition; every int8 in particular) *)
Theorem C16_roundtrip_frame_dig : forall z, parse_line (str_of_instr (frame_dig z)) = Ok (Some (frame_dig z)).
Proof. exact roundtrip_frame_dig. Qed.
Theorem C16_roundtrip_frame_bury : forall z, parse_line (str_of_instr (frame_bury z)) = Ok (Some (frame_bury z)).
Proof. exact roundtrip_frame_bury. Qed.
Theorem C16_roundtrip_frame_int8 : forall z, (-128 <= z <= 127)%Z ->
  parse_line (str_of_instr (frame_dig z)) = Ok (Some (frame_dig z)) /\
  parse_line (str_of_instr (frame_bury z)) = Ok (Some (frame_bury z)).
Proof. exact roundtrip_frame_int8. Qed.
(* `frame_dig -k` / `frame_bury -k` denote the offset -k, for every k, and print back as written *)
Theorem C16_parse_frame_dig_neg : forall k,
  parse_line ("frame_dig -" ++ string_of_N k)%string = Ok (Some (frame_dig (Z.opp (Z.of_N k)))).
Proof. exact parse_frame_dig_neg. Qed.
Theorem C16_parse_frame_bury_neg : forall k,
  parse_line ("frame_bury -" ++ string_of_N k)%string = Ok (Some (frame_bury (Z.opp (Z.of_N k)))).
Proof. exact parse_frame_bury_neg. Qed.
Theorem C16_print_frame_neg : forall p,
  str_of_instr (frame_dig (Z.neg p)) = ("frame_dig -" ++ string_of_N (Npos p))%string /\
  str_of_instr (frame_bury (Z.neg p)) = ("frame_bury -" ++ string_of_N (Npos p))%string.
Proof. exact print_frame_neg. Qed.
Theorem C16_parse_frame_spellings : forall n,
  parse_line ("frame_dig " ++ string_of_N n)%string = Ok (Some (frame_dig (Z.of_N n))) /\
  parse_line ("frame_bury " ++ string_of_N n)%string = Ok (Some (frame_bury (Z.of_N n))).
Proof. exact parse_frame_dig_spellings. Qed.
Theorem C16_sint_spellings : forall n,
  parse_sint (string_of_N n) = Ok (Z.of_N n) /\ parse_sint ("0x" ++ hex_of_N n)%string = Ok (Z.of_N n) /\
  parse_sint ("0" ++ oct_of_N n)%string = Ok (Z.of_N n).
Proof. exact parse_sint_spellings. Qed.
(* the class data of the regenerated table is defined on the signed form, independently of the offset *)
Theorem C16_frame_dig_denotes : forall z v,
  cls_of (frame_dig z) = "FrameDig"%string /\ params_of (frame_dig z) = (PSInt z :: nil) /\
  stack_pop_size (frame_dig z) = Some 0 /\ stack_push_size (frame_dig z) = Some 1 /\
  ins_version (frame_dig z) = Some 8%N /\ ins_mode (frame_dig z) = Some MAny /\ ins_cost v (frame_dig z) = Some 1%N.
Proof. exact frame_dig_denotes. Qed.
Theorem C16_frame_bury_denotes : forall z v,
  cls_of (frame_bury z) = "FrameBury"%string /\ params_of (frame_bury z) = (PSInt z :: nil) /\
  stack_pop_size (frame_bury z) = Some 1 /\ stack_push_size (frame_bury z) = Some 1 /\
  ins_version (frame_bury z) = Some 8%N /\ ins_mode (frame_bury z) = Some MAny /\ ins_cost v (frame_bury z) = Some 1%N.
Proof. exact frame_bury_denotes. Qed.
(* the signed form is produced exactly for the two signed classes, on every line / program the parser accepts *)
Theorem C16_signed_rules :
  filter (fun r => signed_imm_class (fst (snd r))) parser_rules =
  (("frame_dig ", ("FrameDig", SInt)) :: ("frame_bury ", ("FrameBury", SInt)) :: nil)%string.
Proof. exact signed_rules. Qed.
Theorem C16_parse_line_signed_exact : forall line i, parse_line line = Ok (Some i) -> signed_spec i.
Proof. exact parse_line_signed_exact. Qed.
Theorem C16_parse_line_signed_only : forall line i z, parse_line line = Ok (Some i) -> In (PSInt z) (params_of i) ->
  cls_of i = "FrameDig"%string \/ cls_of i = "FrameBury"%string.
Proof. exact parse_line_signed_only. Qed.
Theorem C16_parse_line_frame_form : forall line i, parse_line line = Ok (Some i) ->
  (cls_of i = "FrameDig"%string -> exists z, i = frame_dig z) /\ (cls_of i = "FrameBury"%string -> exists z, i = frame_bury z).
Proof. exact parse_line_frame_form. Qed.
Theorem C16_parse_program_signed_exact : forall src p, parse_program src = Ok p -> forall i, In i p -> signed_spec (i_op i).
Proof. exact parse_program_signed_exact. Qed.
(* the regenerated _parse_int against parse_sint: equal on plainly spelled immediates, the model never accepts more *)
Theorem C16_parse_sint_gen_eq_partial : forall x, sint_plain x = true -> parse_int_gen x = of_res (parse_sint x).
Proof. exact parse_sint_gen_eq_partial. Qed.
Theorem C16_parse_sint_gen_complete : forall x z, parse_sint x = Ok z -> parse_int_gen x = Some z.
Proof. exact parse_sint_gen_complete. Qed.
(* the regenerated lambdas of the signed rules against parse_imm, through the dispatcher *)
Theorem C16_signed_dispatch_eq_partial : forall line key cls sh,
  first_rule line parser_rules = Some (key, cls, sh) -> signed_imm_class cls = true ->
  exists g, first_rule_gen line shape_rules_gen = Some (key, g) /\
    (forall x, sint_plain x = true -> g x = model_imm_x cls sh x) /\
    (forall x ps, parse_imm cls sh x = Ok ps -> g x = Val (VObj cls (map embed_param ps))).
Proof. exact signed_dispatch_eq_partial. Qed.
Theorem C16_signed_dispatch_eq_refuted :
  exists g, first_rule_gen "frame_dig -1_0" shape_rules_gen = Some ("frame_dig "%string, g) /\
    first_rule "frame_dig -1_0" parser_rules = Some ("frame_dig ", "FrameDig", SInt)%string /\
    g "-1_0"%string = Val (VObj "FrameDig" (VInt (-10) :: nil)) /\ model_imm_x "FrameDig" SInt "-1_0" = Raise ValueError /\
    sint_plain "-1_0" = false.
Proof. exact signed_dispatch_eq_refuted. Qed.

Print Assumptions C16_roundtrip_frame_dig.
Print Assumptions C16_roundtrip_frame_bury.
Print Assumptions C16_parse_frame_dig_neg.
Print Assumptions C16_parse_frame_bury_neg.
Print Assumptions C16_frame_dig_denotes.
Print Assumptions C16_parse_line_signed_exact.
Print Assumptions C16_parse_program_signed_exact.
Print Assumptions C16_parse_sint_gen_eq_partial.
Print Assumptions C16_parse_sint_gen_complete.
Print Assumptions C16_signed_dispatch_eq_partial.
