(* C09  Per-block fee bound is an upper bound on every approvable fee.
   Property theorems only; proofs live in Lemmas/.  The subjects (fee_union, fee_intersection,
   fee_get_asserted_max_value) are REGENERATED from tealer/analyses/dataflow/transaction_context/fee_field.py
   on every run (Gen/Leaves.v). *)
From Coq Require Import ZArith List Bool.
From Coq Require Import String.
From Tealer Require Import LeafPrelude Tables Leaves Syntax Keys Analysis Domains LeafLemmas Eval Runs Exec SingleLemmas ExecLemmas.

(* the chain lattice: gamma of a bound is the set of fees below it; union / intersection are exact *)
Theorem C09_union_exact : forall a b x, fee_gamma (fee_union a b) x <-> fee_gamma a x \/ fee_gamma b x.
Proof. exact fee_union_exact. Qed.
Theorem C09_intersection_exact : forall a b x, fee_gamma (fee_intersection a b) x <-> fee_gamma a x /\ fee_gamma b x.
Proof. exact fee_intersection_exact. Qed.

(* a single direct check: all six operators, every constant k, every uint64 fee x; true and false side *)
Theorem C09_single_check_sound_true : forall c k x, c <> COther -> (0 <= k)%Z -> (0 <= x <= MAX_UINT64z)%Z ->
  cmp_holds c x k = true -> fee_gamma (fst (fee_get_asserted_max_value c (mkFee false k))) x.
Proof. exact fee_cmp_sound_true. Qed.
Theorem C09_single_check_sound_false : forall c k x, c <> COther -> (0 <= k)%Z -> (0 <= x <= MAX_UINT64z)%Z ->
  cmp_holds c x k = false -> fee_gamma (snd (fee_get_asserted_max_value c (mkFee false k))) x.
Proof. exact fee_cmp_sound_false. Qed.

(* ... yields exactly the implied bound: the table, and tightness (the bound is the maximum satisfying fee) *)
Theorem C09_single_check_exact : forall c k, fee_get_asserted_max_value c (mkFee false k) = fee_cmp_expected c k.
Proof. exact fee_cmp_exact_bound. Qed.
Theorem C09_single_check_tight : forall c k side b, c <> COther -> (0 <= k)%Z ->
  fee_side side (fee_get_asserted_max_value c (mkFee false k)) = mkFee false b ->
  mkFee false b <> fee_universal_set ->
  (exists x, (0 <= x <= MAX_UINT64z)%Z /\ cmp_holds c x k = side) ->
  (0 <= b)%Z /\ cmp_holds c b k = side /\ (forall x, (0 <= x)%Z -> cmp_holds c x k = side -> (x <= b)%Z).
Proof. exact fee_cmp_tight. Qed.

(* mirrored operand order: `int k; txn Fee; op` is read as `Fee (mirror op) k` *)
Theorem C09_mirror : forall c x k, cmp_holds (mirror c) x k = cmp_holds c k x.
Proof. exact cmp_holds_mirror. Qed.

(* non-vacuity: a concrete check `Fee < 1000` bounds the fee by 999, `1000 < Fee` (mirrored) leaves it unbounded *)
Example C09_example : fst (fee_get_asserted_max_value CLess (mkFee false 1000)) = mkFee false 999
  /\ fst (fee_get_asserted_max_value (mirror CLess) (mkFee false 1000)) = fee_universal_set.
Proof. split; reflexivity. Qed.

(* END TO END (Spec/Exec.v): every concrete execution of the contract that approves the transaction -- any
   arity-respecting semantics of the opcodes outside the fragment, loops, shared / nested subroutines -- has
   Fee <= the bound the analysis reports for EVERY block it passes through.
   Hypotheses: graph_ok (mirror / coverage facts, C05_function_graph_wf establishes them for structured
   programs), fee_leaves_ok (every Fee comparison is against an integer constant known to the tool: the
   documented heuristic for other comparands is outside the claim), Accepts (ends at a `return`, every call
   returns: known findings D4 / D17 are exactly the excluded shapes). *)
Theorem C09_sound_end_to_end : forall e sem f fee bc fuel lo cfgs,
  sem_ok e sem -> env_ok e -> fn_intcs f = e_intcs e -> graph_ok f ->
  e_field e (e_own e) "Fee"%string = VInt fee -> (0 <= fee <= MAX_UINT64z)%Z ->
  fee_leaves_ok f KSelf ->
  init_constraints feeval fee_universal_set fee_null_set fee_union fee_intersection (fee_single (fn_intcs f) KSelf) f = Some bc ->
  solve feeval feeval_eqb fee_universal_set fee_null_set fee_union fee_intersection (fee_single (fn_intcs f) KSelf) f fuel bc = Done lo ->
  Accepts e sem f cfgs ->
  forall b st, In (b, st) cfgs -> exists v, Analysis.lookup feeval lo b = Some v /\ fee_gamma v fee.
Proof. exact C09_sound. Qed.

Print Assumptions C09_union_exact.
Print Assumptions C09_intersection_exact.
Print Assumptions C09_single_check_sound_true.
Print Assumptions C09_single_check_sound_false.
Print Assumptions C09_single_check_exact.
Print Assumptions C09_single_check_tight.
Print Assumptions C09_mirror.
Print Assumptions C09_sound_end_to_end.

(* ------------------------------------------------------------------------------------------------------------
   Extension (second round): exactness w.r.t. the LITERAL reading (Lemmas/ExactInstances.v).  `Lit lit f b` = some literal
   accepting path through block b admits the value: comparisons of the governed field against constants read exactly
   (`lit`), every other condition free; no domain, solver or fuel appears in it (Spec/Literal.v; the backward pass ignoring
   edge constraints, known finding D12, is reflected there). *)
From Coq Require Import List String NArith ZArith Bool Arith.
From Tealer Require Import Tables Leaves LeafPrelude Syntax Parse Cfg StackAst Keys Analysis Domains Detect Literal GraphWf ExecLemmas LeafLemmas ExactLemmas ExactInstances.

(* exact bound: a fee is within the reported bound iff some literal accepting path admits it *)
Theorem C09_exact :
  forall (f : func) (fam : keyfam) (bc : list (nat * feeval)) (fuel : nat) (lo : list (nat * feeval)) (x : Z),
       graph_wf f = true ->
       (0 < x <= MAX_UINT64z)%Z ->
       init_constraints feeval fee_universal_set fee_null_set fee_union fee_intersection (fee_single (fn_intcs f) fam) f = Some bc ->
       solve feeval feeval_eqb fee_universal_set fee_null_set fee_union fee_intersection (fee_single (fn_intcs f) fam) f fuel bc = Done lo ->
       forall b : nat, (exists v : feeval, lookup feeval lo b = Some v /\ fee_gamma v x) <-> Lit (fee_lit (fn_intcs f) fam x) f b.
Proof. exact @C09_result_exact. Qed.

(* a block is credited with a bound at or below 272000 only if no literal accepting path through it admits a larger fee *)
Theorem C09_credit_justified :
  forall (f : func) (fam : keyfam) (bc : list (nat * feeval)) (fuel : nat) (lo : list (nat * feeval)) (b : nat) (v : feeval),
       graph_wf f = true ->
       init_constraints feeval fee_universal_set fee_null_set fee_union fee_intersection (fee_single (fn_intcs f) fam) f = Some bc ->
       solve feeval feeval_eqb fee_universal_set fee_null_set fee_union fee_intersection (fee_single (fn_intcs f) fam) f fuel bc = Done lo ->
       lookup feeval lo b = Some v ->
       fee_credited v = true -> forall x : Z, (MAX_TRANSACTION_COSTz < x <= MAX_UINT64z)%Z -> ~ Lit (fee_lit (fn_intcs f) fam x) f b.
Proof. exact @C09_credit_justified. Qed.

(* ... hence only if a comparison of Fee constrains every accepting path through it (no accepting path made of fee-free conditions only) *)
Theorem C09_credit_needs_fee_comparison :
  forall (f : func) (fam : keyfam) (bc : list (nat * feeval)) (fuel : nat) (lo : list (nat * feeval)) (b : nat) (v : feeval),
       graph_wf f = true ->
       init_constraints feeval fee_universal_set fee_null_set fee_union fee_intersection (fee_single (fn_intcs f) fam) f = Some bc ->
       solve feeval feeval_eqb fee_universal_set fee_null_set fee_union fee_intersection (fee_single (fn_intcs f) fam) f fuel bc = Done lo ->
       lookup feeval lo b = Some v -> fee_credited v = true -> ~ LiveOut f (okb_nofee f fam) (oke_nofee f fam) b.
Proof. exact @C09_credit_needs_fee_comparison. Qed.

Print Assumptions C09_exact.
Print Assumptions C09_credit_justified.
Print Assumptions C09_credit_needs_fee_comparison.

(* ------------------------------------------------------------------------------------------------------------
   Extension (second round): the executions the theorems speak about are derived from a CFG-FREE, instruction-level
   concrete semantics (Spec/InsSem.v: program counter, return stack, data stack; data-determined bz/bnz), not defined on
   tealer's blocks: Lemmas/InsSemLemmas.v *)
From Coq Require Import List String NArith ZArith Bool Arith.
From Tealer Require Import Tables Leaves LeafPrelude Syntax Parse Cfg StackAst Keys Analysis Domains Detect Runs Eval Exec InsExec InsSem WalkLemmas ExecLemmas GraphWf NoMiss InsSemLemmas.

(* END TO END at instruction level: at EVERY configuration (pc, return stack, data stack) of a concrete approving execution the fee is within the bound reported for the block containing pc *)
Theorem C09_sound_instruction_level :
  forall (e : env) (sem : opsem) (p : prog) (t : teal) (fuel : nat) (res0 : fn_result) (fam : keyfam) (r : list (nat * feeval)) 
         (tx : N) (fee : Z) (tr : list dconfig),
       parse_teal p = Ok t ->
       sem_ok e sem ->
       env_ok e ->
       fn_intcs (whole_function t) = e_intcs e ->
       graph_ok (whole_function t) ->
       run_all (whole_function t) fuel = Done res0 ->
       In (fam, r) (r_fees res0) ->
       key_txn e fam = Some tx ->
       e_field e tx "Fee" = VInt fee ->
       (0 <= fee <= MAX_UINT64z)%Z ->
       fee_leaves_ok (whole_function t) fam ->
       match fam with
       | KAtIndex _ => fee_leaves_ok (whole_function t) KSelf /\ int_leaves_ok (whole_function t) true /\ int_leaves_ok (whole_function t) false
       | _ => True
       end ->
       IAccepts e sem p tr ->
       forall (pc : nat) (st : list nat) (cs : list cval),
       In (pc, st, cs) tr -> exists v : feeval, lookup feeval r (pc_block t pc) = Some v /\ LeafLemmas.fee_gamma v fee.
Proof. exact @run_all_fee_sound_ins. Qed.

Print Assumptions C09_sound_instruction_level.

(* ------------------------------------------------------------------------------------------------------------
   Extension (third round): the operand-order / constant-extraction WRAPPER of this domain is REGENERATED from the Python
   source (tools/translate_single.py -> Gen/SingleGen.v, in an exception monad) and proved equal to the model's wrapper on
   every comparison of table arity (Lemmas/SingleGenLemmas.v): an edit of the wrapper in /repo changes the subject of
   these theorems on the next run. *)
From Coq Require Import List String NArith ZArith Bool Arith.
From Tealer Require Import Tables Leaves LeafPrelude Syntax Parse Cfg StackAst Keys KeysGen SingleGen Analysis Domains Eval LeafLemmas SingleLemmas ExecLemmas TypeLemmas SingleGenLemmas.

Theorem C09_wrapper_regenerated :
  forall (intcs : option (list N)) (fam : keyfam) (op : instr) (pos : nat) (args : list sval),
       stack_pop_size op = Some (Datatypes.length args) -> fee_single_gen intcs fam op pos args = Some (fee_single intcs fam op pos args).
Proof. exact @fee_single_gen_eq_table. Qed.

(* single-leaf soundness stated for the regenerated wrapper *)
Theorem C09_wrapper_regenerated_sound :
  forall (e : env) (fam : keyfam) (op : instr) (pos : nat) (args : list sval) (t : N) (x : Z) (b : bool) (r : feeval * feeval),
       key_txn e fam = Some t ->
       e_field e t "Fee" = VInt x ->
       (0 <= x <= MAX_UINT64z)%Z ->
       const_compared (e_intcs e) fam "Fee" args ->
       leaf_truth e op args = Some b -> fee_single_gen (e_intcs e) fam op pos args = Some r -> fee_gamma (if b then fst r else snd r) x.
Proof. exact @fee_single_gen_sound. Qed.

(* the regenerated _mirrored_comparison is the mirror of the comparison *)
Theorem C09_mirror_regenerated :
  forall i : instr, cmpop_of (mirrored_comparison_gen i) = mirror (cmp_of i).
Proof. exact @mirrored_comparison_gen_mirror. Qed.

Print Assumptions C09_wrapper_regenerated.
Print Assumptions C09_wrapper_regenerated_sound.
Print Assumptions C09_mirror_regenerated.

(* ------------------------------------------------------------------------------------------------------------
   Extension (store round): FeeField._store_results and the BlockTransactionContext objects / accessors are REGENERATED
   (tools/translate_store.py -> Gen/StoreGen.v).  Lemmas/StoreGenLemmas.v: after the regenerated store every slot (b, fam)
   -- the context object that transaction_context(b) / .gtxn_context(i) / .absolute_context(i) / .relative_context(k)
   return -- holds max_fee / max_fee_unknown of the solver result of ITS OWN key key_of_fam "Fee" fam; nothing else changes. *)
From Tealer Require Import GraphGen SolverGen RunGen StoreGen RunGenLemmas StoreGenLemmas.

Theorem C09_store_results_regenerated :
  forall (f : func) (d : gdict feeval) (t : state ctxobj),
    (forall b, In b (function_blocks f) -> exists c, lookup ctxobj t b = Some c /\ ctx_shape c) ->
    (forall b fam, In b (function_blocks f) -> In fam all_fams -> bc_get d (key_of_fam "Fee" fam) b <> None) ->
    exists t', fee_store_results_gen f d t = Some t' /\
      (forall b, ~ In b (function_blocks f) -> lookup ctxobj t' b = lookup ctxobj t b) /\
      (forall b c, lookup ctxobj t b = Some c -> ctx_shape c -> exists c', lookup ctxobj t' b = Some c' /\ ctx_shape c') /\
      (forall b, In b (function_blocks f) -> forall fam, In fam all_fams -> exists v o,
         bc_get d (key_of_fam "Fee" fam) b = Some v /\ read_slot t b fam = Some o /\ read_slot t' b fam = Some (fee_upd v o)).
Proof. exact @fee_store_read_back. Qed.

Print Assumptions C09_store_results_regenerated.
