(* C15  Verdicts are invariant under meaning-preserving rewrites of the source.  Property theorems only.
   Per-rewrite theorems: integer spelling, whitespace / comments on a line (ParseLemmas); label renaming,
   comment lines, pushint / named constants (RewriteLemmas, added when present). *)
From Coq Require Import List String NArith.
From Tealer Require Import Tables Syntax Parse Cfg Keys Domains ParseLemmas RewriteLemmas.
Import ListNotations.
Open Scope list_scope.

(* an integer written in decimal, hex or octal is the same immediate *)
Theorem C15_integer_spelling : forall n,
  parse_int (string_of_N n) = Ok n /\ parse_int ("0x" ++ hex_of_N n)%string = Ok n /\ parse_int ("0" ++ oct_of_N n)%string = Ok n.
Proof. exact parse_int_spellings. Qed.
(* indentation, trailing blanks and a trailing comment do not change the parsed instruction *)
Theorem C15_indentation : forall sp l, all_space sp = true -> parse_line (sp ++ l)%string = parse_line l.
Proof. exact parse_line_lead_spaces. Qed.
Theorem C15_trailing_blanks : forall l sp, all_space sp = true -> parse_line (l ++ sp)%string = parse_line l.
Proof. exact parse_line_trail_spaces. Qed.
Theorem C15_trailing_comment : forall l c, plain l = true -> parse_line (l ++ " // " ++ c)%string = parse_line l.
Proof. exact parse_line_comment. Qed.
(* `int c` and `pushint c` are the same integer push for every analysis *)
Theorem C15_pushint : forall intcs a, is_int_push_ins intcs (IPushInt a) = is_int_push_ins intcs (IInt a).
Proof. reflexivity. Qed.

(* renaming labels (injective renaming): the whole parse result -- blocks, edges, retained instructions,
   subroutine structure, version, mode -- is the renamed original; errors are preserved *)
Theorem C15_label_renaming : forall s p, injective s ->
  parse_teal (rename_prog s p) = match parse_teal p with Ok t => Ok (rename_teal s t) | Err e => Err e end.
Proof. intros; apply parse_teal_rename_strong; assumption. Qed.
(* adding a comment line or a blank line only shifts line numbers *)
Theorem C15_comment_line : forall c l1 l2 n, ignorable c ->
  parse_lines (l1 ++ c :: l2) n = res_map (renumber (n + List.length l1)) (parse_lines (l1 ++ l2) n).
Proof. intros; apply parse_lines_insert; assumption. Qed.
(* ... and line numbers never influence the graph *)
Theorem C15_lines_irrelevant : forall p p', map i_op p' = map i_op p ->
  parse_teal p' = res_map (set_prog p') (parse_teal p).
Proof. intros; apply parse_teal_lines_irrelevant; assumption. Qed.
(* naming a transaction type / completion action by word or by number *)
Theorem C15_named_type_constants : forall name n, In (name, n) transaction_type_to_tealer_type_names ->
  transaction_type_to_tealer_type (IntName name) = transaction_type_to_tealer_type (IntNum n) /\
  transaction_type_to_tealer_type (IntNum n) <> None.
Proof. intros; apply named_type_constants; assumption. Qed.
Theorem C15_named_oncompletion_constants : forall name n, In (name, n) oncompletion_to_tealer_type_names ->
  oncompletion_to_tealer_type (IntName name) = oncompletion_to_tealer_type (IntNum n) /\
  oncompletion_to_tealer_type (IntNum n) <> None.
Proof. intros; apply named_oncompletion_constants; assumption. Qed.
(* `int c` -> entry-block intcblock + intc k *)
Theorem C15_intc : forall cs k c, nth_error cs (N.to_nat k) = Some c ->
  is_int_push_ins (Some cs) (IIntc k) = IntNum c /\ is_int_push_ins (Some cs) (IIntcK k) = IntNum c.
Proof. intros cs k c H. destruct (is_int_push_intc cs k c H) as [A [B _]]. split; assumption. Qed.

Print Assumptions C15_integer_spelling.
Print Assumptions C15_trailing_comment.
Print Assumptions C15_pushint.
Print Assumptions C15_label_renaming.
Print Assumptions C15_comment_line.
Print Assumptions C15_lines_irrelevant.
Print Assumptions C15_named_type_constants.
