(* C15  Verdicts are invariant under meaning-preserving rewrites of the source.  Property theorems only.
   Per-rewrite theorems: integer spelling, whitespace / comments on a line (ParseLemmas); label renaming,
   comment lines, pushint / named constants (RewriteLemmas, added when present). *)
From Coq Require Import List String NArith.
From Tealer Require Import Tables Syntax Parse Cfg Keys Domains ParseLemmas RewriteLemmas.
Import ListNotations.
Open Scope list_scope.

(* an integer written in decimal, hex or octal is the same immediate *)
Theorem C15_integer_spelling : forall n,
  parse_int (string_of_N n) = Ok n /\ parse_int ("0x" ++ hex_of_N n)%string = Ok n /\ parse_int ("0" ++ oct_of_N n)%string = Ok n.
Proof. exact parse_int_spellings. Qed.
(* indentation, trailing blanks and a trailing comment do not change the parsed instruction *)
Theorem C15_indentation : forall sp l, all_space sp = true -> parse_line (sp ++ l)%string = parse_line l.
Proof. exact parse_line_lead_spaces. Qed.
Theorem C15_trailing_blanks : forall l sp, all_space sp = true -> parse_line (l ++ sp)%string = parse_line l.
Proof. exact parse_line_trail_spaces. Qed.
(* (l must not end with the token base64 / b64: after these keywords "// c" is base64 data, not a comment) *)
Theorem C15_trailing_comment : forall l c, plain l = true -> last_tok_b64 l = false ->
  parse_line (l ++ " // " ++ c)%string = parse_line l.
Proof. exact parse_line_comment. Qed.
(* `int c` and `pushint c` are the same integer push for every analysis *)
Theorem C15_pushint : forall intcs a, is_int_push_ins intcs (IPushInt a) = is_int_push_ins intcs (IInt a).
Proof. reflexivity. Qed.

(* renaming labels (injective renaming): the whole parse result -- blocks, edges, retained instructions,
   subroutine structure, version, mode -- is the renamed original; errors are preserved *)
Theorem C15_label_renaming : forall s p, injective s ->
  parse_teal (rename_prog s p) = match parse_teal p with Ok t => Ok (rename_teal s t) | Err e => Err e end.
Proof. intros; apply parse_teal_rename_strong; assumption. Qed.
(* adding a comment line or a blank line only shifts line numbers *)
Theorem C15_comment_line : forall c l1 l2 n, ignorable c ->
  parse_lines (l1 ++ c :: l2) n = res_map (renumber (n + List.length l1)) (parse_lines (l1 ++ l2) n).
Proof. intros; apply parse_lines_insert; assumption. Qed.
(* ... and line numbers never influence the graph *)
Theorem C15_lines_irrelevant : forall p p', map i_op p' = map i_op p ->
  parse_teal p' = res_map (set_prog p') (parse_teal p).
Proof. intros; apply parse_teal_lines_irrelevant; assumption. Qed.
(* naming a transaction type / completion action by word or by number *)
Theorem C15_named_type_constants : forall name n, In (name, n) transaction_type_to_tealer_type_names ->
  transaction_type_to_tealer_type (IntName name) = transaction_type_to_tealer_type (IntNum n) /\
  transaction_type_to_tealer_type (IntNum n) <> None.
Proof. intros; apply named_type_constants; assumption. Qed.
Theorem C15_named_oncompletion_constants : forall name n, In (name, n) oncompletion_to_tealer_type_names ->
  oncompletion_to_tealer_type (IntName name) = oncompletion_to_tealer_type (IntNum n) /\
  oncompletion_to_tealer_type (IntNum n) <> None.
Proof. intros; apply named_oncompletion_constants; assumption. Qed.
(* `int c` -> entry-block intcblock + intc k *)
Theorem C15_intc : forall cs k c, nth_error cs (N.to_nat k) = Some c ->
  is_int_push_ins (Some cs) (IIntc k) = IntNum c /\ is_int_push_ins (Some cs) (IIntcK k) = IntNum c.
Proof. intros cs k c H. destruct (is_int_push_intc cs k c H) as [A [B _]]. split; assumption. Qed.

Print Assumptions C15_integer_spelling.
Print Assumptions C15_trailing_comment.
Print Assumptions C15_pushint.
Print Assumptions C15_label_renaming.
Print Assumptions C15_comment_line.
Print Assumptions C15_lines_irrelevant.
Print Assumptions C15_named_type_constants.

(* ------------------------------------------------------------------------------------------------------------
   Extension (second round): theorems from Lemmas/{WalkLemmas,OutputLemmas,TypeExec,NoMiss2,ParseLemmas2,PaddingLemmas}.v *)
From Coq Require Import List String NArith ZArith Bool Arith.
From Tealer Require Import Tables Leaves LeafPrelude Syntax Parse Cfg StackAst Keys Analysis Domains Detect Group Output Runs Eval Exec InsExec Paths WalkLemmas OutputLemmas TypeExec NoMiss2 ParseLemmas2 PaddingLemmas.

(* stack-neutral padding (checked by neutral_pad over the regenerated arities) inserted between statements: the operand trees of all other instructions are the same up to the shift of positions *)
Theorem C15_padding :
  forall (P1 PAD P2 : prog) (prepos postpos : list nat) (ast : list (nat * instr * list sval)),
       neutral_pad (map i_op PAD) = true ->
       emulate (P1 ++ P2) (prepos ++ postpos) nil = Some ast ->
       exists astpad : list (nat * instr * list sval),
         emulate (P1 ++ PAD ++ P2)
           (map (shift_pos (Datatypes.length P1) (Datatypes.length PAD)) prepos ++
            seq (Datatypes.length P1) (Datatypes.length PAD) ++ map (shift_pos (Datatypes.length P1) (Datatypes.length PAD)) postpos) nil =
         Some
           (map (shift_entry (shift_pos (Datatypes.length P1) (Datatypes.length PAD))) (firstn (Datatypes.length prepos) ast) ++
            astpad ++ map (shift_entry (shift_pos (Datatypes.length P1) (Datatypes.length PAD))) (skipn (Datatypes.length prepos) ast)) /\
         map StackLemmas.pos_of astpad = seq (Datatypes.length P1) (Datatypes.length PAD).
Proof. exact @padding_emulate. Qed.

(* ... hence every asserted / branched-on condition is the same tree up to the shift *)
Theorem C15_padding_conditions :
  forall (P1 PAD P2 : prog) (prepos postpos : list nat) (ast ast' : list (nat * instr * list sval)),
       neutral_pad (map i_op PAD) = true ->
       emulate (P1 ++ P2) (prepos ++ postpos) nil = Some ast ->
       emulate (P1 ++ PAD ++ P2)
         (map (shift_pos (Datatypes.length P1) (Datatypes.length PAD)) prepos ++
          seq (Datatypes.length P1) (Datatypes.length PAD) ++ map (shift_pos (Datatypes.length P1) (Datatypes.length PAD)) postpos) nil = 
       Some ast' ->
       forall (k : nat) (v : sval) (rest : list sval),
       args_of ast k = Some (v :: rest) ->
       exists v' : sval,
         args_of ast' (shift_pos (Datatypes.length P1) (Datatypes.length PAD) k) =
         Some (v' :: map (shift_sval (shift_pos (Datatypes.length P1) (Datatypes.length PAD))) rest) /\
         v' = shift_sval (shift_pos (Datatypes.length P1) (Datatypes.length PAD)) v /\
         cond_of v' = shift_cond (shift_pos (Datatypes.length P1) (Datatypes.length PAD)) (cond_of v).
Proof. exact @padding_cond_of. Qed.

Theorem C15_neutral_pad_sufficient :
  forall (p : prog) (ops : list instr) (a : nat),
       neutral_pad ops = true ->
       (forall j : nat, j < Datatypes.length ops -> op_at p (a + j) = nth_error ops j) ->
       forall st : sstack,
       exists r : list (nat * instr * list sval),
         emulate p (seq a (Datatypes.length ops)) st = Some r /\
         map StackLemmas.pos_of r = seq a (Datatypes.length ops) /\
         (forall rest : list nat, emulate p (seq a (Datatypes.length ops) ++ rest) st = option_map (app r) (emulate p rest st)).
Proof. exact @neutral_pad_sufficient. Qed.

(* `dup; pop` is NOT a meaning-preserving pad for the tool: it replaces the value beneath by a dup node (the checker rejects it) *)
Theorem C15_dup_pop_is_not_neutral_refuted :
  exists ast ast' : list (nat * instr * list sval),
         emulate (ex_P1 ++ ex_P2) (0 :: 1 :: nil) nil = Some ast /\
         emulate (ex_P1 ++ ex_PAD_dup ++ ex_P2) (0 :: 1 :: 2 :: 3 :: nil) nil = Some ast' /\
         args_of ast 1 = Some (SKnown (IInt (IANum 1)) 0 nil 0 :: nil) /\
         args_of ast' (shift_pos 1 2 1) = Some (SKnown i_dup 1 (SKnown (IInt (IANum 1)) 0 nil 0 :: nil) 0 :: nil) /\
         args_of ast' (shift_pos 1 2 1) <> option_map (map (shift_sval (shift_pos 1 2))) (args_of ast 1) /\
         (forall v v' : sval,
          args_of ast 1 = Some (v :: nil) ->
          args_of ast' (shift_pos 1 2 1) = Some (v' :: nil) -> cond_of v' <> shift_cond (shift_pos 1 2) (cond_of v)).
Proof. exact @dup_pop_padding_refuted. Qed.

Print Assumptions C15_padding.
Print Assumptions C15_padding_conditions.
Print Assumptions C15_neutral_pad_sufficient.
Print Assumptions C15_dup_pop_is_not_neutral_refuted.

(* ------------------------------------------------------------------------------------------------------------
   Extension (integer-constant resolution regenerated: Lemmas/ConstsGenLemmas.v about Gen/ConstsGen.v, the translation of utils/analyses.py is_int_push_ins, Teal.get_int_constant, parse_teal.py _fill_intc_bytec_info) *)
From Coq Require Import String List NArith ZArith Bool Arith.
From Tealer Require Import Tables Syntax Parse Cfg StackAst Keys KeysGen CfgGen Analysis GraphGen SolverGen Domains ConstsGen CfgLemmas SubLemmas RewriteLemmas CfgGenLemmas LeafPrelude Leaves LeafLemmas AssertedLemmas Instances SolverLemmas Eval Runs Exec SingleLemmas ExecLemmas SolverGenLemmas ExactInstances ConstsGenLemmas.

(* regenerated is_int_push_ins with Teal.get_int_constant equals the model on every instruction the parser can build *)
Theorem C15_is_int_push_gen_eq :
      forall (intcs : option (list N)) (bytecs : list string) (op : instr),
       intck_ok op ->
       is_int_push_ins_gen
         (contract_ins {| to_int_constants := consts_of intcs; to_byte_constants := bytecs |} op) =
       Some (is_int_push_ins intcs op).
Proof. exact @is_int_push_ins_gen_eq. Qed.

(* on the Teal object the regenerated parse pipeline builds for a parsed contract *)
Theorem C15_is_int_push_gen_parse_teal :
      forall (p : prog) (t : teal) (bs : list block) (ih : ins_heap) (tl : tealobj) (op : instr),
       parse_teal p = Ok t ->
       build_blocks p = Some bs ->
       (forall k : nat, k < Datatypes.length p -> ins_attr_bb ih k = bb_of_pos bs k) ->
       parse_teal_int_constants_gen p ih (seq 0 (Datatypes.length bs)) = Some tl ->
       intck_ok op -> is_int_push_ins_gen (contract_ins tl op) = Some (is_int_push_ins (t_intcs t) op).
Proof. exact @is_int_push_ins_gen_parse_teal. Qed.

(* intc k, intc_k and int c read the same constant *)
Theorem C15_intc_regenerated :
      forall (cs : list N) (bytecs : list string) (k c : N),
       nth_error cs (N.to_nat k) = Some c ->
       is_int_push_ins_gen (contract_ins {| to_int_constants := cs; to_byte_constants := bytecs |} (IIntc k)) =
       Some (IntNum c) /\
       ((k <= 3)%N ->
        is_int_push_ins_gen
          (contract_ins {| to_int_constants := cs; to_byte_constants := bytecs |} (IIntcK k)) =
        Some (IntNum c)) /\
       is_int_push_ins_gen (contract_ins {| to_int_constants := cs; to_byte_constants := bytecs |} (IIntc k)) =
       is_int_push_ins_gen
         (contract_ins {| to_int_constants := cs; to_byte_constants := bytecs |} (IInt (IANum c))).
Proof. exact @C15_intc_regenerated. Qed.

(* pushint and int agree *)
Theorem C15_pushint_regenerated :
      forall (tl : tealobj) (a : intarg),
       is_int_push_ins_gen (contract_ins tl (IPushInt a)) = is_int_push_ins_gen (contract_ins tl (IInt a)).
Proof. exact @C15_pushint_regenerated. Qed.

(* named constants stay symbolic *)
Theorem C15_named_constant_regenerated :
      forall (tl : tealobj) (s : string) (n : N),
       is_int_push_ins_gen (contract_ins tl (IInt (IAName s))) = Some (IntName s) /\
       is_int_push_ins_gen (contract_ins tl (IInt (IANum n))) = Some (IntNum n).
Proof. exact @C15_named_constant_symbolic_regenerated. Qed.

(* the constant block is used exactly when there is one intcblock and it sits in the entry block *)
Theorem C15_constant_block_regenerated :
      forall (p : prog) (bs : list block) (ih : ins_heap) (tl : tealobj),
       build_blocks p = Some bs ->
       p <> nil ->
       (forall k : nat, k < Datatypes.length p -> ins_attr_bb ih k = bb_of_pos bs k) ->
       parse_teal_int_constants_gen p ih (seq 0 (Datatypes.length bs)) = Some tl ->
       (Datatypes.length (pt_intcblocks p) <> 1 ->
        forall k : N, is_int_push_ins_gen (contract_ins tl (IIntc k)) = Some IntUnknown) /\
       (forall (pos : nat) (cs : list N),
        pt_intcblocks p = (pos, cs) :: nil ->
        bb_of_pos bs pos <> Some 0 ->
        forall k : N, is_int_push_ins_gen (contract_ins tl (IIntc k)) = Some IntUnknown) /\
       (forall (pos : nat) (cs : list N),
        pt_intcblocks p = (pos, cs) :: nil ->
        bb_of_pos bs pos = Some 0 ->
        forall k c : N,
        nth_error cs (N.to_nat k) = Some c ->
        is_int_push_ins_gen (contract_ins tl (IIntc k)) = Some (IntNum c)).
Proof. exact @C15_constant_block_unique_regenerated. Qed.

(* first pass, block construction, pruning and _fill_intc_bytec_info regenerated from the source, composed: the int constants of the model *)
Theorem C15_int_constants_pipeline :
      forall (p : prog) (t : teal),
       parse_teal p = Ok t ->
       exists (ih : ins_heap) (bh : block_heap) (subs0 : list sub_row) (bh' : block_heap) 
       (ih' : ins_heap),
         passes_gen p = Some ih /\
         build_gen p = Some bh /\
         prune_unreachable_gen (seq 0 (Datatypes.length bh)) (reachable_of bh subs0)
           (seq 0 (Datatypes.length p)) bh (bb_assign_bs p ih) = Some (t_retained_ins t, bh', ih') /\
         option_map to_int_constants (parse_teal_int_constants_gen p ih' (seq 0 (Datatypes.length bh))) =
         Some (consts_of (t_intcs t)).
Proof. exact @parse_teal_int_constants_gen_pipeline. Qed.

Print Assumptions C15_is_int_push_gen_eq.
Print Assumptions C15_is_int_push_gen_parse_teal.
Print Assumptions C15_intc_regenerated.
Print Assumptions C15_pushint_regenerated.
Print Assumptions C15_named_constant_regenerated.
Print Assumptions C15_constant_block_regenerated.
Print Assumptions C15_int_constants_pipeline.

(* ------------------------------------------------------------------------------------------------------------
   Extension (moving whole subroutine bodies, layer 1: isomorphism invariance of the analysis and the search;
   Lemmas/IsoLemmas.v, non-vacuity on two parsed programs in Lemmas/IsoEx.v) *)
From Coq Require Import String List NArith ZArith Bool Arith.
From Tealer Require Import Tables LeafPrelude Leaves Syntax Parse Cfg StackAst Keys Analysis Domains Detect IsoLemmas IsoEx.

(* two functions isomorphic via a block renaming r and a position renaming g: for every fuel the analysis result of f'
   is the renamed result of f (exceptions / fuel exhaustion included), every context and validation verdict at r b is
   the one at b, and every detector returns exactly the r-images of the paths, in the same order *)
Theorem C15_isomorphic_functions :
  forall (r g : nat -> nat) (f f' : func), fiso r g f f' -> forall fuel : nat,
  run_all f' fuel = omap (ren_result r) (run_all f fuel) /\
  forall res : fn_result,
    (forall b fam, ctx_of (ren_result r res) (r b) fam = ctx_of res b fam) /\
    (forall b checks ai, validated_in_block (ren_result r res) checks ai (r b) = validated_in_block res checks ai b) /\
    (forall fuel' name checks,
       run_detector f' (ren_result r res) fuel' name checks =
       omap (ren_paths r) (run_detector f res fuel' name checks)).
Proof. exact iso_verdicts. Qed.

(* verdict reading: same number of paths, "some path" / "no path" identical *)
Theorem C15_isomorphic_verdict :
  forall (r g : nat -> nat) (f f' : func) (fuel fuel' : nat) (res : fn_result) (name : string)
         (checks : bctx -> bool) (ps : list (list nat)),
  fiso r g f f' ->
  run_all f fuel = Done res -> run_detector f res fuel' name checks = Done ps ->
  exists res' ps',
    run_all f' fuel = Done res' /\ run_detector f' res' fuel' name checks = Done ps' /\
    ps' = map (map r) ps /\ (ps' = nil <-> ps = nil) /\ Datatypes.length ps' = Datatypes.length ps /\
    (forall b fam, ctx_of res' (r b) fam = ctx_of res b fam).
Proof. exact iso_verdict. Qed.

Theorem C15_isomorphic_verdict_conv :
  forall (r g : nat -> nat) (f f' : func) (fuel fuel' : nat) (res' : fn_result) (name : string)
         (checks : bctx -> bool) (ps' : list (list nat)),
  fiso r g f f' ->
  run_all f' fuel = Done res' -> run_detector f' res' fuel' name checks = Done ps' ->
  exists res ps,
    run_all f fuel = Done res /\ run_detector f res fuel' name checks = Done ps /\
    res' = ren_result r res /\ ps' = map (map r) ps.
Proof. exact iso_verdict_conv. Qed.

(* the isomorphism is decidable up to injectivity of the renamings: the model's check *)
Theorem C15_iso_check_sound :
  forall (r g : nat -> nat) (f f' : func),
  (forall x y, r x = r y -> x = y) -> (forall x y, g x = g y -> x = y) ->
  iso_check r g f f' = true -> fiso r g f f'.
Proof. exact iso_check_sound. Qed.

(* two parsed programs that differ by moving a subroutine body are accepted, and the reported path moves with it *)
Theorem C15_moved_subroutine_example :
  fiso ie_r ie_g ie_f ie_f' /\
  run_all ie_f 100 = Done ie_res /\ run_all ie_f' 100 = Done (ren_result ie_r ie_res).
Proof. exact (conj ie_fiso (conj ie_run_all ie_run_all')). Qed.

Print Assumptions C15_isomorphic_functions.
Print Assumptions C15_isomorphic_verdict.
Print Assumptions C15_isomorphic_verdict_conv.
Print Assumptions C15_iso_check_sound.
Print Assumptions C15_moved_subroutine_example.

(* ------------------------------------------------------------------------------------------------------------
   Extension (moving whole subroutine bodies, layer 2: the parse level; Lemmas/MoveSubLemmas.v, example in
   Lemmas/MoveSubEx.v).  p = M ++ S1 ++ S2 ++ R, p' = M ++ S2 ++ S1 ++ R, g = the induced position shift. *)
From Tealer Require Import MoveSubLemmas MoveSubEx.

(* instruction level, every program: opcodes, label table, Instruction.next (default successor first, then the jump
   targets in order) and the bz/bnz next-line test of p' are the g-images of those of p *)
Theorem C15_move_instruction_graph :
  forall M S1 S2 R : prog, movable M S1 S2 = true ->
  (forall k, op_at (mv_p' M S1 S2 R) (mv_g M S1 S2 k) = op_at (mv_p M S1 S2 R) k) /\
  (forall l, find_label (mv_p' M S1 S2 R) l = option_map (mv_g M S1 S2) (find_label (mv_p M S1 S2 R) l)) /\
  (forall k, ins_next (mv_p' M S1 S2 R) (mv_g M S1 S2 k) = option_map (map (mv_g M S1 S2)) (ins_next (mv_p M S1 S2 R) k)) /\
  (forall br k, op_at (mv_p M S1 S2 R) k = Some br ->
     branch_to_next (mv_p' M S1 S2 R) br (mv_g M S1 S2 k) = branch_to_next (mv_p M S1 S2 R) br k).
Proof.
  intros M S1 S2 R H.
  exact (conj (mv_op_at M S1 S2 R) (conj (mv_find_label M S1 S2 R H) (conj (mv_ins_next M S1 S2 R H) (mv_branch_to_next M S1 S2 R H)))).
Qed.

(* a label defined in both moved bodies breaks it (the last definition wins) *)
Theorem C15_move_duplicate_label_refuted :
  exists M S1 S2 R l,
    ends_nf M = true /\ ends_nf S1 = true /\ ends_nf S2 = true /\ S1 <> nil /\ S2 <> nil /\
    labs_disjoint S1 S2 = false /\
    find_label (mv_p' M S1 S2 R) l <> option_map (mv_g M S1 S2) (find_label (mv_p M S1 S2 R) l).
Proof. exact mv_find_label_refuted. Qed.

(* block level: whenever the model's graph check accepts the two parsed contracts under the block renaming computed
   from the block scan of p, contexts, validation and the path lists of all detectors coincide, for every fuel *)
Theorem C15_move_subroutine_partial :
  forall (M S1 S2 R : prog) (t t' : teal),
  movable M S1 S2 = true ->
  parse_teal (mv_p M S1 S2 R) = Ok t -> parse_teal (mv_p' M S1 S2 R) = Ok t' ->
  iso_check_graph (mv_r M S1 S2 R) (mv_g M S1 S2) (whole_function t) (whole_function t') = true ->
  let r := mv_r M S1 S2 R in
  fiso r (mv_g M S1 S2) (whole_function t) (whole_function t') /\
  forall fuel,
  run_all (whole_function t') fuel = omap (ren_result r) (run_all (whole_function t) fuel) /\
  forall res,
    (forall b fam, ctx_of (ren_result r res) (r b) fam = ctx_of res b fam) /\
    (forall b checks ai, validated_in_block (ren_result r res) checks ai (r b) = validated_in_block res checks ai b) /\
    (forall fuel' name checks,
       run_detector (whole_function t') (ren_result r res) fuel' name checks =
       omap (ren_paths r) (run_detector (whole_function t) res fuel' name checks)).
Proof. exact move_sub_verdicts_partial. Qed.

Theorem C15_move_subroutine_example :
  movable mx_M mx_S1 mx_S2 = true /\
  iso_check_graph (mv_r mx_M mx_S1 mx_S2 nil) (mv_g mx_M mx_S1 mx_S2) (whole_function ie_t) (whole_function mx_t') = true.
Proof. exact (conj mx_movable mx_check). Qed.

Print Assumptions C15_move_instruction_graph.
Print Assumptions C15_move_duplicate_label_refuted.
Print Assumptions C15_move_subroutine_partial.
Print Assumptions C15_move_subroutine_example.

(* ------------------------------------------------------------------------------------------------------------
   Extension (weak isomorphism: predecessor lists as SETS; Lemmas/IsoWeak.v, Lemmas/IsoWeakEx.v).  The in-order
   check rejects a movable pair in which one block has jump predecessors in both moved bodies (m3_rejected).  The
   weak relation fiso_w asks for the predecessor lists only as sets (successors, block order, subroutine order still
   in order).  The path search does not read predecessor lists; the solver's result is a least fixpoint, so it is
   the same up to the domain's equality. *)
From Coq Require Import String List NArith ZArith Bool Arith.
From Tealer Require Import SolverLemmas GraphWf PaddingLemmas IsoWeak IsoWeakEx.

(* the boolean check is sound; the in-order relation is the special case *)
Theorem C15_weak_iso_check_sound :
  forall (r g : nat -> nat) (f f' : func),
  (forall x y, r x = r y -> x = y) -> (forall x y, g x = g y -> x = y) ->
  iso_w_check r g f f' = true -> fiso_w r g f f'.
Proof. exact iso_w_check_sound. Qed.

Theorem C15_iso_is_weak_iso :
  forall (r g : nat -> nat) (f f' : func),
  NoDup (map b_idx (fn_blocks f')) -> fiso r g f f' -> fiso_w r g f f'.
Proof. exact fiso_fiso_w. Qed.

(* block-level constraints: the same lists up to the renaming (every domain, no lattice law) *)
Theorem C15_weak_iso_init_constraints :
  forall (r g : nat -> nat) (f f' : func) (T : Type) (univ null : T) (union inter : T -> T -> T)
         (single : instr -> nat -> list sval -> T * T),
  fiso_w r g f f' ->
  (forall op pos args, single op (g pos) (map (shift_sval g) args) = single op pos args) ->
  init_constraints T univ null union inter single f' =
  option_map (ren_st r) (init_constraints T univ null union inter single f).
Proof. exact wiso_init_constraints. Qed.

(* one analysis key, any domain with a closed representation invariant P and an order whose laws hold on P (union is
   the least upper bound, inter monotone, null least, t_eqb = order equivalence): if the solver terminates on f and
   on f', the result on f' has the keys of the renamed result on f and t_eqb-equal values (the same sets).
   graph_wf f' is the model's decidable graph check (GraphWf). *)
Theorem C15_weak_iso_solve :
  forall (T : Type) (t_eqb : T -> T -> bool) (univ null : T) (union inter : T -> T -> T)
         (single : instr -> nat -> list sval -> T * T) (P : T -> Prop) (leq : T -> T -> Prop),
  P univ -> P null ->
  (forall a b : T, P a -> P b -> P (union a b)) ->
  (forall a b : T, P a -> P b -> P (inter a b)) ->
  (forall op pos args, P (fst (single op pos args)) /\ P (snd (single op pos args))) ->
  (forall a : T, t_eqb a a = true) ->
  (forall a : T, leq a a) ->
  (forall a b c : T, leq a b -> leq b c -> leq a c) ->
  (forall a b : T, P a -> P b -> t_eqb a b = true <-> leq a b /\ leq b a) ->
  (forall a b : T, P a -> P b -> leq a (union a b)) ->
  (forall a b : T, P a -> P b -> leq b (union a b)) ->
  (forall a b c : T, P a -> P b -> P c -> leq a c -> leq b c -> leq (union a b) c) ->
  (forall a a' b b' : T, P a -> P a' -> P b -> P b' -> leq a a' -> leq b b' -> leq (inter a b) (inter a' b')) ->
  (forall a : T, P a -> leq null a) ->
  forall r g : nat -> nat,
  (forall op pos args, single op (g pos) (map (shift_sval g) args) = single op pos args) ->
  forall f f' : func,
  fiso_w r g f f' ->
  forall (bc bc' : Analysis.state T) (fu fu' : nat) (lo lo' : list (nat * T)),
  graph_wf f' = true ->
  okst T P bc -> okst T P bc' ->
  peq T t_eqb (ren_st r bc) bc' ->
  solve T t_eqb univ null union inter single f fu bc = Done lo ->
  solve T t_eqb univ null union inter single f' fu' bc' = Done lo' ->
  peq T t_eqb (ren_st r lo) lo' /\ okst T P lo'.
Proof. exact wiso_solve. Qed.

(* detectors: exactly the renamed paths in the same order, every fuel, exceptions included, as soon as the
   validation verdicts of the two results agree *)
Theorem C15_weak_iso_detector :
  forall (r g : nat -> nat) (f f' : func) (res res' : fn_result) (fuel : nat) (name : string) (checks : bctx -> bool),
  fiso_w r g f f' ->
  (forall n, validated_in_block res' checks None n = validated_in_block (ren_result r res) checks None n) ->
  run_detector f' res' fuel name checks = omap (ren_paths r) (run_detector f res fuel name checks).
Proof. exact wiso_run_detector. Qed.

(* the pair rejected by the in-order check is accepted by the weak one; all nine detectors agree on it *)
Theorem C15_weak_iso_example :
  m3_f = whole_function m3_t /\ m3_f' = whole_function m3_t' /\
  iso_check_graph m3_r m3_g m3_f m3_f' = false /\
  iso_w_check m3_r m3_g m3_f m3_f' = true /\ graph_wf m3_f' = true.
Proof. exact m3w_accepted. Qed.

Theorem C15_weak_iso_example_verdicts :
  run_all m3_f 200 = Done m3_res /\ run_all m3_f' 200 = Done m3_res' /\
  map (fun nc => run_detector m3_f' m3_res' 200 (fst nc) (snd nc)) detectors =
  map (fun nc => omap (ren_paths m3_r) (run_detector m3_f m3_res 200 (fst nc) (snd nc))) detectors /\
  run_detector m3_f m3_res 200 "missing-fee-check" checks_missing_fee_check =
    Done ((0 :: 1 :: 2 :: 4 :: nil) :: (0 :: 3 :: 4 :: nil) :: nil) /\
  run_detector m3_f' m3_res' 200 "missing-fee-check" checks_missing_fee_check =
    Done ((0 :: 1 :: 3 :: 4 :: nil) :: (0 :: 2 :: 4 :: nil) :: nil).
Proof. exact m3w_verdicts. Qed.

Print Assumptions C15_weak_iso_check_sound.
Print Assumptions C15_iso_is_weak_iso.
Print Assumptions C15_weak_iso_init_constraints.
Print Assumptions C15_weak_iso_solve.
Print Assumptions C15_weak_iso_detector.
Print Assumptions C15_weak_iso_example.
Print Assumptions C15_weak_iso_example_verdicts.

(* ------------------------------------------------------------------------------------------------------------
   Extension (Lemmas/IsoWeakInst.v): the law bundle of C15_weak_iso_solve instantiated for the four concrete domains,
   contexts up to the domain equality (ctx_equiv), and the run_all composition: the validation-agreement hypothesis
   of C15_weak_iso_detector is discharged for the nine detectors. *)
From Tealer Require Import LeafPrelude Leaves LeafLemmas TotalDomains IsoLemmas IsoWeakInst.

(* the four instances of the bundle (representation invariant P, order leq) *)
Theorem C15_weak_laws_int : forall U : list Z,
  WLaws zset_eqb U nil zunion zinter (@PTrue (list Z)) (@incl Z).
Proof. exact zset_wlaws. Qed.
Theorem C15_weak_laws_kinds : forall U : list string,
  WLaws lset_eqb U nil lunion linter (@PTrue (list string)) (@incl string).
Proof. exact lset_wlaws. Qed.
Theorem C15_weak_laws_fee :
  WLaws feeval_eqb fee_universal_set fee_null_set fee_union fee_intersection fee_P fee_rleq.
Proof. exact fee_wlaws. Qed.
Theorem C15_weak_laws_addr :
  WLaws sset_seteqb addr_universal_set addr_null_set addr_union addr_intersection addr_wf addr_leq.
Proof. exact addr_wlaws. Qed.

(* one analysis key of each of the four analyses: two terminating runs on weakly isomorphic functions give results
   with the same keys and equal sets / the same fee bound *)
Theorem C15_weak_iso_solve_int :
  forall (size : bool) (intcs : option (list N)) (U : list Z) (r g : nat -> nat) (f f' : func)
         (bc bc' : list (nat * list Z)) (fu fu' : nat) (lo lo' : list (nat * list Z)),
  fiso_w r g f f' -> graph_wf f' = true ->
  peq (list Z) zset_eqb (ren_st r bc) bc' ->
  solve (list Z) zset_eqb U nil zunion zinter (int_single size intcs) f fu bc = Done lo ->
  solve (list Z) zset_eqb U nil zunion zinter (int_single size intcs) f' fu' bc' = Done lo' ->
  peq (list Z) zset_eqb (ren_st r lo) lo'.
Proof. exact wiso_solve_int. Qed.

Theorem C15_weak_iso_solve_kinds :
  forall (intcs : option (list N)) (fam : keyfam) (r g : nat -> nat) (f f' : func)
         (bc bc' : list (nat * list string)) (fu fu' : nat) (lo lo' : list (nat * list string)),
  fiso_w r g f f' -> graph_wf f' = true ->
  peq (list string) lset_eqb (ren_st r bc) bc' ->
  solve (list string) lset_eqb ALL_TRANSACTION_TYPES nil lunion linter (type_single intcs fam) f fu bc = Done lo ->
  solve (list string) lset_eqb ALL_TRANSACTION_TYPES nil lunion linter (type_single intcs fam) f' fu' bc' = Done lo' ->
  peq (list string) lset_eqb (ren_st r lo) lo'.
Proof. exact wiso_solve_type. Qed.

Theorem C15_weak_iso_solve_fee :
  forall (intcs : option (list N)) (fam : keyfam) (r g : nat -> nat) (f f' : func)
         (bc bc' : list (nat * feeval)) (fu fu' : nat) (lo lo' : list (nat * feeval)),
  fiso_w r g f f' -> graph_wf f' = true ->
  okst feeval fee_P bc -> okst feeval fee_P bc' ->
  peq feeval feeval_eqb (ren_st r bc) bc' ->
  solve feeval feeval_eqb fee_universal_set fee_null_set fee_union fee_intersection (fee_single intcs fam) f fu bc = Done lo ->
  solve feeval feeval_eqb fee_universal_set fee_null_set fee_union fee_intersection (fee_single intcs fam) f' fu' bc' = Done lo' ->
  peq feeval feeval_eqb (ren_st r lo) lo' /\ okst feeval fee_P lo'.
Proof. exact wiso_solve_fee. Qed.

Theorem C15_weak_iso_solve_addr :
  forall (intcs : option (list N)) (fam : keyfam) (fld : string) (r g : nat -> nat) (f f' : func)
         (bc bc' : list (nat * sset)) (fu fu' : nat) (lo lo' : list (nat * sset)),
  fiso_w r g f f' -> graph_wf f' = true ->
  okst sset addr_wf bc -> okst sset addr_wf bc' ->
  peq sset sset_seteqb (ren_st r bc) bc' ->
  solve sset sset_seteqb addr_universal_set addr_null_set addr_union addr_intersection (addr_single intcs fam fld) f fu bc = Done lo ->
  solve sset sset_seteqb addr_universal_set addr_null_set addr_union addr_intersection (addr_single intcs fam fld) f' fu' bc' = Done lo' ->
  peq sset sset_seteqb (ren_st r lo) lo' /\ okst sset addr_wf lo'.
Proof. exact wiso_solve_addr. Qed.

(* the nine detector predicates read the context only through the domains' values *)
Theorem C15_detector_predicates_ctx_inv :
  forall (name : string) (checks : bctx -> bool), In (name, checks) detectors -> ctx_inv checks.
Proof. exact detectors_ctx_inv. Qed.

Theorem C15_validated_in_block_ctx_equiv :
  forall (a b : fn_result) (checks : bctx -> bool) (ai : option N) (n : nat),
  res_equiv a b -> ctx_inv checks -> validated_in_block a checks ai n = validated_in_block b checks ai n.
Proof. exact validated_in_block_equiv. Qed.

(* the whole analysis: two terminating runs of run_all on weakly isomorphic functions *)
Theorem C15_weak_iso_run_all :
  forall (r g : nat -> nat) (f f' : func), fiso_w r g f f' -> graph_wf f' = true ->
  forall (fu fu' : nat) (res res' : fn_result),
  run_all f fu = Done res -> run_all f' fu' = Done res' -> res_equiv (ren_result r res) res'.
Proof. exact wiso_run_all. Qed.

Theorem C15_weak_iso_ctx_equiv :
  forall (r g : nat -> nat) (f f' : func), fiso_w r g f f' -> graph_wf f' = true ->
  forall (fu fu' : nat) (res res' : fn_result) (n : nat) (fam : keyfam),
  run_all f fu = Done res -> run_all f' fu' = Done res' ->
  ctx_equiv (ctx_of (ren_result r res) n fam) (ctx_of res' n fam).
Proof. exact wiso_ctx_equiv. Qed.

Theorem C15_weak_iso_validated :
  forall (r g : nat -> nat) (f f' : func), fiso_w r g f f' -> graph_wf f' = true ->
  forall (fu fu' : nat) (res res' : fn_result) (checks : bctx -> bool) (ai : option N) (n : nat),
  run_all f fu = Done res -> run_all f' fu' = Done res' -> ctx_inv checks ->
  validated_in_block res' checks ai n = validated_in_block (ren_result r res) checks ai n.
Proof. exact wiso_validated. Qed.

(* all nine detectors: exactly the renamed paths, same order, every search fuel, exceptions included; no hypothesis on
   the validation verdicts any more (both analyses terminate, f' passes the model's graph check) *)
Theorem C15_weak_iso_detectors :
  forall (r g : nat -> nat) (f f' : func), fiso_w r g f f' -> graph_wf f' = true ->
  forall (fu fu' : nat) (res res' : fn_result) (fuel : nat) (name : string) (checks : bctx -> bool),
  run_all f fu = Done res -> run_all f' fu' = Done res' -> In (name, checks) detectors ->
  run_detector f' res' fuel name checks = omap (ren_paths r) (run_detector f res fuel name checks).
Proof. exact wiso_detectors. Qed.

Theorem C15_weak_iso_detectors_example :
  forall (fuel : nat) (name : string) (checks : bctx -> bool), In (name, checks) detectors ->
  run_detector m3_f' m3_res' fuel name checks = omap (ren_paths m3_r) (run_detector m3_f m3_res fuel name checks).
Proof. exact m3w_detectors_all. Qed.

Print Assumptions C15_weak_laws_int.
Print Assumptions C15_weak_laws_kinds.
Print Assumptions C15_weak_laws_fee.
Print Assumptions C15_weak_laws_addr.
Print Assumptions C15_weak_iso_solve_int.
Print Assumptions C15_weak_iso_solve_kinds.
Print Assumptions C15_weak_iso_solve_fee.
Print Assumptions C15_weak_iso_solve_addr.
Print Assumptions C15_detector_predicates_ctx_inv.
Print Assumptions C15_validated_in_block_ctx_equiv.
Print Assumptions C15_weak_iso_run_all.
Print Assumptions C15_weak_iso_ctx_equiv.
Print Assumptions C15_weak_iso_validated.
Print Assumptions C15_weak_iso_detectors.
Print Assumptions C15_weak_iso_detectors_example.
