(* C02  Every reported path is a genuine, unvalidated accepting path.  Property theorems only.
   GoodPath is the declarative specification in Spec/Paths.v (no fuel, no reference to the search). *)
From Coq Require Import List String.
From Tealer Require Import Syntax Cfg Analysis Detect Paths SearchLemmas.
Import ListNotations.

Theorem C02_paths_genuine : forall f validated report fuel ps,
  detect_paths f validated report fuel = Done ps ->
  forall p, In p ps -> GoodPath f validated p /\ report p = true.
Proof. exact detect_paths_sound. Qed.

Theorem C02_no_path_twice : forall f validated report,
  (forall n b, fblock f n = Some b -> NoDup (b_next b)) ->
  forall fuel ps, detect_paths f validated report fuel = Done ps -> NoDup ps.
Proof. exact detect_paths_nodup. Qed.

(* completeness (the converse, used by C01): every genuine path is reported *)
Theorem C02_all_genuine_paths_reported : forall f validated report fuel ps p,
  GoodPath f validated p -> report p = true ->
  detect_paths f validated report fuel = Done ps -> In p ps.
Proof. exact detect_paths_complete. Qed.

(* every block of a genuine path is unvalidated and the path ends where execution can terminate *)
Theorem C02_blocks_unvalidated : forall f validated c b suffix,
  GoodPathFrom f validated c b suffix -> Forall (fun n => validated n = false) suffix.
Proof. exact GoodPathFrom_not_validated. Qed.

Print Assumptions C02_paths_genuine.
Print Assumptions C02_no_path_twice.
Print Assumptions C02_all_genuine_paths_reported.

(* ------------------------------------------------------------------------------------------------------------
   Extension (second round): renderings (Model/Output.v, Lemmas/OutputLemmas.v) *)
From Coq Require Import List String.
From Tealer Require Import Output OutputLemmas.

(* the textual rendering '0 -> 2 -> 5' denotes exactly one block sequence: distinct paths have distinct notations *)
Theorem C02_short_notation_denotes_the_path : forall l1 l2, short_notation l1 = short_notation l2 -> l1 = l2.
Proof. exact short_notation_inj. Qed.

(* the JSON listing has one entry per reported path, in order, each with that path's notation *)
Theorem C02_json_listing : forall t paths,
  json_count paths = List.length (json_paths t paths) /\ map fst (json_paths t paths) = map short_notation paths.
Proof. exact json_count_spec. Qed.

Print Assumptions C02_short_notation_denotes_the_path.
Print Assumptions C02_json_listing.
