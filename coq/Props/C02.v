(* C02  Every reported path is a genuine, unvalidated accepting path.  Property theorems only.
   GoodPath is the declarative specification in Spec/Paths.v (no fuel, no reference to the search). *)
From Coq Require Import List String.
From Tealer Require Import Syntax Cfg Analysis Detect Paths SearchLemmas.
Import ListNotations.

Theorem C02_paths_genuine : forall f validated report fuel ps,
  detect_paths f validated report fuel = Done ps ->
  forall p, In p ps -> GoodPath f validated p /\ report p = true.
Proof. exact detect_paths_sound. Qed.

Theorem C02_no_path_twice : forall f validated report,
  (forall n b, fblock f n = Some b -> NoDup (b_next b)) ->
  forall fuel ps, detect_paths f validated report fuel = Done ps -> NoDup ps.
Proof. exact detect_paths_nodup. Qed.

(* completeness (the converse, used by C01): every genuine path is reported *)
Theorem C02_all_genuine_paths_reported : forall f validated report fuel ps p,
  GoodPath f validated p -> report p = true ->
  detect_paths f validated report fuel = Done ps -> In p ps.
Proof. exact detect_paths_complete. Qed.

(* every block of a genuine path is unvalidated and the path ends where execution can terminate *)
Theorem C02_blocks_unvalidated : forall f validated c b suffix,
  GoodPathFrom f validated c b suffix -> Forall (fun n => validated n = false) suffix.
Proof. exact GoodPathFrom_not_validated. Qed.

Print Assumptions C02_paths_genuine.
Print Assumptions C02_no_path_twice.
Print Assumptions C02_all_genuine_paths_reported.

(* ------------------------------------------------------------------------------------------------------------
   Extension (second round): renderings (Model/Output.v, Lemmas/OutputLemmas.v) *)
From Coq Require Import List String.
From Tealer Require Import Output OutputLemmas.

(* the textual rendering '0 -> 2 -> 5' denotes exactly one block sequence: distinct paths have distinct notations *)
Theorem C02_short_notation_denotes_the_path : forall l1 l2, short_notation l1 = short_notation l2 -> l1 = l2.
Proof. exact short_notation_inj. Qed.

(* the JSON listing has one entry per reported path, in order, each with that path's notation *)
Theorem C02_json_listing : forall t paths,
  json_count paths = List.length (json_paths t paths) /\ map fst (json_paths t paths) = map short_notation paths.
Proof. exact json_count_spec. Qed.

Print Assumptions C02_short_notation_denotes_the_path.
Print Assumptions C02_json_listing.

(* ------------------------------------------------------------------------------------------------------------
   Extension (third round): regenerated path search (Lemmas/SearchGenLemmas.v) *)
From Coq Require Import List String NArith ZArith Bool Arith.
From Tealer Require Import Tables Syntax Parse Cfg StackAst Analysis Domains Detect SearchGen Paths SearchLemmas TotalSolver TotalSearch SearchGenLemmas.

(* the path search REGENERATED from detectors/utils.py (tools/translate_search.py -> Gen/SearchGen.v) computes exactly what the model's run_detector computes, exceptions included *)
Theorem C02_search_regenerated :
  forall (f : func) (r : fn_result) (fuel : nat) (name : string) (checks : LeafPrelude.bctx -> bool),
       defined_okb f = true ->
       detect_missing_tx_field_validations_gen f (validated_in_block r checks None)
         (if name =? "group-size-check" then fun path : list nat => existsb (accessed_using_absolute_index f) path else fun _ : list nat => true)
         fuel = lift nil (run_detector f r fuel name checks).
Proof. exact @run_detector_gen_eq. Qed.

(* every path reported by the regenerated search is a genuine, unvalidated accepting path (and satisfies the report condition) *)
Theorem C02_regenerated_paths_genuine :
  forall (f : func) (validated : nat -> bool) (report : list nat -> bool) (fuel : nat) (ps : list (list nat)),
       detect_missing_tx_field_validations_gen f validated report fuel = Some ps ->
       forall p : list nat, In p ps -> GoodPath f validated p /\ report p = true.
Proof. exact @detect_gen_sound. Qed.

(* ... every genuine path is reported *)
Theorem C02_regenerated_all_genuine_paths_reported :
  forall (f : func) (validated : nat -> bool) (report : list nat -> bool) (fuel : nat) (ps : list (list nat)) (p : list nat),
       GoodPath f validated p -> report p = true -> detect_missing_tx_field_validations_gen f validated report fuel = Some ps -> In p ps.
Proof. exact @detect_gen_complete. Qed.

(* ... and none twice *)
Theorem C02_regenerated_no_path_twice :
  forall (f : func) (validated : nat -> bool) (report : list nat -> bool) (fuel : nat) (ps : list (list nat)),
       (forall (n : nat) (b : block), fblock f n = Some b -> NoDup (b_next b)) ->
       detect_missing_tx_field_validations_gen f validated report fuel = Some ps -> NoDup ps.
Proof. exact @detect_gen_nodup. Qed.

Print Assumptions C02_search_regenerated.
Print Assumptions C02_regenerated_paths_genuine.
Print Assumptions C02_regenerated_all_genuine_paths_reported.
Print Assumptions C02_regenerated_no_path_twice.
