(* C18  Exported graphs and reports denote exactly the internal results.  Property theorems only.
   The writers themselves (DOT syntax, json.dumps, re.search) are not modelled; the artefacts are read back by
   the harness and compared with the model's graph and paths.  What the theorems contribute is that the
   compared internal objects are what C02/C04/C05 say they are. *)
From Coq Require Import List String.
From Tealer Require Import Syntax Parse Cfg Analysis Detect SubLemmas SearchLemmas Paths.
Import ListNotations.

(* "count equals the number of listed paths" and "no path twice" for the list the JSON is produced from *)
Theorem C18_paths_nodup : forall f validated report,
  (forall n b, fblock f n = Some b -> NoDup (b_next b)) ->
  forall fuel ps, detect_paths f validated report fuel = Done ps -> NoDup ps.
Proof. exact detect_paths_nodup. Qed.
(* one node per retained block: the retained block list is duplicate-free and sorted *)
Theorem C18_blocks_nodup : forall p t bs, parse_teal p = Ok t -> build_blocks p = Some bs -> NoDup (retained_ids t).
Proof. intros p t bs H1 H2. destruct (retained_char p t bs H1 H2) as [_ [_ [H _]]]. exact H. Qed.

Print Assumptions C18_paths_nodup.
Print Assumptions C18_blocks_nodup.

(* ------------------------------------------------------------------------------------------------------------
   Extension (second round): theorems from Lemmas/{WalkLemmas,OutputLemmas,TypeExec,NoMiss2,ParseLemmas2,PaddingLemmas}.v *)
From Coq Require Import List String NArith ZArith Bool Arith.
From Tealer Require Import Tables Leaves LeafPrelude Syntax Parse Cfg StackAst Keys Analysis Domains Detect Group Output Runs Eval Exec InsExec Paths WalkLemmas OutputLemmas TypeExec NoMiss2 ParseLemmas2 PaddingLemmas.

(* `cfg` DOT: one node per retained block, no node twice *)
Theorem C18_cfg_nodes :
  forall (p : prog) (t : teal),
       parse_teal p = Ok t -> NoDup (full_cfg_nodes t) /\ (forall n : nat, In n (full_cfg_nodes t) <-> (exists b : block, tblock t n = Some b)).
Proof. exact @full_cfg_nodes_spec. Qed.

(* the lines shown in a node are the line numbers of the block's instructions, in order *)
Theorem C18_cfg_node_lines :
  forall (t : teal) (n : nat) (b : block),
       tblock t n = Some b ->
       full_cfg_node_lines t n = flat_map (fun k : nat => match nth_error (t_prog t) k with
                                                          | Some i => i_line i :: nil
                                                          | None => nil
                                                          end) (b_ins b).
Proof. exact @full_cfg_node_lines_spec. Qed.

(* `cfg` DOT: the drawn edges are exactly the global graph relation cfg_edge (successor edges; callsub -> callee entry; retsub -> return point of every retained call site of its subroutine) *)
Theorem C18_cfg_edges_exact :
  forall (p : prog) (t : teal), parse_teal p = Ok t -> forall b b' : nat, In (b, b') (full_cfg_edges t) <-> cfg_edge t b b'.
Proof. exact @full_cfg_edges_exact. Qed.

(* every step of every run of the contract is an edge of the drawing *)
Theorem C18_every_execution_step_is_drawn :
  forall (p : prog) (t : teal),
       parse_teal p = Ok t ->
       forall cfgs : list rconfig,
       Run (whole_function t) cfgs ->
       forall (pre : list rconfig) (c c' : rconfig) (post : list rconfig), cfgs = pre ++ c :: c' :: post -> In (fst c, fst c') (full_cfg_edges t).
Proof. exact @run_steps_drawn. Qed.

(* `subroutine-cfg`: local edges of the routine *)
Theorem C18_subroutine_cfg_edges :
  forall (p : prog) (t : teal),
       parse_teal p = Ok t ->
       forall (s : subroutine) (b b' : nat),
       In (b, b') (sub_cfg_edges t s) <->
       In b (s_blocks s) /\ (exists blk : block, tblock t b = Some blk /\ is_callsub_block t blk = false /\ In b' (b_next blk)).
Proof. exact @sub_cfg_edges_exact. Qed.

(* `subroutine-cfg`: one call box per call site, with its return point and callee name *)
Theorem C18_subroutine_cfg_callboxes :
  forall (p : prog) (t : teal),
       parse_teal p = Ok t ->
       forall (s : subroutine) (c : nat) (rp : option nat) (name : string),
       In (c, rp, name) (sub_cfg_callboxes t s) <->
       In c (s_blocks s) /\ (exists blk : block, tblock t c = Some blk /\ exit_op t blk = Some (ICallsub name) /\ rp = sub_return_point blk).
Proof. exact @sub_cfg_callboxes_exact. Qed.

(* the DOT file of a reported path marks exactly the path's blocks *)
Theorem C18_path_marks :
  forall (path : list nat) (b : nat), path_marks path b = true <-> In b path.
Proof. exact @path_marks_spec. Qed.

(* --filter-paths removes exactly the paths whose short notation matches (re.search passed as parameter) *)
Theorem C18_filter_paths :
  forall (search : string -> string -> bool) (pattern : string) (paths : list (list nat)) (path : list nat),
       pattern <> "" -> In path (filter_paths search pattern paths) <-> In path paths /\ search pattern (short_notation path) = false.
Proof. exact @filter_paths_spec. Qed.

(* count = number of listed paths; listed short notations are those of the paths, in order *)
Theorem C18_json_count :
  forall (t : teal) (paths : list (list nat)),
       json_count paths = Datatypes.length (json_paths t paths) /\ map fst (json_paths t paths) = map short_notation paths.
Proof. exact @json_count_spec. Qed.

(* distinct paths have distinct short notations *)
Theorem C18_short_notation_injective :
  forall l1 l2 : list nat, short_notation l1 = short_notation l2 -> l1 = l2.
Proof. exact @short_notation_inj. Qed.

Print Assumptions C18_cfg_nodes.
Print Assumptions C18_cfg_node_lines.
Print Assumptions C18_cfg_edges_exact.
Print Assumptions C18_every_execution_step_is_drawn.
Print Assumptions C18_subroutine_cfg_edges.
Print Assumptions C18_subroutine_cfg_callboxes.
Print Assumptions C18_path_marks.
Print Assumptions C18_filter_paths.
Print Assumptions C18_json_count.
Print Assumptions C18_short_notation_injective.

(* ------------------------------------------------------------------------------------------------------------
   Extension (exporters regenerated: Lemmas/OutputGenLemmas.v about Gen/OutputGen.v, the structural reading of utils/output.py and printers/call_graph.py, item list per emitting statement) *)
From Coq Require Import String List NArith ZArith Bool Arith.
From Tealer Require Import Syntax Parse Cfg Analysis KeysGen Output OutputGen CfgLemmas SubLemmas GraphWf OutputLemmas OutputGenLemmas.

(* regenerated _bb_to_dot: node and local edges of a block *)
Theorem C18_bb_to_dot_gen_parsed :
      forall (p : prog) (t : teal) (n : nat) (b : block) (color : bool) (bd : border),
       parse_teal p = Ok t ->
       tblock t n = Some b ->
       bb_to_dot_gen t n
         {|
           cfg_ignore_edge := ignore_callsub t;
           cfg_color_edges := color;
           cfg_bb_border_color := fun _ : nat => ret bd
         |} = Some (INode n bd :: map (edge_item t n) (local_out color t b)).
Proof. exact @bb_to_dot_gen_parsed. Qed.

(* its edges go exactly to the successors of a non-callsub block *)
Theorem C18_bb_to_dot_gen_targets :
      forall (p : prog) (t : teal) (n : nat) (b : block) (color : bool) (bd : border),
       parse_teal p = Ok t ->
       tblock t n = Some b ->
       exists items : list item,
         bb_to_dot_gen t n
           {|
             cfg_ignore_edge := ignore_callsub t;
             cfg_color_edges := color;
             cfg_bb_border_color := fun _ : nat => ret bd
           |} = Some (INode n bd :: items) /\
         (forall m : nat,
          (exists (pt : nat) (c : ecolor), In (IEdge n m pt c) items) <->
          is_callsub_block t b = false /\ In m (b_next b)).
Proof. exact @bb_to_dot_gen_targets. Qed.

(* regenerated full_cfg_to_dot: edges, nodes, clusters and borders of the model *)
Theorem C18_full_cfg_gen_parsed :
      forall (p : prog) (t : teal) (fn : option (list string)),
       parse_teal p = Ok t ->
       exists items : list item,
         full_cfg_to_dot_gen t None fn = Some (out_of fn items) /\
         edges_of items = full_cfg_colored_edges t /\
         nodes_of items = full_cfg_nodes t /\
         clusters_of items = enumerate_from 0 (full_cfg_clusters t) /\
         node_borders_of items =
         map (fun n : nat => (n, if full_cfg_dark_border t n then BSub else BBlack)) (full_cfg_nodes t).
Proof. exact @full_cfg_to_dot_gen_parsed. Qed.

(* exactly the edges of the graph, every block drawn once *)
Theorem C18_full_cfg_gen_exact :
      forall (p : prog) (t : teal),
       parse_teal p = Ok t ->
       exists items : list item,
         full_cfg_to_dot_gen t None None = Some (Returned items) /\
         (forall b b' : nat, (exists (pt : nat) (c : ecolor), In (IEdge b b' pt c) items) <-> cfg_edge t b b') /\
         NoDup (nodes_of items) /\
         (forall n : nat,
          (exists bd : border, In (INode n bd) items) <-> (exists b : block, tblock t n = Some b)).
Proof. exact @full_cfg_to_dot_gen_exact. Qed.

(* regenerated subroutine_to_dot *)
Theorem C18_subroutine_cfg_gen_exact :
      forall (p : prog) (t : teal) (s : subroutine),
       parse_teal p = Ok t ->
       routine t s ->
       exists items : list item,
         subroutine_to_dot_gen t s None = Some items /\
         (forall b b' : nat,
          (exists (pt : nat) (c : ecolor), In (IEdge b b' pt c) items) <->
          In b (s_blocks s) /\
          (exists blk : block, tblock t b = Some blk /\ is_callsub_block t blk = false /\ In b' (b_next blk))) /\
         nodes_of items = s_blocks s /\ box_part items = flat_map (box_items t) (sub_cfg_callboxes t s).
Proof. exact @subroutine_to_dot_gen_edges_exact. Qed.

(* regenerated _short_notation *)
Theorem C18_short_notation_gen_eq :
      forall path : list nat, short_notation_gen path = Some (short_notation path).
Proof. exact @short_notation_gen_eq. Qed.

(* regenerated filter_paths keeps exactly the paths whose short notation does not match *)
Theorem C18_filter_paths_gen_spec :
      forall (re_search : string -> string -> py bool) (search : string -> string -> bool)
         (pattern : string) (paths : list (list nat)),
       (forall text : string, re_search pattern text = Some (search pattern text)) ->
       pattern <> "" ->
       exists kept : list (list nat),
         filter_paths_gen re_search paths pattern = Some kept /\
         (forall path : list nat,
          In path kept <-> In path paths /\ search pattern (short_notation path) = false).
Proof. exact @filter_paths_gen_spec. Qed.

(* regenerated generate_output: one file per path, numbered from 1, red border exactly on the blocks of the path *)
Theorem C18_generate_output_gen_marks :
      forall (p : prog) (t : teal) (det : string) (paths : list (list nat)) (dest : list string),
       parse_teal p = Ok t ->
       exists files : list dotout,
         generate_output_gen t det paths dest = Some (negb (list_is_empty paths), files) /\
         Datatypes.length files = Datatypes.length paths /\
         (forall (i : nat) (path : list nat),
          nth_error paths i = Some path ->
          exists items : list item,
            nth_error files i = Some (Written (dest ++ (det :: nil) ++ path_filename det (S i) :: nil) items) /\
            edges_of items = path_cfg_colored_edges t /\
            nodes_of items = path_cfg_nodes t /\
            (forall n : nat,
             In n (path_cfg_nodes t) ->
             (In (INode n BRed) items <-> In n path) /\ (In (INode n BBlack) items <-> ~ In n path))).
Proof. exact @generate_output_gen_marks. Qed.

Print Assumptions C18_bb_to_dot_gen_parsed.
Print Assumptions C18_bb_to_dot_gen_targets.
Print Assumptions C18_full_cfg_gen_parsed.
Print Assumptions C18_full_cfg_gen_exact.
Print Assumptions C18_subroutine_cfg_gen_exact.
Print Assumptions C18_short_notation_gen_eq.
Print Assumptions C18_filter_paths_gen_spec.
Print Assumptions C18_generate_output_gen_marks.

(* ------------------------------------------------------------------------------------------------------------
   Extension (report producers regenerated): Lemmas/ReportGenLemmas.v about Gen/ReportGen.v, the translation of
   ExecutionPaths.to_json, __main__.py handle_output and the filter / report slices of main, the transaction-context
   printer annotations and the human-summary printer; values, not text layout.  *)
From Coq Require Import String List NArith ZArith Bool Arith.
From Tealer Require Import Tables LeafPrelude Syntax Parse Cfg Keys Analysis Domains Detect KeysGen Output OutputGen ReportGen CfgLemmas SubLemmas GraphWf OutputLemmas OutputGenLemmas VersionLemmas VersionGenLemmas ReportGenLemmas.

(* regenerated to_json is the paths report of the model *)
Theorem C18_to_json_gen_parsed :
      forall (p : prog) (t : teal) (meta : detmeta) (det : string) (paths : list (list nat)),
       parse_teal p = Ok t ->
       (forall (path : list nat) (n : nat), In path paths -> In n path -> In n (full_cfg_nodes t)) ->
       to_json_gen t meta paths det = Some (paths_report t meta det paths).
Proof. exact @to_json_gen_parsed. Qed.

(* the JSON paths entry lists exactly the reported paths in order, each with its short notation and blocks, and count is their number *)
Theorem C18_to_json_gen_paths :
      forall (p : prog) (t : teal) (meta : detmeta) (det : string) (paths : list (list nat)),
       parse_teal p = Ok t ->
       (forall (path : list nat) (n : nat), In path paths -> In n path -> In n (full_cfg_nodes t)) ->
       exists (j : json) (listed : list json),
         to_json_gen t meta paths det = Some j /\
         jfield "check" j = Some (JStr det) /\
         jfield "count" j = Some (JNum (Datatypes.length listed)) /\
         jfield "paths" j = Some (JList listed) /\
         Datatypes.length listed = Datatypes.length paths /\
         (forall (i : nat) (path : list nat),
          nth_error paths i = Some path ->
          nth_error listed i =
          Some
            (JObj
               (("short", JStr (short_notation path))
                :: ("blocks", JList (map (fun n : nat => block_json (json_block_rows t n)) path)) :: nil))).
Proof. exact @to_json_gen_paths. Qed.

(* JSON mode of handle_output: the envelope with success, error and every detector result in order *)
Theorem C18_handle_output_gen_json :
      forall (Other : Type) (other_detector : Other -> string) (other_to_json : Other -> py json)
         (other_generate_output : Other -> list string -> py bool) (meta : detmeta)
         (contract_name_of : teal -> string) (root : list string) (file : string)
         (detector_results : list (list (output Other))) (teal : teal) (error : option string),
       (forall o : output Other, In o (concat detector_results) -> out_ok Other other_to_json o) ->
       let doc := envelope error (map (json_of Other other_to_json meta) (concat detector_results)) in
       handle Other other_detector other_to_json other_generate_output meta contract_name_of root 
         (Some file) detector_results teal error =
       Some
         (if file =? "-"
          then RepJsonStdout doc :: nil
          else
           RepJsonNotice (root ++ (contract_name_of teal :: nil) ++ file :: nil)
           :: RepJsonFile (root ++ (contract_name_of teal :: nil) ++ file :: nil) doc :: nil, None) /\
       jfield "success" doc = Some (JBool match error with
                                          | Some _ => false
                                          | None => true
                                          end) /\
       jfield "error" doc = Some (jopt JStr error) /\
       jfield "result" doc = Some (JList (map (json_of Other other_to_json meta) (concat detector_results))).
Proof. exact @handle_output_gen_json. Qed.

(* text mode with an error *)
Theorem C18_handle_output_gen_text_error :
      forall (Other : Type) (other_detector : Other -> string) (other_to_json : Other -> py json)
         (other_generate_output : Other -> list string -> py bool) (meta : detmeta)
         (contract_name_of : teal -> string) (root : list string)
         (detector_results : list (list (output Other))) (teal : teal) (e : string),
       handle Other other_detector other_to_json other_generate_output meta contract_name_of root None
         detector_results teal (Some e) = Some (RepError e :: nil, Some (-1)%Z).
Proof. exact @handle_output_gen_text_error. Qed.

(* detect with a filter in JSON mode: count and listed paths are those after the filter *)
Theorem C18_main_detect_json_filtered :
      forall (Other : Type) (other_detector : Other -> string) (other_to_json : Other -> py json)
         (other_generate_output : Other -> list string -> py bool) (meta : detmeta)
         (contract_name_of : teal -> string) (root : list string) (re_search : string -> string -> py bool)
         (search : string -> string -> bool) (pattern : string) (results : list (list (output Other)))
         (t : teal),
       (forall text : string, re_search pattern text = Some (search pattern text)) ->
       (forall o : output Other, In o (concat results) -> out_ok Other other_to_json o) ->
       exists results' : list (list (output Other)),
         main_filter_gen Other re_search (Some pattern) results = Some results' /\
         main_report Other other_detector other_to_json other_generate_output meta contract_name_of root
           (Some "-") "detect" results' (Some t) None =
         Some
           (RepJsonStdout (envelope None (map (json_of Other other_to_json meta) (concat results'))) :: nil,
            None) /\
         concat results' = map (filter_output Other search pattern) (concat results) /\
         (forall (t' : teal) (d : string) (ps : list (list nat)),
          json_of Other other_to_json meta (filter_output Other search pattern (OExecutionPaths t' d ps)) =
          paths_report t' meta d (filter_paths search pattern ps)).
Proof. exact @main_detect_json_filtered. Qed.

(* the last statement of main *)
Theorem C18_main_report_gen_eq :
      forall (Other : Type) (other_detector : Other -> string) (other_to_json : Other -> py json)
         (other_generate_output : Other -> list string -> py bool) (meta : detmeta)
         (contract_name_of : teal -> string) (root : list string) (args_json : option string)
         (subcommand : string) (results : list (list (output Other))) (tealer_contract : py teal)
         (error : option string),
       main_report Other other_detector other_to_json other_generate_output meta contract_name_of root
         args_json subcommand results tealer_contract error =
       (if opt_text_truthy error || (subcommand =? "detect")
        then
         bind tealer_contract
           (fun t : teal =>
            handle Other other_detector other_to_json other_generate_output meta contract_name_of root
              args_json results t error)
        else Some (nil, None)).
Proof. exact @main_report_gen_eq. Qed.

(* observation: an error raised before the contract is bound never reaches the envelope *)
Theorem C18_main_report_unbound_contract :
      forall (Other : Type) (other_detector : Other -> string) (other_to_json : Other -> py json)
         (other_generate_output : Other -> list string -> py bool) (meta : detmeta)
         (contract_name_of : teal -> string) (root : list string) (args_json : option string)
         (subcommand : string) (results : list (list (output Other))) (e : string),
       e <> "" ->
       main_report Other other_detector other_to_json other_generate_output meta contract_name_of root
         args_json subcommand results None (Some e) = None.
Proof. exact @main_report_unbound_contract. Qed.

(* observation: an exception with an empty message is treated as no error outside detect *)
Theorem C18_main_report_silent_on_empty_error :
      forall (Other : Type) (other_detector : Other -> string) (other_to_json : Other -> py json)
         (other_generate_output : Other -> list string -> py bool) (meta : detmeta)
         (contract_name_of : teal -> string) (root : list string) (args_json : option string)
         (subcommand : string) (results : list (list (output Other))) (tealer_contract : py teal),
       (subcommand =? "detect") = false ->
       main_report Other other_detector other_to_json other_generate_output meta contract_name_of root
         args_json subcommand results tealer_contract (Some "") = Some (nil, None).
Proof. exact @main_report_silent_on_empty_error. Qed.

(* compact number lists of the transaction-context printer *)
Theorem C18_repr_num_list_gen_eq :
      forall values : list Z, repr_num_list_gen values = Some (short_list values).
Proof. exact @repr_num_list_gen_eq. Qed.

(* the annotations of a block are its GroupIndex and GroupSize sets, nothing for foreign blocks *)
Theorem C18_get_info_gen_spec :
      forall (f : func) (r : fn_result) (bb : nat),
       (In bb (map b_idx (fn_blocks f)) ->
        get_info_gen f r bb =
        Some
          (("GroupIndex: " ++ short_list (ctx_group_indices (ctx_of r bb KSelf)))%string
           :: ("GroupSize: " ++ short_list (ctx_group_sizes (ctx_of r bb KSelf)))%string :: nil)) /\
       (~ In bb (map b_idx (fn_blocks f)) -> get_info_gen f r bb = Some nil).
Proof. exact @get_info_gen_spec. Qed.

Print Assumptions C18_to_json_gen_parsed.
Print Assumptions C18_to_json_gen_paths.
Print Assumptions C18_handle_output_gen_json.
Print Assumptions C18_handle_output_gen_text_error.
Print Assumptions C18_main_detect_json_filtered.
Print Assumptions C18_main_report_gen_eq.
Print Assumptions C18_main_report_unbound_contract.
Print Assumptions C18_main_report_silent_on_empty_error.
Print Assumptions C18_repr_num_list_gen_eq.
Print Assumptions C18_get_info_gen_spec.

(* ---------------------------------------------------------------------------------------------------------------------
   The TEXT of the node labels (rows), regenerated from utils/output.py _instruction_to_dot / _bb_to_dot /
   all_subroutines_to_dot (Gen/RowsGen.v, tools/translate_rows.py) against Model/Rows.v (Lemmas/RowsGenLemmas.v). *)
From Coq Require Import String List NArith Bool Arith Ascii Sorted.
From Tealer Require Import Syntax Parse Cfg Analysis KeysGen Output OutputGen Rows RowsGen RowsGenLemmas.

(* one generated row = the rendering of the model row (line, escaped stripped source text, markup, comments) *)
Theorem C18_instruction_to_dot_gen_eq :
  forall (t : teal) (src : list string) (sel : string -> string) (cfg : rowcfg) (k : nat) (r : row),
    ins_row sel src (t_prog t) k = Some r ->
    instruction_to_dot_gen t src sel k (lift_cfg cfg) = Some (render_row cfg r).
Proof. exact @instruction_to_dot_gen_eq. Qed.
Theorem C18_instruction_to_dot_gen_none :
  forall (t : teal) (src : list string) (sel : string -> string) (cfg : rowcfg) (k : nat),
    ins_row sel src (t_prog t) k = None -> instruction_to_dot_gen t src sel k (lift_cfg cfg) = None.
Proof. exact @instruction_to_dot_gen_none. Qed.

(* every instruction of a parsed contract has its own source line, and that line parses to the instruction *)
Theorem C18_source_row_parsed :
  forall (s : string) (p : prog) (t : teal) (sel : string -> string),
    parse_program s = Ok p -> parse_teal p = Ok t ->
    forall (k : nat) (i : ins), nth_error (t_prog t) k = Some i ->
    exists l : string,
      source_line (splitlines s) (i_line i) = Some l /\ parse_line l = Ok (Some (i_op i)) /\ is_comment_line l = false /\
      ins_row sel (splitlines s) (t_prog t) k =
        Some (mkRow k (i_line i) (strip l) (ins_markup (i_op i)) (ins_tealer_comments sel (i_op i))
                    (comments_between (splitlines s) (prev_line (t_prog t) k) (i_line i))).
Proof. exact @source_row_parsed. Qed.

(* the rows of a block: every instruction exactly once, in order, with its own 1-based line, increasing strictly *)
Theorem C18_block_rows_parsed :
  forall (s : string) (p : prog) (t : teal) (sel : string -> string),
    parse_program s = Ok p -> parse_teal p = Ok t ->
    forall (n : nat) (b : block), tblock t n = Some b ->
    Forall2 (row_of s t sel) (b_ins b) (block_rows sel (splitlines s) t b).
Proof. exact @block_rows_parsed. Qed.
Theorem C18_block_rows_exact :
  forall (s : string) (p : prog) (t : teal) (sel : string -> string),
    parse_program s = Ok p -> parse_teal p = Ok t ->
    forall (n : nat) (b : block), tblock t n = Some b ->
    map row_pos (block_rows sel (splitlines s) t b) = b_ins b /\
    NoDup (b_ins b) /\
    map row_line (block_rows sel (splitlines s) t b) = block_lines t b /\
    StronglySorted lt (map row_line (block_rows sel (splitlines s) t b)) /\
    length (block_rows sel (splitlines s) t b) = length (b_ins b) /\
    block_rows sel (splitlines s) t b <> nil.
Proof. exact @block_rows_exact. Qed.

(* the generated label of every block of teal.bbs: header cell, then the rendered rows *)
Theorem C18_bb_label_gen_parsed :
  forall (s : string) (p : prog) (t : teal) (sel : string -> string) (cfg : rowcfg),
    parse_program s = Ok p -> parse_teal p = Ok t ->
    forall b : block, In b (t_blocks t) ->
    exists port : nat,
      block_port t b = Some port /\
      bb_label_gen t (splitlines s) sel (b_idx b) (lift_cfg cfg) =
      Some (mkLabel (b_idx b) (mc_border cfg (b_idx b))
              (CHead port (mc_border_size cfg) (slashed (sanitize (block_tealer_comments t b ++ mc_bb_extra cfg (b_idx b))))
               :: map (render_row cfg) (block_rows sel (splitlines s) t b))).
Proof. exact @bb_label_gen_parsed. Qed.

(* DOT rows and JSON rows list the same lines; the DOT text parses to the instruction the JSON row prints *)
Theorem C18_rows_json_agree :
  forall (s : string) (p : prog) (t : teal) (sel : string -> string),
    parse_program s = Ok p -> parse_teal p = Ok t ->
    forall (n : nat) (b : block), tblock t n = Some b ->
    Forall2 (fun (r : row) (j : nat * string) =>
               row_line r = fst j /\
               (exists (l : string) (o : instr),
                  row_src r = strip l /\ parse_line l = Ok (Some o) /\ snd j = str_of_instr o /\ row_markup r = ins_markup o))
            (block_rows sel (splitlines s) t b) (json_block_rows t n).
Proof. exact @rows_json_agree. Qed.

(* bold-italic markup exactly on callsub / retsub *)
Theorem C18_row_markup_exact :
  forall (s : string) (p : prog) (t : teal) (sel : string -> string),
    parse_program s = Ok p -> parse_teal p = Ok t ->
    forall (n : nat) (b : block) (r : row), tblock t n = Some b -> In r (block_rows sel (splitlines s) t b) ->
    exists i : ins,
      nth_error (t_prog t) (row_pos r) = Some i /\
      (row_markup r = MBoldItalic <-> (exists l : string, i_op i = ICallsub l) \/ i_op i = IRetsub).
Proof. exact @row_markup_exact. Qed.

(* escaping: injective on all strings, no raw markup character survives, the markup is recoverable from the text *)
Theorem C18_esc_inj : forall s1 s2 : string, esc s1 = esc s2 -> s1 = s2.
Proof. exact @esc_inj. Qed.
Theorem C18_esc_clean : forall (s : string) (d : ascii), raw_markup_char d = true -> has_char d (esc s) = false.
Proof. exact @esc_clean. Qed.
Theorem C18_mark_esc_inj :
  forall (m1 m2 : markup) (s1 s2 : string), mark m1 (esc s1) = mark m2 (esc s2) -> m1 = m2 /\ s1 = s2.
Proof. exact @mark_esc_inj. Qed.
Theorem C18_strip_not_injective_refuted : exists a b : string, a <> b /\ strip a = strip b.
Proof. exact strip_not_injective_refuted. Qed.

(* file names of the sub-cfg exports, in write order; pairwise distinct *)
Theorem C18_all_subroutines_files_gen_eq :
  forall (t : teal) (prefix : string), all_subroutines_files_gen t prefix = Some (sub_cfg_files_prefixed prefix t).
Proof. exact @all_subroutines_files_gen_eq. Qed.
Theorem C18_sub_cfg_files_prefixed_empty : forall t : teal, sub_cfg_files_prefixed "" t = sub_cfg_files t.
Proof. exact @sub_cfg_files_prefixed_empty. Qed.
Theorem C18_sub_cfg_file_names_distinct :
  forall (prefix : string) (t : teal), NoDup (map s_name (t_subs t)) -> NoDup (map fst (sub_cfg_files_prefixed prefix t)).
Proof. exact @sub_cfg_file_names_distinct. Qed.

Print Assumptions C18_instruction_to_dot_gen_eq.
Print Assumptions C18_source_row_parsed.
Print Assumptions C18_block_rows_exact.
Print Assumptions C18_bb_label_gen_parsed.
Print Assumptions C18_rows_json_agree.
Print Assumptions C18_row_markup_exact.
Print Assumptions C18_esc_inj.
Print Assumptions C18_mark_esc_inj.
Print Assumptions C18_all_subroutines_files_gen_eq.
Print Assumptions C18_sub_cfg_file_names_distinct.
