(* C18  Exported graphs and reports denote exactly the internal results.  Property theorems only.
   The writers themselves (DOT syntax, json.dumps, re.search) are not modelled; the artefacts are read back by
   the harness and compared with the model's graph and paths.  What the theorems contribute is that the
   compared internal objects are what C02/C04/C05 say they are. *)
From Coq Require Import List String.
From Tealer Require Import Syntax Parse Cfg Analysis Detect SubLemmas SearchLemmas Paths.
Import ListNotations.

(* "count equals the number of listed paths" and "no path twice" for the list the JSON is produced from *)
Theorem C18_paths_nodup : forall f validated report,
  (forall n b, fblock f n = Some b -> NoDup (b_next b)) ->
  forall fuel ps, detect_paths f validated report fuel = Done ps -> NoDup ps.
Proof. exact detect_paths_nodup. Qed.
(* one node per retained block: the retained block list is duplicate-free and sorted *)
Theorem C18_blocks_nodup : forall p t bs, parse_teal p = Ok t -> build_blocks p = Some bs -> NoDup (retained_ids t).
Proof. intros p t bs H1 H2. destruct (retained_char p t bs H1 H2) as [_ [_ [H _]]]. exact H. Qed.

Print Assumptions C18_paths_nodup.
Print Assumptions C18_blocks_nodup.
