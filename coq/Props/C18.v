(* C18  Exported graphs and reports denote exactly the internal results.  Property theorems only.
   The writers themselves (DOT syntax, json.dumps, re.search) are not modelled; the artefacts are read back by
   the harness and compared with the model's graph and paths.  What the theorems contribute is that the
   compared internal objects are what C02/C04/C05 say they are. *)
From Coq Require Import List String.
From Tealer Require Import Syntax Parse Cfg Analysis Detect SubLemmas SearchLemmas Paths.
Import ListNotations.

(* "count equals the number of listed paths" and "no path twice" for the list the JSON is produced from *)
Theorem C18_paths_nodup : forall f validated report,
  (forall n b, fblock f n = Some b -> NoDup (b_next b)) ->
  forall fuel ps, detect_paths f validated report fuel = Done ps -> NoDup ps.
Proof. exact detect_paths_nodup. Qed.
(* one node per retained block: the retained block list is duplicate-free and sorted *)
Theorem C18_blocks_nodup : forall p t bs, parse_teal p = Ok t -> build_blocks p = Some bs -> NoDup (retained_ids t).
Proof. intros p t bs H1 H2. destruct (retained_char p t bs H1 H2) as [_ [_ [H _]]]. exact H. Qed.

Print Assumptions C18_paths_nodup.
Print Assumptions C18_blocks_nodup.

(* ------------------------------------------------------------------------------------------------------------
   Extension (second round): theorems from Lemmas/{WalkLemmas,OutputLemmas,TypeExec,NoMiss2,ParseLemmas2,PaddingLemmas}.v *)
From Coq Require Import List String NArith ZArith Bool Arith.
From Tealer Require Import Tables Leaves LeafPrelude Syntax Parse Cfg StackAst Keys Analysis Domains Detect Group Output Runs Eval Exec InsExec Paths WalkLemmas OutputLemmas TypeExec NoMiss2 ParseLemmas2 PaddingLemmas.

(* `cfg` DOT: one node per retained block, no node twice *)
Theorem C18_cfg_nodes :
  forall (p : prog) (t : teal),
       parse_teal p = Ok t -> NoDup (full_cfg_nodes t) /\ (forall n : nat, In n (full_cfg_nodes t) <-> (exists b : block, tblock t n = Some b)).
Proof. exact @full_cfg_nodes_spec. Qed.

(* the lines shown in a node are the line numbers of the block's instructions, in order *)
Theorem C18_cfg_node_lines :
  forall (t : teal) (n : nat) (b : block),
       tblock t n = Some b ->
       full_cfg_node_lines t n = flat_map (fun k : nat => match nth_error (t_prog t) k with
                                                          | Some i => i_line i :: nil
                                                          | None => nil
                                                          end) (b_ins b).
Proof. exact @full_cfg_node_lines_spec. Qed.

(* `cfg` DOT: the drawn edges are exactly the global graph relation cfg_edge (successor edges; callsub -> callee entry; retsub -> return point of every retained call site of its subroutine) *)
Theorem C18_cfg_edges_exact :
  forall (p : prog) (t : teal), parse_teal p = Ok t -> forall b b' : nat, In (b, b') (full_cfg_edges t) <-> cfg_edge t b b'.
Proof. exact @full_cfg_edges_exact. Qed.

(* every step of every run of the contract is an edge of the drawing *)
Theorem C18_every_execution_step_is_drawn :
  forall (p : prog) (t : teal),
       parse_teal p = Ok t ->
       forall cfgs : list rconfig,
       Run (whole_function t) cfgs ->
       forall (pre : list rconfig) (c c' : rconfig) (post : list rconfig), cfgs = pre ++ c :: c' :: post -> In (fst c, fst c') (full_cfg_edges t).
Proof. exact @run_steps_drawn. Qed.

(* `subroutine-cfg`: local edges of the routine *)
Theorem C18_subroutine_cfg_edges :
  forall (p : prog) (t : teal),
       parse_teal p = Ok t ->
       forall (s : subroutine) (b b' : nat),
       In (b, b') (sub_cfg_edges t s) <->
       In b (s_blocks s) /\ (exists blk : block, tblock t b = Some blk /\ is_callsub_block t blk = false /\ In b' (b_next blk)).
Proof. exact @sub_cfg_edges_exact. Qed.

(* `subroutine-cfg`: one call box per call site, with its return point and callee name *)
Theorem C18_subroutine_cfg_callboxes :
  forall (p : prog) (t : teal),
       parse_teal p = Ok t ->
       forall (s : subroutine) (c : nat) (rp : option nat) (name : string),
       In (c, rp, name) (sub_cfg_callboxes t s) <->
       In c (s_blocks s) /\ (exists blk : block, tblock t c = Some blk /\ exit_op t blk = Some (ICallsub name) /\ rp = sub_return_point blk).
Proof. exact @sub_cfg_callboxes_exact. Qed.

(* the DOT file of a reported path marks exactly the path's blocks *)
Theorem C18_path_marks :
  forall (path : list nat) (b : nat), path_marks path b = true <-> In b path.
Proof. exact @path_marks_spec. Qed.

(* --filter-paths removes exactly the paths whose short notation matches (re.search passed as parameter) *)
Theorem C18_filter_paths :
  forall (search : string -> string -> bool) (pattern : string) (paths : list (list nat)) (path : list nat),
       pattern <> "" -> In path (filter_paths search pattern paths) <-> In path paths /\ search pattern (short_notation path) = false.
Proof. exact @filter_paths_spec. Qed.

(* count = number of listed paths; listed short notations are those of the paths, in order *)
Theorem C18_json_count :
  forall (t : teal) (paths : list (list nat)),
       json_count paths = Datatypes.length (json_paths t paths) /\ map fst (json_paths t paths) = map short_notation paths.
Proof. exact @json_count_spec. Qed.

(* distinct paths have distinct short notations *)
Theorem C18_short_notation_injective :
  forall l1 l2 : list nat, short_notation l1 = short_notation l2 -> l1 = l2.
Proof. exact @short_notation_inj. Qed.

Print Assumptions C18_cfg_nodes.
Print Assumptions C18_cfg_node_lines.
Print Assumptions C18_cfg_edges_exact.
Print Assumptions C18_every_execution_step_is_drawn.
Print Assumptions C18_subroutine_cfg_edges.
Print Assumptions C18_subroutine_cfg_callboxes.
Print Assumptions C18_path_marks.
Print Assumptions C18_filter_paths.
Print Assumptions C18_json_count.
Print Assumptions C18_short_notation_injective.
