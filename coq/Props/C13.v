(* C13  Group-configuration verdicts follow the group semantics.  Property theorems only. *)
From Coq Require Import List String ZArith.
From Tealer Require Import LeafPrelude Syntax Analysis Domains Detect Group GroupLemmas.
Import ListNotations.

(* a transaction is reported iff it is eligible and neither its own contracts, nor a member reading it by the
   configured absolute index, nor a member reading it by a configured offset excludes the value at every exit *)
Theorem C13_verdict : forall funcs checks dtype vtypes group t,
  txn_vulnerable funcs checks dtype vtypes group t = true <->
  eligible dtype vtypes t /\ ~ own_cleared funcs checks t /\ ~ abs_cleared funcs checks group t /\ ~ rel_cleared funcs checks group t.
Proof. exact vulnerable_iff. Qed.

(* offset inversion: `other` is consulted with offset off for t exactly when other's configured relative index
   off (the last entry for that transaction) points to t *)
Theorem C13_offset_inversion : forall group t oid off, NoDup (map g_id group) ->
  In (oid, off) (relative_accessors group t) <->
  exists other, In other group /\ g_id other = oid /\ last_pointing (rel_dict other) (g_id t) off.
Proof. exact relative_accessors_spec. Qed.

(* one transaction running one logic-sig: reported iff some terminating block is unvalidated, i.e. the
   single-contract criterion *)
Theorem C13_single_logic_sig : forall funcs checks dtype vtypes t k f r,
  g_logic_sig t = Some k -> g_application t = None -> nth_error funcs k = Some (f, r) ->
  g_abs t = None -> relative_accessors [t] t = [] -> eligible dtype vtypes t ->
  (txn_vulnerable funcs checks dtype vtypes [t] t = true <->
   exists b, fn_leaf_block f b /\ validated_in_block r checks None b = false).
Proof. exact single_logic_sig. Qed.

Print Assumptions C13_verdict.
Print Assumptions C13_offset_inversion.
Print Assumptions C13_single_logic_sig.
