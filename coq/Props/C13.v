(* C13  Group-configuration verdicts follow the group semantics.  Property theorems only. *)
From Coq Require Import List String ZArith.
From Tealer Require Import LeafPrelude Syntax Analysis Domains Detect Group GroupLemmas.
Import ListNotations.

(* a transaction is reported iff it is eligible and neither its own contracts, nor a member reading it by the
   configured absolute index, nor a member reading it by a configured offset excludes the value at every exit *)
Theorem C13_verdict : forall funcs checks dtype vtypes group t,
  txn_vulnerable funcs checks dtype vtypes group t = true <->
  eligible dtype vtypes t /\ ~ own_cleared funcs checks t /\ ~ abs_cleared funcs checks group t /\ ~ rel_cleared funcs checks group t.
Proof. exact vulnerable_iff. Qed.

(* offset inversion: `other` is consulted with offset off for t exactly when other's configured relative index
   off (the last entry for that transaction) points to t *)
Theorem C13_offset_inversion : forall group t oid off, NoDup (map g_id group) ->
  In (oid, off) (relative_accessors group t) <->
  exists other, In other group /\ g_id other = oid /\ last_pointing (rel_dict other) (g_id t) off.
Proof. exact relative_accessors_spec. Qed.

(* one transaction running one logic-sig: reported iff some terminating block is unvalidated, i.e. the
   single-contract criterion *)
Theorem C13_single_logic_sig : forall funcs checks dtype vtypes t k f r,
  g_logic_sig t = Some k -> g_application t = None -> nth_error funcs k = Some (f, r) ->
  g_abs t = None -> relative_accessors [t] t = [] -> eligible dtype vtypes t ->
  (txn_vulnerable funcs checks dtype vtypes [t] t = true <->
   exists b, fn_leaf_block f b /\ validated_in_block r checks None b = false).
Proof. exact single_logic_sig. Qed.

Print Assumptions C13_verdict.
Print Assumptions C13_offset_inversion.
Print Assumptions C13_single_logic_sig.

(* ------------------------------------------------------------------------------------------------------------
   Extension (second round): semantic soundness of the verdict (Lemmas/GroupSem.v) *)
From Coq Require Import List String NArith ZArith Bool Arith.
From Tealer Require Import Tables Leaves LeafPrelude Syntax Parse Cfg StackAst Keys Analysis Domains Detect Group Runs Eval Exec ExecLemmas GroupLemmas NoMiss GroupSem.

(* SEMANTIC CLAUSE (missing-fee-check): whenever there is a concrete group consistent with the configuration (distinct ids, configured absolute indices and offsets hold for the position assignment) that every configured contract approves (Spec/Exec.Accepts, each member seeing the same group) while transaction t pays a fee above the bound, t is reported *)
Theorem C13_fee_no_miss_semantic :
  forall (funcs : list (func * fn_result)) (group : list gtxn) (G : cgroup) (posn : string -> N) (t : gtxn) (fee : Z),
       consistent funcs group G posn ->
       group_ok funcs group posn ->
       In t group ->
       g_has_logic_sig t = true ->
       cg_field G (posn (g_id t)) "Fee" = VInt fee ->
       (MAX_TRANSACTION_COSTz < fee <= MAX_UINT64z)%Z -> txn_vulnerable funcs checks_missing_fee_check "STATELESS" None group t = true.
Proof. exact @group_fee_no_miss. Qed.

(* ... contrapositive: a transaction that is cleared pays at most the bound in every such group *)
Theorem C13_fee_cleared_sound :
  forall (funcs : list (func * fn_result)) (group : list gtxn) (G : cgroup) (posn : string -> N) (t : gtxn) (fee : Z),
       consistent funcs group G posn ->
       group_ok funcs group posn ->
       In t group ->
       g_has_logic_sig t = true ->
       txn_vulnerable funcs checks_missing_fee_check "STATELESS" None group t = false ->
       cg_field G (posn (g_id t)) "Fee" = VInt fee -> (fee <= MAX_UINT64z)%Z -> (fee <= MAX_TRANSACTION_COSTz)%Z.
Proof. exact @group_fee_cleared_sound. Qed.

(* the same for rekey-to (partial: address hypotheses of C01 carried as side condition on the approving executions) *)
Theorem C13_rekey_no_miss_semantic_partial :
  forall (funcs : list (func * fn_result)) (group : list gtxn) (G : cgroup) (posn : string -> N) (a : string),
       consistent_with (rekey_side funcs group posn a) funcs group G posn ->
       group_base_ok funcs group ->
       forall t : gtxn,
       In t group ->
       cg_field G (posn (g_id t)) "RekeyTo" = VAddr a ->
       a <> "ZERO" ->
       LeafLemmas.is_marker a = false -> g_has_logic_sig t = true -> txn_vulnerable funcs checks_rekey_to "STATELESS" None group t = true.
Proof. exact @group_rekey_no_miss_partial. Qed.

(* "cleared when its own contract, or another member reading it through the configured absolute index or offset, excludes the value at every accepting exit" (exits = leaf blocks of the function) *)
Theorem C13_cleared_when_excluded_at_every_exit :
  forall (funcs : list (func * fn_result)) (checks : bctx -> bool) (dtype : string) (vtypes : option (list string)) 
         (group : list gtxn) (t : gtxn),
       (exists (k : nat) (f : func) (r : fn_result),
          runs t k /\ nth_error funcs k = Some (f, r) /\ (forall b : nat, fn_leaf_block f b -> validated_in_block r checks (g_abs t) b = true)) \/
       (exists (i : N) (other : gtxn) (k : nat) (f : func) (r : fn_result),
          g_abs t = Some i /\
          In other group /\
          runs other k /\ nth_error funcs k = Some (f, r) /\ (forall b : nat, fn_leaf_block f b -> checks (ctx_of r b (KAbs i)) = true)) \/
       NoDup (map g_id group) /\
       (exists (other : gtxn) (off : Z) (k : nat) (f : func) (r : fn_result),
          In other group /\
          last_pointing (rel_dict other) (g_id t) off /\
          runs other k /\ nth_error funcs k = Some (f, r) /\ (forall b : nat, fn_leaf_block f b -> checks (ctx_of r b (KRel off)) = true)) ->
       txn_vulnerable funcs checks dtype vtypes group t = false.
Proof. exact @cleared_when_exits. Qed.

Print Assumptions C13_fee_no_miss_semantic.
Print Assumptions C13_fee_cleared_sound.
Print Assumptions C13_rekey_no_miss_semantic_partial.
Print Assumptions C13_cleared_when_excluded_at_every_exit.

(* ------------------------------------------------------------------------------------------------------------
   Extension (third round) *)
From Coq Require Import List String NArith ZArith Bool Arith Permutation.
From Tealer Require Import Tables Leaves LeafPrelude Syntax Parse Cfg StackAst Keys Analysis Domains Detect Group Runs Eval Exec ExecLemmas GroupLemmas NoMiss NoMiss2 TypeExec GroupSem GroupSem2 Base64 ParseLemmas2 Base64Lemmas.

(* semantic clause for can-close-account (can-close-asset, is-updatable/deletable, unprotected-* are analogous theorems of Lemmas/GroupSem2.v) *)
Theorem C13_can_close_account_no_miss_semantic_partial :
  forall (funcs : list (func * fn_result)) (group : list gtxn) (G : cgroup) (posn : string -> N) (a : string) (t : gtxn),
       group_base_ok funcs group ->
       In t group ->
       a <> "ZERO" ->
       LeafLemmas.is_marker a = false ->
       g_has_logic_sig t = true ->
       consistent_with (addr_side funcs group posn "CloseRemainderTo" a) funcs group G posn ->
       group_kind_ok funcs group posn "Pay" 1 0 0 ->
       In (g_type t) ("Any" :: "Unknown" :: "Pay" :: nil) ->
       cg_kind G (posn (g_id t)) 1 0 0 ->
       cg_field G (posn (g_id t)) "CloseRemainderTo" = VAddr a ->
       txn_vulnerable funcs checks_can_close_account "STATELESS" (Some ("Any" :: "Unknown" :: "Pay" :: nil)) group t = true.
Proof. exact @group_closeto_no_miss_partial. Qed.

Theorem C13_is_updatable_no_miss_semantic_partial :
  forall (funcs : list (func * fn_result)) (group : list gtxn) (G : cgroup) (posn : string -> N) (t : gtxn) (kapp : nat) (ap : N),
       consistent funcs group G posn ->
       group_base_ok funcs group ->
       In t group ->
       g_application t = Some kapp ->
       group_kind_ok funcs group posn "ApplUpdateApplication" 6 4 ap ->
       cg_kind G (posn (g_id t)) 6 4 ap -> txn_vulnerable funcs checks_is_updatable "STATEFULL" None group t = true.
Proof. exact @group_updatable_no_miss_partial. Qed.

(* the verdict does not depend on the order in which the transactions are listed (distinct ids) *)
Theorem C13_verdict_independent_of_listing_order :
  forall (funcs : list (func * fn_result)) (checks : bctx -> bool) (dtype : string) (vtypes : option (list string)) (group group' : list gtxn),
       Permutation group group' ->
       NoDup (map g_id group) ->
       forall id : string, In id (group_verdict funcs checks dtype vtypes group) <-> In id (group_verdict funcs checks dtype vtypes group').
Proof. exact @group_verdict_perm. Qed.

(* ... the distinct-ids hypothesis is necessary *)
Theorem C13_listing_order_needs_distinct_ids_refuted :
  exists (funcs : list (func * fn_result)) (checks : bctx -> bool) (group group' : list gtxn),
         Permutation group group' /\
         ~
         (forall id : string,
          In id (group_verdict funcs checks "STATELESS_AND_STATEFULL" None group) <->
          In id (group_verdict funcs checks "STATELESS_AND_STATEFULL" None group')).
Proof. exact @group_verdict_perm_dup_refuted. Qed.

Print Assumptions C13_can_close_account_no_miss_semantic_partial.
Print Assumptions C13_is_updatable_no_miss_semantic_partial.
Print Assumptions C13_verdict_independent_of_listing_order.
Print Assumptions C13_listing_order_needs_distinct_ids_refuted.

(* ------------------------------------------------------------------------------------------------------------
   Extension (third round): further code regenerated from the Python source with equivalence lemmas *)
From Coq Require Import List String NArith ZArith Bool Arith.
From Tealer Require Import Tables Leaves LeafPrelude Syntax Parse Cfg StackAst Keys KeysGen Analysis Domains Detect Regex Group AssertedGen GraphGen SearchGen ConstraintsGen RegexGen GroupGen GraphGenLemmas TotalSolver GroupLemmas RegexLemmas ConstraintsGenLemmas RegexGenLemmas GroupGenLemmas.

(* the group-mode verdict REGENERATED from detectors/utils.py and transactions.py (tools/translate_group.py -> Gen/GroupGen.v) equals the model's verdict on every well-formed group with distinct ids *)
Theorem C13_regenerated_verdict_equals_model :
  forall (funcs : list (func * fn_result)) (checks : bctx -> bool) (dtype : string) (vtypes : option (list string)) 
         (group : list gtxn) (t : gtxn),
       group_ok funcs group ->
       In t group -> txn_vulnerable_gen funcs checks dtype vtypes group t = Some (txn_vulnerable funcs checks dtype vtypes group t).
Proof. exact @txn_vulnerable_gen_eq. Qed.

(* ... hence the reported ids are exactly the eligible, uncleared transactions *)
Theorem C13_regenerated_verdict_spec :
  forall (funcs : list (func * fn_result)) (checks : bctx -> bool) (dtype : string) (vtypes : option (list string)) 
         (group : list gtxn) (ids : list string),
       dtype = "STATELESS" \/ dtype = "STATEFULL" ->
       group_ok funcs group ->
       group_verdict_gen funcs checks dtype vtypes group = Some ids ->
       forall id : string,
       In id ids <->
       (exists t : gtxn,
          In t group /\
          g_id t = id /\
          eligible dtype vtypes t /\ ~ own_cleared funcs checks t /\ ~ abs_cleared funcs checks group t /\ ~ rel_cleared funcs checks group t).
Proof. exact @group_verdict_gen_spec. Qed.

Print Assumptions C13_regenerated_verdict_equals_model.
Print Assumptions C13_regenerated_verdict_spec.

(* ------------------------------------------------------------------------------------------------------------
   Extension (fourth round): the semantic clause for the remaining group-mode detectors, its reading on the reported
   list and for cleared transactions, and the one-transaction clause (Lemmas/GroupSem3.v) *)
From Coq Require Import List String NArith ZArith Bool Arith.
From Tealer Require Import Tables Leaves LeafPrelude Syntax Parse Cfg StackAst Keys Analysis Domains Detect Group Driver Paths Runs Eval Exec ExecLemmas GraphOk GroupLemmas NoMiss NoMiss2 TypeExec GroupSem GroupSem2 GroupSem3.

(* can-close-asset: t is an asset transfer with a non-zero AssetCloseTo in an approved consistent concrete group *)
Theorem C13_can_close_asset_no_miss_semantic_partial :
  forall (funcs : list (func * fn_result)) (group : list gtxn) (G : cgroup) (posn : string -> N) (a : string) (t : gtxn),
       group_base_ok funcs group ->
       In t group ->
       a <> "ZERO" ->
       LeafLemmas.is_marker a = false ->
       g_has_logic_sig t = true ->
       consistent_with (addr_side funcs group posn "AssetCloseTo" a) funcs group G posn ->
       group_kind_ok funcs group posn "Axfer" 4 0 0 ->
       In (g_type t) ("Any" :: "Unknown" :: "Axfer" :: nil) ->
       cg_kind G (posn (g_id t)) 4 0 0 ->
       cg_field G (posn (g_id t)) "AssetCloseTo" = VAddr a ->
       txn_vulnerable funcs checks_can_close_asset "STATELESS" (Some ("Any" :: "Unknown" :: "Axfer" :: nil)) group t = true.
Proof. exact @group_assetcloseto_no_miss_partial. Qed.

Theorem C13_is_deletable_no_miss_semantic_partial :
  forall (funcs : list (func * fn_result)) (group : list gtxn) (G : cgroup) (posn : string -> N) (t : gtxn) (kapp : nat) (ap : N),
       consistent funcs group G posn ->
       group_base_ok funcs group ->
       In t group ->
       g_application t = Some kapp ->
       group_kind_ok funcs group posn "ApplDeleteApplication" 6 5 ap ->
       cg_kind G (posn (g_id t)) 6 5 ap -> txn_vulnerable funcs checks_is_deletable "STATEFULL" None group t = true.
Proof. exact @group_deletable_no_miss_partial. Qed.

Theorem C13_unprotected_updatable_no_miss_semantic_partial :
  forall (funcs : list (func * fn_result)) (group : list gtxn) (G : cgroup) (posn : string -> N) (a : string) (t : gtxn) (kapp : nat) (ap : N),
       consistent_with (addr_side funcs group posn "Sender" a) funcs group G posn ->
       group_base_ok funcs group ->
       In t group ->
       g_application t = Some kapp ->
       cg_field G (posn (g_id t)) "Sender" = VAddr a ->
       a <> "ZERO" ->
       LeafLemmas.is_marker a = false ->
       group_kind_ok funcs group posn "ApplUpdateApplication" 6 4 ap ->
       cg_kind G (posn (g_id t)) 6 4 ap -> txn_vulnerable funcs checks_unprotected_updatable "STATEFULL" None group t = true.
Proof. exact @group_unprotected_updatable_no_miss_partial. Qed.

Theorem C13_unprotected_deletable_no_miss_semantic_partial :
  forall (funcs : list (func * fn_result)) (group : list gtxn) (G : cgroup) (posn : string -> N) (a : string) (t : gtxn) (kapp : nat) (ap : N),
       consistent_with (addr_side funcs group posn "Sender" a) funcs group G posn ->
       group_base_ok funcs group ->
       In t group ->
       g_application t = Some kapp ->
       cg_field G (posn (g_id t)) "Sender" = VAddr a ->
       a <> "ZERO" ->
       LeafLemmas.is_marker a = false ->
       group_kind_ok funcs group posn "ApplDeleteApplication" 6 5 ap ->
       cg_kind G (posn (g_id t)) 6 5 ap -> txn_vulnerable funcs checks_unprotected_deletable "STATEFULL" None group t = true.
Proof. exact @group_unprotected_deletable_no_miss_partial. Qed.

(* ONE statement for the eight detectors the driver runs in group mode (Driver.group_checks; (dtype, vt) = the row of the
   regenerated detector_table; d = the row of GroupSem3.danger_table: kind / address field / fee the detector looks for):
   an eligible transaction that carries the dangerous value in a consistent concrete group approved by every configured
   contract is in the reported list.  group_side = the analysis-fragment side conditions (known findings D2, D16, D19) *)
Theorem C13_every_group_detector_no_miss_semantic_partial :
  forall (funcs : list (func * fn_result)) (group : list gtxn) (G : cgroup) (posn : string -> N) (t : gtxn) (a : string) (ap : N) (fee : Z),
       In t group ->
       forall (name : string) (checks : bctx -> bool) (dtype : string) (vt : option (list string)) (d : danger),
       In (name, checks) group_checks ->
       assoc name detector_table = Some (dtype, vt) ->
       assoc name danger_table = Some d ->
       group_side d funcs group G posn a ap ->
       eligible dtype vt t -> txn_dangerous d G (posn (g_id t)) a ap fee -> In (g_id t) (group_verdict funcs checks dtype vt group).
Proof. exact @group_verdict_all_partial. Qed.

(* ... contrapositive: an eligible transaction that is cleared carries the dangerous value in no such group *)
Theorem C13_every_group_detector_cleared_sound_partial :
  forall (funcs : list (func * fn_result)) (group : list gtxn) (G : cgroup) (posn : string -> N) (t : gtxn) (a : string) (ap : N) (fee : Z),
       In t group ->
       forall (name : string) (checks : bctx -> bool) (dtype : string) (vt : option (list string)) (d : danger),
       In (name, checks) group_checks ->
       assoc name detector_table = Some (dtype, vt) ->
       assoc name danger_table = Some d ->
       group_side d funcs group G posn a ap ->
       eligible dtype vt t -> txn_vulnerable funcs checks dtype vt group t = false -> ~ txn_dangerous d G (posn (g_id t)) a ap fee.
Proof. exact @group_cleared_all_partial. Qed.

(* group-size-check has no group-mode verdict: it is the one detector the driver does not run on group configurations
   (groupsize.py runs the single-contract path search on every configured contract) *)
Theorem C13_group_size_check_has_no_group_verdict :
  assoc "group-size-check" group_checks = None /\
  map fst group_checks = filter (fun n : string => negb (n =? "group-size-check")%string) (map fst detectors) /\ Datatypes.length group_checks = 8.
Proof. exact groupsize_not_a_group_check. Qed.

(* LAST SENTENCE OF THE PROPERTY.  One transaction running one contract (as logic-sig or as application), no absolute
   index configured: reported iff some exit of the contract is unvalidated ... *)
Theorem C13_single_contract_exits :
  forall (funcs : list (func * fn_result)) (checks : bctx -> bool) (dtype : string) (vtypes : option (list string))
         (t : gtxn) (k : nat) (f : func) (r : fn_result),
       single_contract t k ->
       nth_error funcs k = Some (f, r) ->
       relative_accessors (t :: nil) t = nil ->
       eligible dtype vtypes t ->
       g_abs t = None ->
       txn_vulnerable funcs checks dtype vtypes (t :: nil) t = true <->
       (exists b : nat, fn_leaf_block f b /\ validated_in_block r checks None b = false).
Proof. exact @single_contract_leaf. Qed.

(* ... every path the single-contract detector (C01/C03: Detect.run_detector) reports makes the group report the
   transaction, for all nine detector names *)
Theorem C13_single_contract_path_reported :
  forall (funcs : list (func * fn_result)) (checks : bctx -> bool) (dtype : string) (vtypes : option (list string))
         (t : gtxn) (k : nat) (f : func) (r : fn_result),
       single_contract t k ->
       nth_error funcs k = Some (f, r) ->
       relative_accessors (t :: nil) t = nil ->
       eligible dtype vtypes t ->
       forall (fuel : nat) (name : string) (ps : list (list nat)) (p : list nat),
       g_abs t = None -> run_detector f r fuel name checks = Done ps -> In p ps -> txn_vulnerable funcs checks dtype vtypes (t :: nil) t = true.
Proof. exact @single_group_reports_when_path. Qed.

(* ... the two verdicts are EQUAL exactly when every unvalidated exit is the end of a path of unvalidated blocks *)
Theorem C13_single_contract_verdict_equal_partial :
  forall (funcs : list (func * fn_result)) (checks : bctx -> bool) (dtype : string) (vtypes : option (list string))
         (t : gtxn) (k : nat) (f : func) (r : fn_result),
       single_contract t k ->
       nth_error funcs k = Some (f, r) ->
       relative_accessors (t :: nil) t = nil ->
       eligible dtype vtypes t ->
       forall (fuel : nat) (name : string) (ps : list (list nat)),
       name <> "group-size-check"%string ->
       g_abs t = None ->
       leaves_justified f r checks ->
       run_detector f r fuel name checks = Done ps -> txn_vulnerable funcs checks dtype vtypes (t :: nil) t = true <-> ps <> nil.
Proof. exact @single_group_eq_contract_partial. Qed.

Theorem C13_single_contract_verdict_equal_exact :
  forall (funcs : list (func * fn_result)) (checks : bctx -> bool) (dtype : string) (vtypes : option (list string))
         (t : gtxn) (k : nat) (f : func) (r : fn_result),
       single_contract t k ->
       nth_error funcs k = Some (f, r) ->
       relative_accessors (t :: nil) t = nil ->
       eligible dtype vtypes t ->
       forall (fuel : nat) (name : string) (ps : list (list nat)),
       name <> "group-size-check"%string ->
       g_abs t = None ->
       run_detector f r fuel name checks = Done ps ->
       (txn_vulnerable funcs checks dtype vtypes (t :: nil) t = true <-> ps <> nil) <-> leaves_justified f r checks.
Proof. exact @single_group_eq_contract_exact. Qed.

(* ... and WITHOUT that condition the sentence is false of the faithful model: a parsed logic-sig analysed by run_all on
   which can-close-account reports no path while the one-transaction group reports the transaction *)
Theorem C13_single_contract_verdict_equal_refuted :
  ~ (forall (funcs : list (func * fn_result)) (checks : bctx -> bool) (dtype : string) (vtypes : option (list string))
          (t : gtxn) (k : nat) (f : func) (r : fn_result) (fuel : nat) (name : string) (ps : list (list nat)),
        single_contract t k ->
        nth_error funcs k = Some (f, r) ->
        relative_accessors (t :: nil) t = nil ->
        eligible dtype vtypes t ->
        name <> "group-size-check"%string ->
        g_abs t = None ->
        graph_ok f ->
        (exists fuelr : nat, run_all f fuelr = Done r) ->
        In (name, checks) detectors ->
        run_detector f r fuel name checks = Done ps -> txn_vulnerable funcs checks dtype vtypes (t :: nil) t = true <-> ps <> nil).
Proof. exact single_group_eq_contract_refuted. Qed.

(* the same transaction configured with an absolute index i *)
Theorem C13_single_contract_absolute_index :
  forall (funcs : list (func * fn_result)) (checks : bctx -> bool) (dtype : string) (vtypes : option (list string))
         (t : gtxn) (k : nat) (f : func) (r : fn_result),
       single_contract t k ->
       nth_error funcs k = Some (f, r) ->
       relative_accessors (t :: nil) t = nil ->
       eligible dtype vtypes t ->
       forall i : N,
       g_abs t = Some i ->
       txn_vulnerable funcs checks dtype vtypes (t :: nil) t = true <->
       (exists b : nat, fn_leaf_block f b /\ validated_in_block r checks (Some i) b = false) /\
       (exists b : nat, fn_leaf_block f b /\ checks (ctx_of r b (KAbs i)) = false).
Proof. exact @single_group_absolute. Qed.

Print Assumptions C13_can_close_asset_no_miss_semantic_partial.
Print Assumptions C13_is_deletable_no_miss_semantic_partial.
Print Assumptions C13_unprotected_updatable_no_miss_semantic_partial.
Print Assumptions C13_unprotected_deletable_no_miss_semantic_partial.
Print Assumptions C13_every_group_detector_no_miss_semantic_partial.
Print Assumptions C13_every_group_detector_cleared_sound_partial.
Print Assumptions C13_group_size_check_has_no_group_verdict.
Print Assumptions C13_single_contract_exits.
Print Assumptions C13_single_contract_path_reported.
Print Assumptions C13_single_contract_verdict_equal_partial.
Print Assumptions C13_single_contract_verdict_equal_exact.
Print Assumptions C13_single_contract_verdict_equal_refuted.
Print Assumptions C13_single_contract_absolute_index.

(* for a contract without callsub / retsub the side condition of the equality is plain graph reachability: some exit is
   reachable from the entry through unvalidated blocks whenever some exit is unvalidated *)
Theorem C13_single_contract_side_condition_is_reachability :
  forall (f : func) (r : fn_result) (checks : bctx -> bool),
       subroutine_free f ->
       leaves_justified f r checks <->
       ((exists b : nat, fn_leaf_block f b /\ contract_validated r checks b = false) ->
        exists (b : nat) (blk : block), UReach f (contract_validated r checks) b /\ fblock f b = Some blk /\ leaf_global f blk = true).
Proof. exact leaves_justified_subroutine_free. Qed.

Print Assumptions C13_single_contract_side_condition_is_reachability.

(* ------------------------------------------------------------------------------------------------------------
   Extension (group-configuration reading regenerated): tools/translate_groupinit.py -> Gen/GroupInitGen.v,
   Lemmas/GroupInitGenLemmas.v *)
From Coq Require Import List String NArith ZArith Bool Arith.
From Tealer Require Import Tables Leaves LeafPrelude Syntax Parse Cfg StackAst Keys KeysGen Analysis Domains Detect Group SearchGen GroupGen GroupInitGen GroupLemmas GroupGenLemmas GroupInitGenLemmas.

(* the construction of Transaction / GroupTransaction objects from one group of the configuration, REGENERATED from
   init_tealer_from_config, equals a heap-free functional program (per entry: type table, application, logic-sig,
   repeated id; then relative indexes and absolute indexes; then fill_group_relative_indexes), for every contracts
   table and every entry list, with the same exception in the same case *)
Theorem C13_regenerated_group_init_is_functional :
  forall (cs : list (string * tcontract)) (grp : GroupConfigGroup), init_group_gen cs grp = init_group_spec cs grp.
Proof. exact init_group_gen_spec. Qed.

(* whenever it returns, the objects are exactly the model's records of the entries, in listing order (type through
   USER_CONFIG_TRANSACTION_TYPES, has_logic_sig forced by a logic_sig, functions by index, relative indexes = rel_dict of
   the configured pairs), ids are pairwise distinct, transactions / absolute_indexes / group_relative_indexes are what
   the regenerated verdict reads *)
Theorem C13_regenerated_group_init_yields_model_records :
  forall (cs : list (string * tcontract)) (grp : GroupConfigGroup) (heap : list tobj) (g : gobj),
       init_group_gen cs grp = Ok (heap, g) ->
       let es := cg_transactions grp in
       view_group heap g = map (cfg_gtxn cs) es /\
       NoDup (map ct_txn_id es) /\
       gr_transactions g = seq 0 (List.length es) /\
       List.length heap = List.length es /\
       gr_operation_name g = cg_operation grp /\
       gr_absolute_indexes g = abs_pairs 0 es /\
       Forall (fun o : tobj => o_group_transaction o = true) heap /\
       attr_group_relative_indexes (view_group heap g) = Some (gr_group_relative_indexes g).
Proof. exact init_group_ok_view. Qed.

(* regenerated reading followed by the regenerated verdict = the model's verdict on the model group *)
Theorem C13_regenerated_init_then_verdict_equals_model :
  forall (funcs : list (func * fn_result)) (checks : bctx -> bool) (dtype : string) (vtypes : option (list string))
         (cs : list (string * tcontract)) (grp : GroupConfigGroup) (heap : list tobj) (g : gobj),
       init_group_gen cs grp = Ok (heap, g) ->
       dtype = "STATELESS" \/ dtype = "STATEFULL" ->
       group_ok funcs (map (cfg_gtxn cs) (cg_transactions grp)) ->
       group_verdict_gen funcs checks dtype vtypes (view_group heap g) =
       Some (group_verdict funcs checks dtype vtypes (map (cfg_gtxn cs) (cg_transactions grp))).
Proof. exact init_then_verdict_eq. Qed.

(* the group built by init_tealer_from_single_contract: one transaction running the contract's only function, as
   logic-sig iff the contract type is LogicSig; for a logic-sig the group verdict is the single-contract criterion *)
Theorem C13_single_contract_group :
  forall (name ctype : string) (k : nat),
       exists (heap : list tobj) (g : gobj),
         init_single_gen name (single_contract name ctype k) = Ok (heap, g) /\
         view_group heap g = [single_gtxn name ctype k] /\ gr_absolute_indexes g = [] /\ gr_operation_name g = name.
Proof. exact init_single_view. Qed.

Theorem C13_single_contract_logic_sig_iff :
  forall (funcs : list (func * fn_result)) (checks : bctx -> bool) (dtype : string) (vtypes : option (list string))
         (name ctype : string) (k : nat) (f : func) (r : fn_result),
       nth_error funcs k = Some (f, r) ->
       let t := single_gtxn name ctype k in
       (g_logic_sig t = Some k <-> ctype = "LogicSig") /\
       (g_application t = Some k <-> ctype <> "LogicSig") /\
       (g_has_logic_sig t = true <-> ctype = "LogicSig") /\
       (ctype = "LogicSig" -> eligible dtype vtypes t ->
        (txn_vulnerable funcs checks dtype vtypes [t] t = true <->
         exists b, fn_leaf_block f b /\ validated_in_block r checks None b = false)).
Proof. exact init_single_logic_sig. Qed.

Print Assumptions C13_regenerated_group_init_is_functional.
Print Assumptions C13_regenerated_group_init_yields_model_records.
Print Assumptions C13_regenerated_init_then_verdict_equals_model.
Print Assumptions C13_single_contract_group.
Print Assumptions C13_single_contract_logic_sig_iff.

(* ------------------------------------------------------------------------------------------------------------
   Extension (the configuration FILE's listing of relative_indexes): Model/Group.yaml_rel / yaml_txn, used by
   Driver.handle_group, against the regenerated from_yaml + init_tealer_from_config -- Lemmas/YamlRelLemmas.v *)
From Tealer Require Import YamlRelLemmas.

(* for every listing of {other_txn_id, offset} entries the regenerated from_yaml builds the dict Group.yaml_dict *)
Theorem C13_from_yaml_relative_indexes : forall tid l,
  GroupConfigTransaction_from_yaml_gen [("txn_id", YStr tid); ("txn_type", YStr "pay"); ("relative_indexes", YList (yentries l))]
  = Ok (mkGroupConfigTransaction tid "pay" None None None None (Some (yaml_dict l))).
Proof. exact from_yaml_relative_indexes. Qed.

(* and the objects built from it carry the relative indexes that the model's request reading (yaml_txn, then rel_dict) gives *)
Theorem C13_configuration_listing_read_as_model : forall cs tid l e,
  GroupConfigTransaction_from_yaml_gen [("txn_id", YStr tid); ("txn_type", YStr "pay"); ("relative_indexes", YList (yentries l))] = Ok e ->
  g_rel (cfg_gtxn cs e) = rel_dict (yaml_txn (mkTxn tid "Pay" false None None None l)).
Proof. exact from_yaml_then_init_reads_yaml_txn. Qed.

Print Assumptions C13_from_yaml_relative_indexes.
Print Assumptions C13_configuration_listing_read_as_model.

(* ------------------------------------------------------------------------------------------------------------
   Extension (last sentence of the property, SINGLE-FIELD detectors): the side condition leaves_justified of
   C13_single_contract_verdict_equal_exact is discharged from the solver's equations for every function with a
   well-formed graph (GraphWf.graph_wf: every parsed structured contract) that has no callsub / retsub, and the
   result of run_all -- Lemmas/GroupSem4.v *)
From Tealer Require Import Paths GraphWf GroupSem3 GroupSem4.

(* one solve of one key: a block at which the result holds a prime point dg of the domain is reachable from the
   entry through blocks at which the result holds it (and whose block constraint admits it) *)
Theorem C13_one_key_unvalidated_reachable :
  forall (T : Type) (t_eqb : T -> T -> bool) (univ null : T) (union inter : T -> T -> T)
         (single : Syntax.instr -> nat -> list StackAst.sval -> T * T) (f : func) (dg : T -> Prop),
    ~ dg null -> (forall a b, dg (union a b) -> dg a \/ dg b) -> (forall a b, dg (inter a b) -> dg a /\ dg b) ->
    dg univ -> (forall a b, dg a -> dg (union a b)) -> (forall a b, dg b -> dg (union a b)) ->
    (forall a b, dg a -> dg b -> dg (inter a b)) -> (forall a b, t_eqb a b = true -> (dg a <-> dg b)) ->
    (forall a, t_eqb a a = true) ->
    graph_wf f = true -> subroutine_free f ->
    forall (bc : list (nat * T)) (fuel : nat) (lo : list (nat * T)) (v : nat -> bool),
    solve T t_eqb univ null union inter single f fuel bc = Done lo ->
    (forall b, (exists x, Analysis.lookup T lo b = Some x /\ dg x) ->
               ExactLemmas.okb T unit (pgamma T dg) tt bc b -> v b = false) ->
    forall b x, Analysis.lookup T lo b = Some x -> dg x -> UReach f v b.
Proof. exact solve_unvalidated_reachable. Qed.

(* run_family (own key, possible indices, at-index keys): for a validation predicate that reads one key family
   through a prime point (single_key_pred), every unvalidated exit ends a path of unvalidated blocks *)
Theorem C13_unvalidated_leaf_has_unvalidated_path :
  forall (T : Type) (t_eqb : T -> T -> bool) (univ null : T) (union inter : T -> T -> T)
         (single : Keys.keyfam -> Syntax.instr -> nat -> list StackAst.sval -> T * T) (dg : T -> Prop),
    ~ dg null -> (forall a b, dg (union a b) -> dg a \/ dg b) -> (forall a b, dg (inter a b) -> dg a /\ dg b) ->
    dg univ -> (forall a b, dg a -> dg (union a b)) -> (forall a b, dg b -> dg (union a b)) ->
    (forall a b, dg a -> dg b -> dg (inter a b)) -> (forall a b, t_eqb a b = true -> (dg a <-> dg b)) ->
    (forall a, t_eqb a a = true) ->
    forall (f : func) (fuel : nat) (indices : list (nat * list Z)) (res : list (Keys.keyfam * list (nat * T))),
    graph_wf f = true -> subroutine_free f ->
    run_family f fuel t_eqb univ null union inter single indices = Done res ->
    (forall b l i, Analysis.lookup _ indices b = Some l -> In i l -> (0 <= i < 16)%Z) ->
    forall (v : nat -> bool) (b : nat),
    single_key_pred T univ dg indices res v -> fn_leaf_block f b -> v b = false ->
    exists p, GoodPath f v p /\ last p 0 = b.
Proof. exact unvalidated_leaf_has_unvalidated_path. Qed.

(* missing-fee-check: the one-transaction group reports the transaction IFF the single-contract detector reports a path *)
Theorem C13_single_contract_verdict_equal_missing_fee_check :
  forall funcs dtype vtypes t k f r fuelr fuel ps,
    single_contract t k -> nth_error funcs k = Some (f, r) -> relative_accessors [t] t = [] ->
    eligible dtype vtypes t -> g_abs t = None ->
    graph_wf f = true -> subroutine_free f -> run_all f fuelr = Done r ->
    run_detector f r fuel "missing-fee-check" Leaves.checks_missing_fee_check = Done ps ->
    (txn_vulnerable funcs Leaves.checks_missing_fee_check dtype vtypes [t] t = true <-> ps <> []).
Proof. exact single_group_eq_contract_fee. Qed.

(* ... stated on source programs: every parsed structured contract without subroutines *)
Theorem C13_single_contract_verdict_equal_missing_fee_check_parsed :
  forall funcs dtype vtypes t k p tl r fuelr fuel ps,
    Cfg.parse_teal p = Parse.Ok tl -> struct_ok tl -> subroutine_free (whole_function tl) ->
    single_contract t k -> nth_error funcs k = Some (whole_function tl, r) -> relative_accessors [t] t = [] ->
    eligible dtype vtypes t -> g_abs t = None ->
    run_all (whole_function tl) fuelr = Done r ->
    run_detector (whole_function tl) r fuel "missing-fee-check" Leaves.checks_missing_fee_check = Done ps ->
    (txn_vulnerable funcs Leaves.checks_missing_fee_check dtype vtypes [t] t = true <-> ps <> []).
Proof. exact single_group_eq_contract_fee_parsed. Qed.

(* the unvalidated exit itself is the end of a reported-path candidate *)
Theorem C13_missing_fee_check_unvalidated_exit_ends_a_path :
  forall f fuel r b,
    graph_wf f = true -> subroutine_free f -> run_all f fuel = Done r ->
    fn_leaf_block f b -> validated_in_block r Leaves.checks_missing_fee_check None b = false ->
    exists p, GoodPath f (validated_in_block r Leaves.checks_missing_fee_check None) p /\ last p 0 = b.
Proof. exact unvalidated_leaf_has_unvalidated_path_fee. Qed.

(* the kind-only detectors *)
Theorem C13_single_contract_verdict_equal_is_updatable :
  forall funcs dtype vtypes t k f r fuelr fuel ps,
    single_contract t k -> nth_error funcs k = Some (f, r) -> relative_accessors [t] t = [] ->
    eligible dtype vtypes t -> g_abs t = None ->
    graph_wf f = true -> subroutine_free f -> run_all f fuelr = Done r ->
    run_detector f r fuel "is-updatable" Leaves.checks_is_updatable = Done ps ->
    (txn_vulnerable funcs Leaves.checks_is_updatable dtype vtypes [t] t = true <-> ps <> []).
Proof. exact single_group_eq_contract_updatable. Qed.

Theorem C13_single_contract_verdict_equal_is_deletable :
  forall funcs dtype vtypes t k f r fuelr fuel ps,
    single_contract t k -> nth_error funcs k = Some (f, r) -> relative_accessors [t] t = [] ->
    eligible dtype vtypes t -> g_abs t = None ->
    graph_wf f = true -> subroutine_free f -> run_all f fuelr = Done r ->
    run_detector f r fuel "is-deletable" Leaves.checks_is_deletable = Done ps ->
    (txn_vulnerable funcs Leaves.checks_is_deletable dtype vtypes [t] t = true <-> ps <> []).
Proof. exact single_group_eq_contract_deletable. Qed.

Print Assumptions C13_one_key_unvalidated_reachable.
Print Assumptions C13_unvalidated_leaf_has_unvalidated_path.
Print Assumptions C13_single_contract_verdict_equal_missing_fee_check.
Print Assumptions C13_single_contract_verdict_equal_missing_fee_check_parsed.
Print Assumptions C13_missing_fee_check_unvalidated_exit_ends_a_path.
Print Assumptions C13_single_contract_verdict_equal_is_updatable.
Print Assumptions C13_single_contract_verdict_equal_is_deletable.

(* the hypothesis "no callsub / retsub" cannot simply be dropped: on a parsed structured non-recursive logic-sig whose
   subroutine both approves and returns (the shape of finding D4) missing-fee-check reports no path while group mode
   reports the transaction (GroupSem4.FeeSubRefuted; replayed on the implementation) *)
Theorem C13_single_contract_verdict_equal_missing_fee_check_subroutine_refuted :
  ~ (forall funcs dtype vtypes t k p tl r fuelr fuel ps,
       Cfg.parse_teal p = Parse.Ok tl -> struct_ok tl -> graph_wf (whole_function tl) = true ->
       single_contract t k -> nth_error funcs k = Some (whole_function tl, r) -> relative_accessors [t] t = [] ->
       eligible dtype vtypes t -> g_abs t = None ->
       run_all (whole_function tl) fuelr = Done r ->
       run_detector (whole_function tl) r fuel "missing-fee-check" Leaves.checks_missing_fee_check = Done ps ->
       (txn_vulnerable funcs Leaves.checks_missing_fee_check dtype vtypes [t] t = true <-> ps <> [])).
Proof. exact single_group_eq_contract_fee_subroutine_refuted. Qed.

Print Assumptions C13_single_contract_verdict_equal_missing_fee_check_subroutine_refuted.

(* ------------------------------------------------------------------------------------------------------------
   Extension (group configuration reading completed): Lemmas/GroupCfgOk.v (flat boolean group_cfg_ok, per-exception
   iff theorems, fill_group_relative_indexes cannot raise), Lemmas/FromYamlLemmas.v (the from_yaml readers for every
   YAML map), Lemmas/AbsIndexLemmas.v (absolute_index as any integer) *)
From Tealer Require Import GroupCfgOk FromYamlLemmas AbsIndexLemmas.

(* the regenerated reading of one group (init_group_gen = the body of the groups loop of init_tealer_from_config)
   returns iff the flat boolean group_cfg_ok holds, for every contracts table and every entry list *)
Theorem C13_group_reading_returns_iff_cfg_ok :
  forall (cs : list (string * tcontract)) (grp : GroupConfigGroup),
  (exists r : list tobj * gobj, init_group_gen cs grp = Ok r) <-> group_cfg_ok cs (cg_transactions grp) = true.
Proof. exact init_group_returns_iff. Qed.

(* group_cfg_ok read as propositions: every entry names a listed type, listed contracts / functions of the right
   kind; ids pairwise distinct; every relative index names an id of the group; absolute indexes pairwise distinct *)
Theorem C13_group_cfg_ok_meaning :
  forall (cs : list (string * tcontract)) (es : list GroupConfigTransaction),
  group_cfg_ok cs es = true <->
  (forall e : GroupConfigTransaction,
   In e es ->
   (exists ty : string, In (ct_txn_type e, ty) USER_CONFIG_TRANSACTION_TYPES) /\
   call_okb cs false (ct_application e) = true /\ call_okb cs true (ct_logic_sig e) = true) /\
  NoDup (map ct_txn_id es) /\
  (forall (e : GroupConfigTransaction) (r : list (string * Z)) (oid : string),
   In e es -> ct_relative_indexes e = Some r -> In oid (map fst r) -> In oid (map ct_txn_id es)) /\
  NoDup (abs_list es).
Proof. exact group_cfg_ok_spec. Qed.

(* it raises x iff the flat first-error scan group_cfg_err gives x *)
Theorem C13_group_reading_exception_is_first_error :
  forall (cs : list (string * tcontract)) (grp : GroupConfigGroup) (x : exn),
  init_group_gen cs grp = Raise x <-> group_cfg_err cs (cg_transactions grp) = Some x.
Proof. exact init_group_raises_iff. Qed.

(* once the two loops have succeeded, fill_group_relative_indexes(group_obj) returns *)
Theorem C13_fill_group_relative_indexes_cannot_raise :
  forall (cs : list (string * tcontract)) (grp : GroupConfigGroup) (os : list tobj) (r : list tobj * gobj),
  let es := cg_transactions grp in
  phase1 cs es [] = Ok os ->
  phase2 (id_table es) 0 es os (group0 grp) = Ok r ->
  exists g : gobj, call_fill_group_relative_indexes (fst r) (snd r) = Ok g.
Proof. exact fill_cannot_raise. Qed.

(* which exception: decided by the FIRST offending entry (first loop before second loop) *)
Theorem C13_group_reading_raises_first_offender :
  forall (cs : list (string * tcontract)) (grp : GroupConfigGroup) (x : exn),
  let es := cg_transactions grp in
  init_group_gen cs grp = Raise x <->
  (exists (pre : list GroupConfigTransaction) (e : GroupConfigTransaction) (post : list GroupConfigTransaction),
     es = (pre ++ e :: post)%list /\
     phase1_okb cs pre = true /\
     (entry_err cs e = Some x \/ entry_err cs e = None /\ x = E_repeated /\ In (ct_txn_id e) (map ct_txn_id pre))) \/
  phase1_okb cs es = true /\
  (exists (pre : list GroupConfigTransaction) (e : GroupConfigTransaction) (post : list GroupConfigTransaction),
     es = (pre ++ e :: post)%list /\
     phase2_okb (map ct_txn_id es) pre = true /\
     (rel_okb (map ct_txn_id es) e = false /\ x = E_foreign \/
      rel_okb (map ct_txn_id es) e = true /\
      x = E_same_abs /\ (exists a : Z, ct_absolute_index e = Some a /\ In a (abs_list pre)))).
Proof. exact init_raises_first_offender. Qed.

(* no other exception is possible *)
Theorem C13_group_reading_raises_nothing_else :
  forall (cs : list (string * tcontract)) (grp : GroupConfigGroup) (x : exn),
  init_group_gen cs grp = Raise x ->
  In x [EKeyError; E_contract; E_function; E_app_is_lsig; E_lsig_is_app; E_repeated; E_foreign; E_same_abs].
Proof. exact init_raises_nothing_else. Qed.

(* the eight cases, each an iff *)
Theorem C13_group_reading_raises_unknown_type :
  forall (cs : list (string * tcontract)) (grp : GroupConfigGroup),
  init_group_gen cs grp = Raise EKeyError <->
  (exists (pre : list GroupConfigTransaction) (e : GroupConfigTransaction) (post : list GroupConfigTransaction),
     cg_transactions grp = (pre ++ e :: post)%list /\
     phase1_okb cs pre = true /\ sdict_mem (ct_txn_type e) USER_CONFIG_TRANSACTION_TYPES = false).
Proof. exact init_raises_unknown_type. Qed.

Theorem C13_group_reading_raises_unknown_contract :
  forall (cs : list (string * tcontract)) (grp : GroupConfigGroup),
  init_group_gen cs grp = Raise E_contract <->
  (exists (pre : list GroupConfigTransaction) (e : GroupConfigTransaction) (post : list GroupConfigTransaction),
     cg_transactions grp = (pre ++ e :: post)%list /\
     phase1_okb cs pre = true /\
     type_okb e = true /\
     ((exists fc : GroupConfigFunctionCall, ct_application e = Some fc /\ find_contract cs fc = None) \/
      call_fault cs false (ct_application e) = None /\
      (exists fc : GroupConfigFunctionCall, ct_logic_sig e = Some fc /\ find_contract cs fc = None))).
Proof. exact init_raises_unknown_contract. Qed.

Theorem C13_group_reading_raises_unknown_function :
  forall (cs : list (string * tcontract)) (grp : GroupConfigGroup),
  init_group_gen cs grp = Raise E_function <->
  (exists (pre : list GroupConfigTransaction) (e : GroupConfigTransaction) (post : list GroupConfigTransaction),
     cg_transactions grp = (pre ++ e :: post)%list /\
     phase1_okb cs pre = true /\
     type_okb e = true /\
     ((exists (fc : GroupConfigFunctionCall) (c : tcontract),
         ct_application e = Some fc /\
         find_contract cs fc = Some c /\ sdict_mem (fc_function fc) (c_functions c) = false) \/
      call_fault cs false (ct_application e) = None /\
      (exists (fc : GroupConfigFunctionCall) (c : tcontract),
         ct_logic_sig e = Some fc /\
         find_contract cs fc = Some c /\ sdict_mem (fc_function fc) (c_functions c) = false))).
Proof. exact init_raises_unknown_function. Qed.

Theorem C13_group_reading_raises_application_is_logic_sig :
  forall (cs : list (string * tcontract)) (grp : GroupConfigGroup),
  init_group_gen cs grp = Raise E_app_is_lsig <->
  (exists (pre : list GroupConfigTransaction) (e : GroupConfigTransaction) (post : list GroupConfigTransaction),
     cg_transactions grp = (pre ++ e :: post)%list /\
     phase1_okb cs pre = true /\
     type_okb e = true /\
     (exists (fc : GroupConfigFunctionCall) (c : tcontract),
        ct_application e = Some fc /\
        find_contract cs fc = Some c /\
        sdict_mem (fc_function fc) (c_functions c) = true /\ (c_contract_type c =? "LogicSig") = true)).
Proof. exact init_raises_app_is_lsig. Qed.

Theorem C13_group_reading_raises_logic_sig_is_application :
  forall (cs : list (string * tcontract)) (grp : GroupConfigGroup),
  init_group_gen cs grp = Raise E_lsig_is_app <->
  (exists (pre : list GroupConfigTransaction) (e : GroupConfigTransaction) (post : list GroupConfigTransaction),
     cg_transactions grp = (pre ++ e :: post)%list /\
     phase1_okb cs pre = true /\
     type_okb e = true /\
     call_fault cs false (ct_application e) = None /\
     (exists (fc : GroupConfigFunctionCall) (c : tcontract),
        ct_logic_sig e = Some fc /\
        find_contract cs fc = Some c /\
        sdict_mem (fc_function fc) (c_functions c) = true /\ (c_contract_type c =? "LogicSig") = false)).
Proof. exact init_raises_lsig_is_app. Qed.

Theorem C13_group_reading_raises_repeated_id :
  forall (cs : list (string * tcontract)) (grp : GroupConfigGroup),
  init_group_gen cs grp = Raise E_repeated <->
  (exists (pre : list GroupConfigTransaction) (e : GroupConfigTransaction) (post : list GroupConfigTransaction),
     cg_transactions grp = (pre ++ e :: post)%list /\
     phase1_okb cs pre = true /\ entry_okb cs e = true /\ In (ct_txn_id e) (map ct_txn_id pre)).
Proof. exact init_raises_repeated. Qed.

Theorem C13_group_reading_raises_foreign_relative_id :
  forall (cs : list (string * tcontract)) (grp : GroupConfigGroup),
  let es := cg_transactions grp in
  init_group_gen cs grp = Raise E_foreign <->
  phase1_okb cs es = true /\
  (exists (pre : list GroupConfigTransaction) (e : GroupConfigTransaction) (post : list GroupConfigTransaction),
     es = (pre ++ e :: post)%list /\
     phase2_okb (map ct_txn_id es) pre = true /\
     (exists (r : list (string * Z)) (oid : string),
        ct_relative_indexes e = Some r /\ In oid (map fst r) /\ ~ In oid (map ct_txn_id es))).
Proof. exact init_raises_foreign. Qed.

Theorem C13_group_reading_raises_same_absolute_index :
  forall (cs : list (string * tcontract)) (grp : GroupConfigGroup),
  let es := cg_transactions grp in
  init_group_gen cs grp = Raise E_same_abs <->
  phase1_okb cs es = true /\
  (exists
     (pre : list GroupConfigTransaction) (e : GroupConfigTransaction) (post : list GroupConfigTransaction) 
   (a : Z),
     es = (pre ++ e :: post)%list /\
     phase2_okb (map ct_txn_id es) pre = true /\
     rel_okb (map ct_txn_id es) e = true /\ ct_absolute_index e = Some a /\ In a (abs_list pre)).
Proof. exact init_raises_same_abs. Qed.

(* the three regenerated from_yaml readers, for EVERY parsed YAML map: raise exactly the exception of the flat
   decidable fault cascade, otherwise return the record whose fields are the listed entries (absent / null = None) *)
Theorem C13_from_yaml_function_call_total :
  forall m : list (string * yv),
  GroupConfigFunctionCall_from_yaml_gen m =
  match call_fault_y m with
  | Some x => Raise x
  | None => Ok (call_record m)
  end.
Proof. exact call_from_yaml_total. Qed.

Theorem C13_from_yaml_transaction_total :
  forall m : list (string * yv),
  GroupConfigTransaction_from_yaml_gen m =
  match txn_fault m with
  | Some x => Raise x
  | None => Ok (txn_record m)
  end.
Proof. exact txn_from_yaml_total. Qed.

Theorem C13_from_yaml_group_total :
  forall m : list (string * yv),
  GroupConfigGroup_from_yaml_gen m = match grp_fault m with
                                     | Some x => Raise x
                                     | None => Ok (grp_record m)
                                     end.
Proof. exact grp_from_yaml_total. Qed.

(* possible exceptions of the entry reader (never KeyError); exact conditions of the first two *)
Theorem C13_from_yaml_transaction_exceptions :
  forall (m : list (string * yv)) (x : exn),
  txn_fault m = Some x -> In x [T_txn_missing; T_txn_unknown; T_call_missing; T_rel_missing; ETypeError].
Proof. exact txn_fault_range. Qed.

Theorem C13_from_yaml_transaction_missing_field_iff :
  forall m : list (string * yv),
  GroupConfigTransaction_from_yaml_gen m = Raise T_txn_missing <->
  sdict_mem "txn_id" m = false \/ sdict_mem "txn_type" m = false.
Proof. exact txn_raises_missing_iff. Qed.

Theorem C13_from_yaml_transaction_unknown_type_iff :
  forall m : list (string * yv),
  GroupConfigTransaction_from_yaml_gen m = Raise T_txn_unknown <->
  sdict_mem "txn_id" m = true /\
  sdict_mem "txn_type" m = true /\
  (exists ty : string, yget "txn_type" m = YStr ty /\ sdict_mem ty USER_CONFIG_TRANSACTION_TYPES = false).
Proof. exact txn_raises_unknown_type_iff. Qed.

(* the fields of a returned entry in terms of the map *)
Theorem C13_from_yaml_transaction_fields :
  forall (m : list (string * yv)) (r : GroupConfigTransaction),
  GroupConfigTransaction_from_yaml_gen m = Ok r ->
  yget "txn_id" m = YStr (ct_txn_id r) /\
  yget "txn_type" m = YStr (ct_txn_type r) /\
  ymap_get_opt "has_logic_sig" m = option_map YBool (ct_has_logic_sig r) /\
  ymap_get_opt "absolute_index" m = option_map YInt (ct_absolute_index r) /\
  match ct_application r with
  | Some c =>
      exists m' : list (string * yv),
        ymap_get_opt "application" m = Some (YMap m') /\
        yget "contract" m' = YStr (fc_contract c) /\ yget "function" m' = YStr (fc_function c)
  | None => ymap_get_opt "application" m = None
  end /\
  match ct_logic_sig r with
  | Some c =>
      exists m' : list (string * yv),
        ymap_get_opt "logic_sig" m = Some (YMap m') /\
        yget "contract" m' = YStr (fc_contract c) /\ yget "function" m' = YStr (fc_function c)
  | None => ymap_get_opt "logic_sig" m = None
  end /\
  match ct_relative_indexes r with
  | Some d =>
      exists l : list yv,
        ymap_get_opt "relative_indexes" m = Some (YList l) /\
        (forall v : yv,
         In v l ->
         exists m' : list (string * yv),
           v = YMap m' /\
           yget "other_txn_id" m' = YStr (fst (rel_entry_pair v)) /\
           yget "offset" m' = YInt (snd (rel_entry_pair v))) /\ d = rel_record_from l []
  | None => ymap_get_opt "relative_indexes" m = None
  end.
Proof. exact txn_returns_fields. Qed.

(* generalisation of C13_from_yaml_relative_indexes to entries listing all fields *)
Theorem C13_from_yaml_entry_with_all_fields :
  forall (tid ty : string) (app : option GroupConfigFunctionCall) (hl : option bool)
    (ls : option GroupConfigFunctionCall) (ab : option Z) (rel : option (list (Z * string))),
  GroupConfigTransaction_from_yaml_gen (yaml_of_entry tid ty app hl ls ab rel) =
  (if sdict_mem ty USER_CONFIG_TRANSACTION_TYPES
   then
    Ok
      {|
        ct_txn_id := tid;
        ct_txn_type := ty;
        ct_application := app;
        ct_has_logic_sig := hl;
        ct_logic_sig := ls;
        ct_absolute_index := ab;
        ct_relative_indexes := option_map yaml_dict rel
      |}
   else Raise T_txn_unknown).
Proof. exact from_yaml_of_entry. Qed.

(* reader followed by the construction of the objects: returns iff both decidable conditions hold; the KeyError of
   USER_CONFIG_TRANSACTION_TYPES[txn.txn_type] is unreachable from a configuration file *)
Theorem C13_configuration_group_returns_iff :
  forall (cs : list (string * tcontract)) (m : list (string * yv)),
  (exists r : list tobj * gobj, read_group cs m = Ok r) <->
  grp_fault m = None /\ group_cfg_ok cs (cg_transactions (grp_record m)) = true.
Proof. exact read_group_returns_iff. Qed.

Theorem C13_configuration_group_never_keyerror :
  forall (cs : list (string * tcontract)) (m : list (string * yv)), read_group cs m <> Raise EKeyError.
Proof. exact read_group_never_keyerror. Qed.

(* absolute_index is ANY integer i: each of the three consumers of txn.absoulte_index in the verdict returns / raises on i
   exactly as on abs_slot i (negative i wraps around the 16-entry list, i >= 16 and i < -16 raise), for every i *)
Theorem C13_absolute_index_validated_in_block_reads_slot :
  forall (checks : bctx -> bool) (r : fn_result) (b : nat) (i : Z),
  validated_in_block_gen r checks b (Some i) = validated_in_block_gen r checks b (Some (Z.of_N (abs_slot i))).
Proof. exact validated_in_block_gen_slot. Qed.

Theorem C13_absolute_index_own_contract_reads_slot :
  forall (funcs : list (func * fn_result)) (checks : bctx -> bool) (k : nat) (i : Z),
  contract_checks_its_field_gen funcs checks k (Some i) =
  contract_checks_its_field_gen funcs checks k (Some (Z.of_N (abs_slot i))).
Proof. exact contract_checks_its_field_gen_slot. Qed.

Theorem C13_absolute_index_other_contracts_read_slot :
  forall (funcs : list (func * fn_result)) (checks : bctx -> bool) (k : nat) (i : Z),
  contract_checks_txn_at_absolute_index_gen funcs checks k i =
  contract_checks_txn_at_absolute_index_gen funcs checks k (Z.of_N (abs_slot i)).
Proof. exact contract_checks_txn_at_absolute_index_gen_slot. Qed.

(* absolute_index: -1 is read as 15; 16 (and -17) raise unless the block is validated by its txn context *)
Theorem C13_absolute_index_minus_one_is_fifteen :
  forall (checks : bctx -> bool) (r : fn_result) (b : nat),
  validated_in_block_gen r checks b (Some (-1)%Z) = validated_in_block_gen r checks b (Some 15%Z).
Proof. exact validated_minus_one_is_fifteen. Qed.

Theorem C13_absolute_index_out_of_range_raises :
  forall (checks : bctx -> bool) (r : fn_result) (b : nat) (i : Z),
  (Z.of_N MAX_GROUP_SIZE <= i)%Z \/ (i < - Z.of_N MAX_GROUP_SIZE)%Z ->
  validated_in_block_gen r checks b (Some i) = (if checks (ctx_of r b KSelf) then Some true else None).
Proof. exact validated_out_of_range. Qed.

(* init keeps the configured integers as they are; the earlier view through Z.to_N was not faithful; concrete verdicts *)
Theorem C13_absolute_index_kept_by_init :
  forall (cs : list (string * tcontract)) (grp : GroupConfigGroup) (heap : list tobj) (g : gobj),
  init_group_gen cs grp = Ok (heap, g) ->
  map o_absoulte_index heap = map ct_absolute_index (cg_transactions grp).
Proof. exact init_keeps_absolute_indexes. Qed.

Theorem C13_absolute_index_view_through_to_N_refuted :
  validated_in_block_gen r_pay15 checks_pay 0 (Some (-1)%Z) = Some true /\
  validated_in_block_gen r_pay15 checks_pay 0 (Some (Z.of_N (Z.to_N (-1)))) = Some false /\
  validated_in_block_gen r_pay15 checks_pay 0 (Some (Z.of_N (abs_slot (-1)))) = Some true.
Proof. exact abs_to_N_view_refuted. Qed.

Theorem C13_absolute_index_negative_verdict :
  exists (heap : list tobj) (g : gobj),
    init_group_gen ai_contracts {| cg_operation := "op"; cg_transactions := [ai_entry "t" (-1)] |} =
    Ok (heap, g) /\
    map o_absoulte_index heap = [Some (-1)%Z] /\
    gr_absolute_indexes g = [((-1)%Z, 0)] /\
    view_group heap g =
    [{|
       g_id := "t";
       g_type := "Pay";
       g_has_logic_sig := true;
       g_logic_sig := Some 0;
       g_application := None;
       g_abs := Some 15%N;
       g_rel := []
     |}] /\
    group_verdict_gen ai_funcs checks_pay "STATELESS" None (view_group heap g) = Some [] /\
    group_verdict ai_funcs checks_pay "STATELESS" None
      [{|
         g_id := "t";
         g_type := "Pay";
         g_has_logic_sig := true;
         g_logic_sig := Some 0;
         g_application := None;
         g_abs := Some 15%N;
         g_rel := []
       |}] = [] /\
    group_verdict ai_funcs checks_pay "STATELESS" None
      [{|
         g_id := "t";
         g_type := "Pay";
         g_has_logic_sig := true;
         g_logic_sig := Some 0;
         g_application := None;
         g_abs := Some 0%N;
         g_rel := []
       |}] = ["t"].
Proof. exact init_then_verdict_negative_index. Qed.

Theorem C13_absolute_index_out_of_range_verdict :
  (exists (heap : list tobj) (g : gobj),
     init_group_gen ai_contracts {| cg_operation := "op"; cg_transactions := [ai_entry "t" 16] |} = Ok (heap, g) /\
     map o_absoulte_index heap = [Some 16%Z] /\
     group_verdict_gen ai_funcs checks_pay "STATELESS" None (view_group heap g) = None) /\
  (exists (heap : list tobj) (g : gobj),
     init_group_gen ai_contracts {| cg_operation := "op"; cg_transactions := [ai_entry "t" (-17)] |} =
     Ok (heap, g) /\
     map o_absoulte_index heap = [Some (-17)%Z] /\
     group_verdict_gen ai_funcs checks_pay "STATELESS" None (view_group heap g) = None) /\
  contract_checks_its_field_gen ai_funcs checks_pay 0 (Some 16%Z) = None /\
  contract_checks_its_field_gen ai_funcs checks_pay 0 (Some (-17)%Z) = None /\
  contract_checks_its_field_gen ai_funcs (fun _ : bctx => true) 0 (Some 16%Z) = Some true.
Proof. exact init_then_verdict_out_of_range. Qed.

Theorem C13_absolute_index_alias_witness :
  group_cfg_ok ai_contracts [ai_entry "a" (-1); ai_entry "b" 15] = true /\
  (exists (heap : list tobj) (g : gobj),
     init_group_gen ai_contracts
       {| cg_operation := "op"; cg_transactions := [ai_entry "a" (-1); ai_entry "b" 15] |} = 
     Ok (heap, g) /\
     gr_absolute_indexes g = [((-1)%Z, 0); (15%Z, 1)] /\ map g_abs (view_group heap g) = [Some 15%N; Some 15%N]) /\
  init_group_gen ai_contracts {| cg_operation := "op"; cg_transactions := [ai_entry "a" 15; ai_entry "b" 15] |} =
  Raise E_same_abs.
Proof. exact abs_alias_witness. Qed.

Theorem C13_group_cfg_ok_ignores_index_range :
  forall (cs : list (string * tcontract)) (es : list GroupConfigTransaction) (f : Z -> Z),
  (forall x y : Z, f x = f y -> x = y) -> group_cfg_ok cs (map (renumber f) es) = group_cfg_ok cs es.
Proof. exact group_cfg_ok_ignores_index_range. Qed.

Print Assumptions C13_group_reading_returns_iff_cfg_ok.
Print Assumptions C13_group_cfg_ok_meaning.
Print Assumptions C13_group_reading_exception_is_first_error.
Print Assumptions C13_fill_group_relative_indexes_cannot_raise.
Print Assumptions C13_group_reading_raises_first_offender.
Print Assumptions C13_group_reading_raises_nothing_else.
Print Assumptions C13_group_reading_raises_unknown_type.
Print Assumptions C13_group_reading_raises_unknown_contract.
Print Assumptions C13_group_reading_raises_unknown_function.
Print Assumptions C13_group_reading_raises_application_is_logic_sig.
Print Assumptions C13_group_reading_raises_logic_sig_is_application.
Print Assumptions C13_group_reading_raises_repeated_id.
Print Assumptions C13_group_reading_raises_foreign_relative_id.
Print Assumptions C13_group_reading_raises_same_absolute_index.
Print Assumptions C13_from_yaml_function_call_total.
Print Assumptions C13_from_yaml_transaction_total.
Print Assumptions C13_from_yaml_group_total.
Print Assumptions C13_from_yaml_transaction_exceptions.
Print Assumptions C13_from_yaml_transaction_missing_field_iff.
Print Assumptions C13_from_yaml_transaction_unknown_type_iff.
Print Assumptions C13_from_yaml_transaction_fields.
Print Assumptions C13_from_yaml_entry_with_all_fields.
Print Assumptions C13_configuration_group_returns_iff.
Print Assumptions C13_configuration_group_never_keyerror.
Print Assumptions C13_absolute_index_validated_in_block_reads_slot.
Print Assumptions C13_absolute_index_own_contract_reads_slot.
Print Assumptions C13_absolute_index_other_contracts_read_slot.
Print Assumptions C13_absolute_index_minus_one_is_fifteen.
Print Assumptions C13_absolute_index_out_of_range_raises.
Print Assumptions C13_absolute_index_kept_by_init.
Print Assumptions C13_absolute_index_view_through_to_N_refuted.
Print Assumptions C13_absolute_index_negative_verdict.
Print Assumptions C13_absolute_index_out_of_range_verdict.
Print Assumptions C13_absolute_index_alias_witness.
Print Assumptions C13_group_cfg_ok_ignores_index_range.

(* regenerated reading + regenerated verdict = the model verdict on the RAW records of the configuration (relative
   indexes as listed): rel_dict is idempotent and the verdict reads g_rel only through rel_dict -- Lemmas/CfgRawVerdict.v *)
From Tealer Require Import CfgRawVerdict.
Theorem C13_rel_dict_idempotent : forall t : gtxn, rel_dict (normalize t) = rel_dict t.
Proof. exact rel_dict_idempotent. Qed.

Theorem C13_regenerated_init_then_verdict_equals_model_on_raw_records :
  forall (funcs : list (func * fn_result)) (checks : bctx -> bool) (dtype : string) (vtypes : option (list string))
         (cs : list (string * tcontract)) (grp : GroupConfigGroup) (heap : list tobj) (g : gobj),
  init_group_gen cs grp = Ok (heap, g) ->
  dtype = "STATELESS" \/ dtype = "STATEFULL" ->
  group_ok funcs (map (cfg_gtxn cs) (cg_transactions grp)) ->
  group_verdict_gen funcs checks dtype vtypes (view_group heap g) =
  Some (group_verdict funcs checks dtype vtypes (map (raw_gtxn cs) (cg_transactions grp))).
Proof. exact init_then_verdict_raw_eq. Qed.

Print Assumptions C13_rel_dict_idempotent.
Print Assumptions C13_regenerated_init_then_verdict_equals_model_on_raw_records.

(* the readers of the contracts part and of the whole configuration, for every parsed YAML map -- Lemmas/ConfigFromYamlLemmas.v *)
From Tealer Require Import GroupConfigGenLemmas ConfigFromYamlLemmas.
Theorem C13_from_yaml_contract_total :
  forall m : list (string * yv), GroupConfigContract_from_yaml_gen m = contract_spec m.
Proof. exact contract_from_yaml_spec. Qed.

Theorem C13_from_yaml_config_total :
  forall m : list (string * yv),
  GroupConfig_from_yaml_gen m =
  match yfind "name" m, yfind "contracts" m, yfind "groups" m with
  | Some name, Some cs, Some gs =>
    rbind (as_list cs) (fun l1 => rbind (mapR (fun v => rbind (as_map v) contract_spec) l1) (fun contracts =>
    rbind (as_list gs) (fun l2 => rbind (mapR group_elem l2) (fun groups =>
    rbind (as_str name) (fun n => Ok (mkGroupConfig n contracts groups))))))
  | _, _, _ => Raise E_cfg_absent
  end.
Proof. exact config_from_yaml_total. Qed.

(* neither KeyError of init_tealer_from_config (transaction type table, contract type table) can happen on a
   configuration that from_yaml has read *)
Theorem C13_configuration_read_has_known_types :
  forall (m : list (string * yv)) (cfg : GroupConfig),
  GroupConfig_from_yaml_gen m = Ok cfg ->
  (forall grp e, In grp (gc_groups cfg) -> In e (cg_transactions grp) -> sdict_mem (ct_txn_type e) USER_CONFIG_TRANSACTION_TYPES = true) /\
  (forall c, In c (gc_contracts cfg) -> s_in_list (cc_contract_type c) GROUP_CONFIG_CONTRACT_TYPES = true).
Proof. exact config_known_types. Qed.

Print Assumptions C13_from_yaml_contract_total.
Print Assumptions C13_from_yaml_config_total.
Print Assumptions C13_configuration_read_has_known_types.

(* the last sentence of the property for rekey-to: the address algebra has NO prime point on raw string sets
   (C13_address_domain_has_no_prime_point), so the generic theorems above do not apply; the two halves of their laws
   hold for two readings of `the any-address flag is set` that agree on the constraints the analysis builds, and the
   solver preserves the representation invariant (LeafLemmas.addr_wf: universal, null, or a plain set -- never a
   mixture of a marker and anything else) -- Lemmas/GroupSem5.v *)
From Tealer Require Import LeafLemmas GroupSem5.

Theorem C13_address_domain_has_no_prime_point :
  forall dg : sset -> Prop,
    ~ dg Leaves.addr_null_set ->
    (forall a b, dg (Leaves.addr_union a b) -> dg a \/ dg b) ->
    (forall a b, dg a -> dg b -> dg (Leaves.addr_intersection a b)) ->
    dg Leaves.addr_universal_set -> False.
Proof. exact no_prime_point_on_raw_sets. Qed.

(* the solver preserves the invariant: well-formed block constraints (init_constraints gives them: GroupSem5.init_wf)
   => every value of the result of solve is well formed; every RekeyTo value that Detect.ctx_of reads from the result of
   run_all is well formed *)
Theorem C13_address_solver_preserves_well_formedness :
  forall (single : Syntax.instr -> nat -> list StackAst.sval -> sset * sset),
    (forall op pos args, addr_wf (fst (single op pos args)) /\ addr_wf (snd (single op pos args))) ->
    forall (f : func) (fuel : nat) (bc lo : list (nat * sset)),
      (forall b v, Analysis.lookup sset bc b = Some v -> addr_wf v) ->
      solve sset sset_seteqb Leaves.addr_universal_set Leaves.addr_null_set Leaves.addr_union Leaves.addr_intersection
        single f fuel bc = Done lo ->
      forall b v, Analysis.lookup sset lo b = Some v -> addr_wf v.
Proof. exact solve_addr_wf. Qed.

Theorem C13_rekey_to_values_well_formed :
  forall f fuel r, run_all f fuel = Done r -> forall fam b, addr_wf (res_addr r "RekeyTo" fam b).
Proof. exact run_all_rekey_wf. Qed.

(* one solve over the address domain: the result holds ANY_ADDRESS at b  iff  some literal accepting path through b
   admits it (Spec/Literal.LiveOut), for block constraints on which the two readings agree *)
Theorem C13_address_any_flag_exact :
  forall (single : Syntax.instr -> nat -> list StackAst.sval -> sset * sset),
    (forall op pos args, addr_wf (fst (single op pos args)) /\ addr_wf (snd (single op pos args))) ->
    forall (f : func), graph_wf f = true ->
    forall (bc : list (nat * sset)),
      (forall b c, Analysis.lookup sset bc b = Some c -> any_in c -> any_strict c) ->
      forall (fuel : nat) (lo : list (nat * sset)),
        solve sset sset_seteqb Leaves.addr_universal_set Leaves.addr_null_set Leaves.addr_union Leaves.addr_intersection
          single f fuel bc = Done lo ->
        forall b,
          (exists x, Analysis.lookup sset lo b = Some x /\ any_in x) <->
          Literal.LiveOut f (ExactLemmas.okb sset unit (pgamma sset any_in) tt bc)
            (ExactLemmas.oke sset Leaves.addr_universal_set Leaves.addr_null_set Leaves.addr_union
               Leaves.addr_intersection single f unit (pgamma sset any_in) tt) b.
Proof. exact solve_any_iff_live. Qed.

(* THE EQUALITY for rekey-to, all fuels, both directions *)
Theorem C13_single_contract_verdict_equal_rekey_to :
  forall funcs dtype vtypes t k f r fuelr fuel ps,
    single_contract t k -> nth_error funcs k = Some (f, r) -> relative_accessors [t] t = [] ->
    eligible dtype vtypes t -> g_abs t = None ->
    graph_wf f = true -> subroutine_free f -> run_all f fuelr = Done r ->
    run_detector f r fuel "rekey-to" Leaves.checks_rekey_to = Done ps ->
    (txn_vulnerable funcs Leaves.checks_rekey_to dtype vtypes [t] t = true <-> ps <> []).
Proof. exact single_group_eq_contract_rekey. Qed.

(* ... stated on source programs: every parsed structured contract without subroutines *)
Theorem C13_single_contract_verdict_equal_rekey_to_parsed :
  forall funcs dtype vtypes t k p tl r fuelr fuel ps,
    Cfg.parse_teal p = Parse.Ok tl -> struct_ok tl -> subroutine_free (whole_function tl) ->
    single_contract t k -> nth_error funcs k = Some (whole_function tl, r) -> relative_accessors [t] t = [] ->
    eligible dtype vtypes t -> g_abs t = None ->
    run_all (whole_function tl) fuelr = Done r ->
    run_detector (whole_function tl) r fuel "rekey-to" Leaves.checks_rekey_to = Done ps ->
    (txn_vulnerable funcs Leaves.checks_rekey_to dtype vtypes [t] t = true <-> ps <> []).
Proof. exact single_group_eq_contract_rekey_parsed. Qed.

(* the unvalidated exit itself is the end of a reported-path candidate *)
Theorem C13_rekey_to_unvalidated_exit_ends_a_path :
  forall f fuel r b,
    graph_wf f = true -> subroutine_free f -> run_all f fuel = Done r ->
    fn_leaf_block f b -> validated_in_block r Leaves.checks_rekey_to None b = false ->
    exists p, GoodPath f (validated_in_block r Leaves.checks_rekey_to None) p /\ last p 0 = b.
Proof. exact unvalidated_leaf_has_unvalidated_path_rekey. Qed.

(* the hypothesis "no callsub / retsub" cannot simply be dropped for rekey-to either (the D4 shape with the rekey check in
   the returning branch: GroupSem5.RekeySubRefuted) *)
Theorem C13_single_contract_verdict_equal_rekey_to_subroutine_refuted :
  ~ (forall funcs dtype vtypes t k p tl r fuelr fuel ps,
       Cfg.parse_teal p = Parse.Ok tl -> struct_ok tl -> graph_wf (whole_function tl) = true ->
       single_contract t k -> nth_error funcs k = Some (whole_function tl, r) -> relative_accessors [t] t = [] ->
       eligible dtype vtypes t -> g_abs t = None ->
       run_all (whole_function tl) fuelr = Done r ->
       run_detector (whole_function tl) r fuel "rekey-to" Leaves.checks_rekey_to = Done ps ->
       (txn_vulnerable funcs Leaves.checks_rekey_to dtype vtypes [t] t = true <-> ps <> [])).
Proof. exact single_group_eq_contract_rekey_subroutine_refuted. Qed.

Print Assumptions C13_address_domain_has_no_prime_point.
Print Assumptions C13_address_solver_preserves_well_formedness.
Print Assumptions C13_rekey_to_values_well_formed.
Print Assumptions C13_address_any_flag_exact.
Print Assumptions C13_single_contract_verdict_equal_rekey_to.
Print Assumptions C13_single_contract_verdict_equal_rekey_to_parsed.
Print Assumptions C13_rekey_to_unvalidated_exit_ends_a_path.
Print Assumptions C13_single_contract_verdict_equal_rekey_to_subroutine_refuted.
