(* C13  Group-configuration verdicts.  (theorems are being added; see Lemmas/GroupLemmas) *)
From Coq Require Import List String ZArith.
From Tealer Require Import Group.
Import ListNotations.
(* Transaction.relative_indexes is keyed by offset: setting a key twice keeps the later value *)
Theorem C13_dict_set_twice : forall (k : Z) (a b : string), dict_set k b (dict_set k a []) = [(k, b)].
Proof. intros; simpl; rewrite Z.eqb_refl; reflexivity. Qed.
Print Assumptions C13_dict_set_twice.
