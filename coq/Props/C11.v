(* C11  Reconstructed operands equal the operands the AVM would pass.  Property theorems only. *)
From Coq Require Import List.
From Tealer Require Import Syntax Cfg StackAst StackLemmas.
Import ListNotations.

(* for every straight-line block, every concrete run of it (any arity-respecting opcode semantics `sem`, any
   initial stack) and every instruction k: the reconstructed operand list denotes, position by position,
   the values actually consumed at k; a `SKnown producer` operand is the value that producer really pushed *)
Theorem C11_operands : forall (val : Type) (sem : instr -> nat -> list val -> list val),
  (forall op pos vs n m, stack_pop_size op = Some n -> stack_push_size op = Some m -> length vs = n -> length (sem op pos vs) = m) ->
  forall p poss cs ast tr fin, NoDup poss ->
    emulate p poss [] = Some ast ->
    crun_tr val sem p poss cs = Some (tr, fin) ->
    forall k op args, In (k, op, args) ast ->
      exists cargs, In (k, cargs) (consumed val tr) /\ Forall2 (den val tr) args cargs.
Proof. exact emulate_sound. Qed.

(* attribution: a reconstructed producer is an earlier instruction of the same block with that opcode *)
Theorem C11_producer_is_real : forall p poss ast,
  emulate p poss [] = Some ast -> forall k op args, In (k, op, args) ast ->
  forall op' pos' args' j, In (SKnown op' pos' args' j) args ->
  (exists l1 l2, poss = l1 ++ k :: l2 /\ In pos' l1) /\ op_at p pos' = Some op' /\ In (pos', op', args') ast
  /\ (exists m, stack_push_size op' = Some m /\ j < m).
Proof. exact producer_is_real. Qed.

Theorem C11_args_length : forall p poss ast k op args,
  emulate p poss [] = Some ast -> In (k, op, args) ast -> stack_pop_size op = Some (length args).
Proof. intros; eapply emulate_args_length; eauto. Qed.

(* flattening: the leaves of the maximal And (Or) spine are not And (Or) nodes *)
Theorem C11_flatten_and : forall c x, In x (and_leaves_c c) -> match x with CAnd _ _ => False | _ => True end.
Proof. exact and_leaves_c_no_and. Qed.
Theorem C11_flatten_or : forall c x, In x (or_leaves_c c) -> match x with COr _ _ => False | _ => True end.
Proof. exact or_leaves_c_no_or. Qed.

Print Assumptions C11_operands.
Print Assumptions C11_producer_is_real.
Print Assumptions C11_args_length.

(* ------------------------------------------------------------------------------------------------------------
   Extension (second round): "a comparison is attributed to a transaction field only if that field really is its
   operand" -- the reconstructed operand that matches a key denotes that field of the transaction the key names *)
From Coq Require Import String NArith.
From Tealer Require Import Keys Eval SingleLemmas.

Theorem C11_attribution_only_if_real_operand : forall e fam fld v x t,
  value_matches (e_intcs e) fam fld v = true -> sv_eval e v = Some x -> key_txn e fam = Some t ->
  x = field_of e t fld.
Proof. exact classify_correct. Qed.

Print Assumptions C11_attribution_only_if_real_operand.
