(* C11  Reconstructed operands equal the operands the AVM would pass.  Property theorems only. *)
From Coq Require Import List.
From Tealer Require Import Syntax Cfg StackAst StackLemmas.
Import ListNotations.

(* for every straight-line block, every concrete run of it (any arity-respecting opcode semantics `sem`, any
   initial stack) and every instruction k: the reconstructed operand list denotes, position by position,
   the values actually consumed at k; a `SKnown producer` operand is the value that producer really pushed *)
Theorem C11_operands : forall (val : Type) (sem : instr -> nat -> list val -> list val),
  (forall op pos vs n m, stack_pop_size op = Some n -> stack_push_size op = Some m -> length vs = n -> length (sem op pos vs) = m) ->
  forall p poss cs ast tr fin, NoDup poss ->
    emulate p poss [] = Some ast ->
    crun_tr val sem p poss cs = Some (tr, fin) ->
    forall k op args, In (k, op, args) ast ->
      exists cargs, In (k, cargs) (consumed val tr) /\ Forall2 (den val tr) args cargs.
Proof. exact emulate_sound. Qed.

(* attribution: a reconstructed producer is an earlier instruction of the same block with that opcode *)
Theorem C11_producer_is_real : forall p poss ast,
  emulate p poss [] = Some ast -> forall k op args, In (k, op, args) ast ->
  forall op' pos' args' j, In (SKnown op' pos' args' j) args ->
  (exists l1 l2, poss = l1 ++ k :: l2 /\ In pos' l1) /\ op_at p pos' = Some op' /\ In (pos', op', args') ast
  /\ (exists m, stack_push_size op' = Some m /\ j < m).
Proof. exact producer_is_real. Qed.

Theorem C11_args_length : forall p poss ast k op args,
  emulate p poss [] = Some ast -> In (k, op, args) ast -> stack_pop_size op = Some (length args).
Proof. intros; eapply emulate_args_length; eauto. Qed.

(* flattening: the leaves of the maximal And (Or) spine are not And (Or) nodes *)
Theorem C11_flatten_and : forall c x, In x (and_leaves_c c) -> match x with CAnd _ _ => False | _ => True end.
Proof. exact and_leaves_c_no_and. Qed.
Theorem C11_flatten_or : forall c x, In x (or_leaves_c c) -> match x with COr _ _ => False | _ => True end.
Proof. exact or_leaves_c_no_or. Qed.

Print Assumptions C11_operands.
Print Assumptions C11_producer_is_real.
Print Assumptions C11_args_length.

(* ------------------------------------------------------------------------------------------------------------
   Extension (second round): "a comparison is attributed to a transaction field only if that field really is its
   operand" -- the reconstructed operand that matches a key denotes that field of the transaction the key names *)
From Coq Require Import String NArith.
From Tealer Require Import Keys Eval SingleLemmas.

Theorem C11_attribution_only_if_real_operand : forall e fam fld v x t,
  value_matches (e_intcs e) fam fld v = true -> sv_eval e v = Some x -> key_txn e fam = Some t ->
  x = field_of e t fld.
Proof. exact classify_correct. Qed.

Print Assumptions C11_attribution_only_if_real_operand.

(* ------------------------------------------------------------------------------------------------------------
   Extension (operand reconstruction regenerated): theorems from Lemmas/StackGenLemmas.v about Gen/StackGen.v, the
   translation of stack_ast_builder.py class Stack and construct_stack_ast, and about the regenerated
   flatten / compute_equations of Gen/AssertedGen.v *)
From Coq Require Import String List NArith ZArith Bool Arith.
From Tealer Require Import Tables Syntax Parse Cfg StackAst KeysGen CfgGen StackGen AssertedGen StackLemmas StackGenLemmas.

(* regenerated construct_stack_ast computes the hand-written block walk, for every program and block *)
Theorem C11_stack_gen_eq :
      forall (p : prog) (bb : block),
       construct_stack_ast_gen p bb = option_map dict_of (construct_stack_ast p bb).
Proof. exact @construct_stack_ast_gen_eq. Qed.

(* with distinct positions the dictionary is the list of the model *)
Theorem C11_stack_gen_nodup :
      forall (p : prog) (bb : block),
       NoDup (b_ins bb) ->
       construct_stack_ast_gen p bb = option_map (map entry_of) (construct_stack_ast p bb).
Proof. exact @construct_stack_ast_gen_nodup. Qed.

(* Stack.pop_n_values of the source: the model pop on the reversed list, unknown padding on the deep side *)
Theorem C11_stack_pop_gen_eq :
      forall (vals : stackobj) (n : nat),
       Stack_pop_n_values_gen vals n = Some (fst (pop_n (rev vals) n), rev (snd (pop_n (rev vals) n))).
Proof. exact @Stack_pop_n_values_gen_eq. Qed.

(* Stack.push_n_values of the source *)
Theorem C11_stack_push_gen_eq :
      forall (vals : stackobj) (l : list sval), Stack_push_n_values_gen vals l = Some (vals ++ l).
Proof. exact @Stack_push_n_values_gen_eq. Qed.

(* the operands reconstructed by the regenerated function denote the operands of any concrete run of the block, for any value type and instruction semantics respecting the declared stack effects *)
Theorem C11_stack_gen_operands :
      forall (val : Type) (sem : instr -> nat -> list val -> list val),
       (forall (op : instr) (pos : nat) (vs : list val) (n m : nat),
        stack_pop_size op = Some n ->
        stack_push_size op = Some m -> Datatypes.length vs = n -> Datatypes.length (sem op pos vs) = m) ->
       forall (p : prog) (bb : block) (cs : list val) (d : ast_dict) (tr : StackLemmas.trace val)
         (fin : list val),
       NoDup (b_ins bb) ->
       construct_stack_ast_gen p bb = Some d ->
       StackLemmas.crun_tr val sem p (b_ins bb) cs = Some (tr, fin) ->
       forall (k : nat) (v : sval),
       In (k, v) d ->
       exists (op : instr) (args : list sval) (cargs : list val),
         v = SKnown op k args 0 /\
         op_at p k = Some op /\
         stack_pop_size op = Some (Datatypes.length args) /\
         In (k, cargs) (StackLemmas.consumed val tr) /\ Forall2 (StackLemmas.den val tr) args cargs.
Proof. exact @construct_stack_ast_gen_operands. Qed.

(* regenerated flattening on reconstructed values equals the leaves of the condition *)
Theorem C11_flatten_gen_constructed :
      forall (p : prog) (bb : block) (d : ast_dict) (pos : nat) (v : sval) (k : nodeclass) (fuel : nat),
       construct_stack_ast_gen p bb = Some d ->
       In (pos, v) d ->
       kdepth k (cond_of v) <= fuel ->
       option_map (map cond_of) (flatten_ast_gen fuel v k) = Some (kleaves k (cond_of v)).
Proof. exact @flatten_constructed. Qed.

(* regenerated compute_equations: known leaves and the unknown flag *)
Theorem C11_equations_gen_eq_model :
      forall (k : nodeclass) (fuel : nat) (v : sval),
       spine_ok k v ->
       kdepth k (cond_of v) <= fuel ->
       exists (ks : list sval) (b : bool),
         compute_equations_gen fuel v k = Some (ks, b) /\
         map cond_of ks = filter (fun c : cond => negb (is_cunknown c)) (kleaves k (cond_of v)) /\
         b = existsb is_cunknown (kleaves k (cond_of v)).
Proof. exact @compute_equations_gen_eq_model. Qed.

(* no And node survives the regenerated And-flattening *)
Theorem C11_flatten_gen_no_and :
      forall (fuel : nat) (v : sval) (l : list sval) (x : sval),
       flatten_ast_gen fuel v K_And = Some l ->
       In x l -> match cond_of x with
                 | CAnd _ _ => False
                 | _ => True
                 end.
Proof. exact @flatten_ast_gen_no_and. Qed.

(* no Or node survives the regenerated Or-flattening *)
Theorem C11_flatten_gen_no_or :
      forall (fuel : nat) (v : sval) (l : list sval) (x : sval),
       flatten_ast_gen fuel v K_Or = Some l ->
       In x l -> match cond_of x with
                 | COr _ _ => False
                 | _ => True
                 end.
Proof. exact @flatten_ast_gen_no_or. Qed.

Print Assumptions C11_stack_gen_eq.
Print Assumptions C11_stack_gen_nodup.
Print Assumptions C11_stack_pop_gen_eq.
Print Assumptions C11_stack_push_gen_eq.
Print Assumptions C11_stack_gen_operands.
Print Assumptions C11_flatten_gen_constructed.
Print Assumptions C11_equations_gen_eq_model.
Print Assumptions C11_flatten_gen_no_and.
Print Assumptions C11_flatten_gen_no_or.

(* ------------------------------------------------------------------------------------------------------------
   Extension: signed immediates (frame_dig / frame_bury with negative offsets, Lemmas/SignedLemmas.v): the operand
   reconstruction is defined on the signed form and does not depend on the offset *)
From Coq Require Import String List NArith ZArith.
From Tealer Require Import Syntax Cfg StackAst SignedLemmas.

Theorem C11_emulate_frame_dig : forall z pos st,
  emulate_ins (frame_dig z) pos st = Some (nil, SKnown (frame_dig z) pos nil 0 :: st).
Proof. exact emulate_frame_dig. Qed.
Theorem C11_emulate_frame_bury : forall z pos v st,
  emulate_ins (frame_bury z) pos (v :: st) = Some (v :: nil, SKnown (frame_bury z) pos (v :: nil) 0 :: st).
Proof. exact emulate_frame_bury. Qed.
Theorem C11_emulate_frame_bury_empty : forall z pos,
  emulate_ins (frame_bury z) pos nil = Some (SUnknown :: nil, SKnown (frame_bury z) pos (SUnknown :: nil) 0 :: nil).
Proof. exact emulate_frame_bury_empty. Qed.

Print Assumptions C11_emulate_frame_dig.
Print Assumptions C11_emulate_frame_bury.
