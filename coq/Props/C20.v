(* C20  The regex engine reports exactly the reachable occurrences.  (theorems are added by Lemmas/RegexLemmas) *)
From Coq Require Import List.
From Tealer Require Import Syntax Cfg Regex.
Import ListNotations.

(* the straight-line matcher: an empty pattern matches everywhere, a non-empty one needs a current instruction *)
Theorem C20_match_nil : forall p cur, is_match p cur [] = true.
Proof. reflexivity. Qed.
Theorem C20_match_none : forall p r rest, is_match p None (r :: rest) = false.
Proof. reflexivity. Qed.
Print Assumptions C20_match_none.
