(* C20  The regex engine reports exactly the reachable occurrences.  Property theorems only.
   Reach / ReachPlus / CPath: instruction-level reachability, defined independently of the DFS (RegexLemmas). *)
From Coq Require Import List String.
From Tealer Require Import Syntax Cfg Analysis Regex RegexLemmas.
Import ListNotations.
Open Scope list_scope.

(* matches = exactly the reachable straight-line occurrences, no duplicates; covered instructions all lie on a
   path from the start to a match; every reachable match is reached by a path through covered instructions *)
Theorem C20_matches_and_covered : forall fuel t label regex start ms cov,
  find_regex_label t label = Some start ->
  match_regex fuel t label regex = Done (ms, cov) ->
  (forall m, In m ms <-> exists k, Reach (t_prog t) start k /\ is_match (t_prog t) (Some k) regex = true /\
                                   m = collect_match (t_prog t) k (Nat.pred (List.length regex))) /\
  NoDup ms /\
  (forall c, In c cov -> Reach (t_prog t) start c /\ exists k, ReachPlus (t_prog t) c k /\ is_match (t_prog t) (Some k) regex = true) /\
  (forall k, Reach (t_prog t) start k -> is_match (t_prog t) (Some k) regex = true -> CPath (t_prog t) cov start k).
Proof. exact match_regex_spec. Qed.

(* each reported match lists the pattern's instructions in order along unique-successor links, same class and text *)
Theorem C20_match_listing : forall p regex k, regex <> [] -> is_match p (Some k) regex = true ->
  let l := collect_match p k (Nat.pred (List.length regex)) in
  List.length l = List.length regex /\ hd_error l = Some k /\
  (forall i a b, nth_error l i = Some a -> nth_error l (S i) = Some b -> single_next p a = Some b) /\
  (forall i a r, nth_error l i = Some a -> nth_error regex i = Some r -> exists o, op_at p a = Some o /\ is_equal o r = true).
Proof. exact match_listing. Qed.

(* the clause "covered includes every instruction of every such path" is REFUTED on the unchanged tree
   (known finding D14: a branch into an already visited join is not marked) *)
Theorem C20_covered_complete_refuted :
  ~ (forall p regex fuel start r st, find_instructions fuel p regex start (mkR [] [] []) = Done (r, st) ->
       forall c k, Reach p start c -> ReachPlus p c k -> is_match p (Some k) regex = true -> In c (r_covered st)).
Proof. exact covered_incomplete_refuted. Qed.

Print Assumptions C20_matches_and_covered.
Print Assumptions C20_match_listing.
Print Assumptions C20_covered_complete_refuted.
