(* C20  The regex engine reports exactly the reachable occurrences, and the covered set is exact.  Property theorems only.
   Reach / ReachPlus / CPath: instruction-level reachability, defined independently of the DFS (RegexLemmas), over the
   step relation rstep_rx: fall-through successor, jump targets, and callsub -> entry label of the called subroutine. *)
From Coq Require Import List String NArith.
From Tealer Require Import Syntax Cfg Analysis Regex InsExec RegexLemmas.
Import ListNotations.
Open Scope list_scope.

(* matches = exactly the reachable straight-line occurrences, no duplicates; the covered instructions are EXACTLY
   those reachable from the start from which a match start is reachable in at least one step; every reachable
   match is reached by a path through covered instructions *)
Theorem C20_matches_and_covered : forall fuel t label regex start ms cov,
  find_regex_label t label = Some start ->
  match_regex fuel t label regex = Done (ms, cov) ->
  (forall m, In m ms <-> exists k, Reach (t_prog t) start k /\ is_match (t_prog t) (Some k) regex = true /\
                                   m = collect_match (t_prog t) k (Nat.pred (List.length regex))) /\
  NoDup ms /\
  (forall c, In c cov <-> Reach (t_prog t) start c /\ exists k, ReachPlus (t_prog t) c k /\ is_match (t_prog t) (Some k) regex = true) /\
  (forall k, Reach (t_prog t) start k -> is_match (t_prog t) (Some k) regex = true -> CPath (t_prog t) cov start k).
Proof. exact match_regex_spec. Qed.

(* the covered clause of C20 in full: c is covered iff it lies on a path  start ->* c ->+ k  to a reachable match start k
   ("all lie on some path from the label to a match and include every instruction of every such path") *)
Theorem C20_covered_exact : forall fuel t label regex start ms cov,
  find_regex_label t label = Some start ->
  match_regex fuel t label regex = Done (ms, cov) ->
  forall c, In c cov <->
            Reach (t_prog t) start c /\
            exists k, ReachPlus (t_prog t) c k /\ Reach (t_prog t) start k /\
                      is_match (t_prog t) (Some k) regex = true.
Proof. exact match_regex_covered_exact. Qed.

(* each reported match lists the pattern's instructions in order along unique-successor links, same class and text *)
Theorem C20_match_listing : forall p regex k, regex <> [] -> is_match p (Some k) regex = true ->
  let l := collect_match p k (Nat.pred (List.length regex)) in
  List.length l = List.length regex /\ hd_error l = Some k /\
  (forall i a b, nth_error l i = Some a -> nth_error l (S i) = Some b -> single_next p a = Some b) /\
  (forall i a r, nth_error l i = Some a -> nth_error regex i = Some r -> exists o, op_at p a = Some o /\ is_equal o r = true).
Proof. exact match_listing. Qed.

(* why match_regex needs the backward closure: the set marked by the depth-first search find_instructions ALONE
   does not include every instruction of every path to a match (former finding D14: a branch into an already
   visited join, a loop body, is not marked) *)
Theorem C20_dfs_alone_incomplete :
  ~ (forall p regex fuel start r st, find_instructions fuel p regex start (mkR [] [] []) = Done (r, st) ->
       forall c k, Reach p start c -> ReachPlus p c k -> is_match p (Some k) regex = true -> In c (r_covered st)).
Proof. exact dfs_covered_incomplete_refuted. Qed.

(* the step relation of Reach, spelled out, and its relation to the program-counter semantics of Spec/InsExec.v:
   every control step except a retsub step is an edge (a retsub returns to the instruction after some callsub,
   which is reached through that callsub's fall-through edge) *)
Theorem C20_step_relation : forall p j k,
  rstep_rx p j k <->
  exists i, op_at p j = Some i /\
    ((no_fallthrough i = false /\ S j < List.length p /\ k = S j) \/
     (exists l, In l (jump_labels i) /\ find_label p l = Some k) \/
     (exists l, i = ICallsub l /\ find_label p l = Some k)).
Proof. intros; reflexivity. Qed.

Theorem C20_step_covers_execution : forall p j st k st',
  InsExec.istep p (j, st) (k, st') -> op_at p j <> Some IRetsub -> rstep_rx p j k.
Proof. exact insexec_step_rstep_rx. Qed.

(* the search follows callsub into the called subroutine:
   #pragma version 8; callsub f; int 1; return; f:; int 7; pop; retsub   with pattern  int 7  from *:
   one match at the int 7 position (5, line 6); covered = positions of #pragma, callsub f, f: (0,1,4 = lines 1,2,5).
   First component: matches; second: covered as returned (with duplicates); third: covered sorted, duplicate-free *)
Theorem C20_follows_callsub :
  Examples.regex_on ["#pragma version 8"; "callsub f"; "int 1"; "return"; "f:"; "int 7"; "pop"; "retsub"]%string
                    "*"%string [IInt (IANum 7%N)]
  = Some ([[5]], [0; 1; 4; 0; 1; 4], [0; 1; 4]) /\
  Examples.regex_on_lines ["#pragma version 8"; "callsub f"; "int 1"; "return"; "f:"; "int 7"; "pop"; "retsub"]%string
                          "*"%string [IInt (IANum 7%N)]
  = Some ([[6]], [1; 2; 5]).
Proof. split; vm_compute; reflexivity. Qed.

Print Assumptions C20_matches_and_covered.
Print Assumptions C20_covered_exact.
Print Assumptions C20_match_listing.
Print Assumptions C20_dfs_alone_incomplete.
Print Assumptions C20_step_relation.
Print Assumptions C20_step_covers_execution.
Print Assumptions C20_follows_callsub.

(* ------------------------------------------------------------------------------------------------------------
   Extension (third round): further code regenerated from the Python source with equivalence lemmas *)
From Coq Require Import List String NArith ZArith Bool Arith.
From Tealer Require Import Tables Leaves LeafPrelude Syntax Parse Cfg StackAst Keys KeysGen Analysis Domains Detect Regex Group AssertedGen GraphGen SearchGen ConstraintsGen RegexGen GroupGen GraphGenLemmas TotalSolver GroupLemmas RegexLemmas ConstraintsGenLemmas RegexGenLemmas GroupGenLemmas.

(* the regex engine REGENERATED from regex.py (tools/translate_regex.py -> Gen/RegexGen.v) satisfies the exact specification *)
Theorem C20_regenerated_engine_spec :
  forall (fuel wfuel : nat) (t : teal) (label : string) (regex : list instr) (start : nat) (ms : list (list nat)) (cov : list nat),
       jumps_resolve (t_prog t) ->
       find_label_gen (t_prog t) (t_retained_ins t) label = Some (Some start) ->
       match_regex_gen fuel wfuel t (label, regex) = Some (ms, cov) ->
       (forall m : list nat,
        In m ms <->
        (exists k : nat,
           Reach (t_prog t) start k /\
           is_match (t_prog t) (Some k) regex = true /\ m = collect_match (t_prog t) k (Init.Nat.pred (Datatypes.length regex)))) /\
       NoDup ms /\
       (forall c : nat,
        In c cov <-> Reach (t_prog t) start c /\ (exists k : nat, ReachPlus (t_prog t) c k /\ is_match (t_prog t) (Some k) regex = true)) /\
       (forall k : nat, Reach (t_prog t) start k -> is_match (t_prog t) (Some k) regex = true -> CPath (t_prog t) cov start k).
Proof. exact @match_regex_gen_spec. Qed.

(* ... and returns what the model returns (matches as lists, covered as sets) *)
Theorem C20_regenerated_engine_refines_model :
  forall (fuel wfuel : nat) (t : teal) (label : string) (regex : list instr) (ms : list (list nat)) (cov : list nat),
       jumps_resolve (t_prog t) ->
       match_regex_gen fuel wfuel t (label, regex) = Some (ms, cov) ->
       exists cov0 : list nat, match_regex fuel t label regex = Done (ms, cov0) /\ seteq cov cov0.
Proof. exact @match_regex_gen_refines. Qed.

Print Assumptions C20_regenerated_engine_spec.
Print Assumptions C20_regenerated_engine_refines_model.
