(* C17  Analysis and every output mode complete on every valid contract.  Property theorems only.
   What is proved: on structured programs every graph lookup the analyses perform is defined (the mirror /
   coverage facts: graph_ok), so the KeyError-style failures of the solver cannot occur in the model; the
   model makes each Python exception an explicit Exn outcome.  The CLI itself (argparse, file system,
   printers) is exercised by the harness: partial. *)
From Coq Require Import List String.
From Tealer Require Import Syntax Parse Cfg Analysis Detect GraphWf ExecLemmas GraphOk SubLemmas.
Import ListNotations.

Theorem C17_lookups_defined_on_structured_programs : forall p t, parse_teal p = Ok t -> struct_ok t -> graph_ok (whole_function t).
Proof. exact graph_ok_whole_function. Qed.
(* the retained graph never names a block outside itself (the crash site of the dead-branch layout) *)
Theorem C17_no_dangling_blocks : forall p t bs, parse_teal p = Ok t -> build_blocks p = Some bs ->
  (forall b m, In b (t_blocks t) -> In m (b_prev b) -> In m (retained_ids t)) /\
  (forall b m, In b (t_blocks t) -> In m (b_next b) -> In m (retained_ids t)).
Proof. intros p t bs H1 H2. destruct (retained_char p t bs H1 H2) as [_ [_ [_ [_ [Ha Hb]]]]]. split; assumption. Qed.

Print Assumptions C17_lookups_defined_on_structured_programs.
Print Assumptions C17_no_dangling_blocks.
