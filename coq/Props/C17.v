(* C17  Analysis and every output mode complete on every valid contract.  Property theorems only.
   What is proved: on structured programs every graph lookup the analyses perform is defined (the mirror /
   coverage facts: graph_ok), so the KeyError-style failures of the solver cannot occur in the model; the
   model makes each Python exception an explicit Exn outcome.  The CLI itself (argparse, file system,
   printers) is exercised by the harness: partial. *)
From Coq Require Import List String.
From Tealer Require Import Syntax Parse Cfg Analysis Detect GraphWf ExecLemmas GraphOk SubLemmas.
Import ListNotations.

Theorem C17_lookups_defined_on_structured_programs : forall p t, parse_teal p = Ok t -> struct_ok t -> graph_ok (whole_function t).
Proof. exact graph_ok_whole_function. Qed.
(* the retained graph never names a block outside itself (the crash site of the dead-branch layout) *)
Theorem C17_no_dangling_blocks : forall p t bs, parse_teal p = Ok t -> build_blocks p = Some bs ->
  (forall b m, In b (t_blocks t) -> In m (b_prev b) -> In m (retained_ids t)) /\
  (forall b m, In b (t_blocks t) -> In m (b_next b) -> In m (retained_ids t)).
Proof. intros p t bs H1 H2. destruct (retained_char p t bs H1 H2) as [_ [_ [_ [_ [Ha Hb]]]]]. split; assumption. Qed.

Print Assumptions C17_lookups_defined_on_structured_programs.
Print Assumptions C17_no_dangling_blocks.

(* ------------------------------------------------------------------------------------------------------------
   Extension (second round): TOTALITY of the analyses and the path search (Lemmas/Total*.v) *)
From Coq Require Import List String NArith ZArith Bool Arith.
From Tealer Require Import Tables Leaves LeafPrelude Syntax Parse Cfg StackAst Keys Analysis Domains Detect TotalSolver TotalDomains TotalSearch TotalParse TotalLemmas.

(* For every source text that parses into a structured program without a retsub in main: the four analyses and every
   detector's search never raise (no KeyError / assertion: `not_exn`), terminate with a result as soon as the fuel
   reaches an explicit, computable bound (finite-height argument per domain; mixed-radix measure for the DFS), and the
   result does not depend on the fuel beyond that bound.  Loops, recursion, dead code that branches or calls, a branch
   or call as the last instruction are all inside the quantifier. *)
Theorem C17_total :
  forall (src : string) (p : list ins) (t : teal),
       parse_program src = Ok p ->
       parse_teal p = Ok t ->
       GraphWf.struct_ok t ->
       main_no_retsub_b t = true ->
       let f := whole_function t in
       (forall fuel : nat, not_exn (run_all f fuel)) /\
       (forall (fuel : nat) (r : fn_result) (name : string) (checks : bctx -> bool), not_exn (run_detector f r fuel name checks)) /\
       (forall fuel : nat, run_all_bound f <= fuel -> exists r : fn_result, run_all f fuel = Done r) /\
       (forall (fuel : nat) (r : fn_result) (name : string) (checks : bctx -> bool),
        search_bound f <= fuel -> exists ps : list (list nat), run_detector f r fuel name checks = Done ps) /\
       (forall (fuel fuel' : nat) (r : fn_result), run_all f fuel = Done r -> fuel <= fuel' -> run_all f fuel' = Done r) /\
       (forall (fuel fuel' : nat) (r : fn_result) (name : string) (checks : bctx -> bool) (ps : list (list nat)),
        run_detector f r fuel name checks = Done ps -> fuel <= fuel' -> run_detector f r fuel' name checks = Done ps).
Proof. exact @C17_total_src. Qed.

(* every instruction the line parser produces has a stack arity in the regenerated table (no lookup of the emulation fails) *)
Theorem C17_parsed_instructions_have_arity :
  forall (src : string) (p : list ins), parse_program src = Ok p -> forall i : ins, In i p -> arity_def (i_op i) = true.
Proof. exact @parse_program_arity. Qed.

(* the hypothesis "no retsub in main" is needed: `int 1; retsub` makes the model (and tealer: finding D15, an invalid
   program -- retsub with an empty call stack fails in the AVM) raise *)
Theorem C17_retsub_in_main_refuted :
  exists (p : prog) (t : teal),
         parse_teal p = Ok t /\
         GraphWf.struct_ok t /\
         ExecLemmas.graph_ok (whole_function t) /\
         arity_okb p = true /\
         main_no_retsub_b t = false /\
         run_all (whole_function t) 100 = Exn "exception in block/path level constraints" /\
         detect_paths (whole_function t) (fun _ : nat => false) (fun _ : list nat => true) 100 = Exn "AssertionError: callsub_block is None".
Proof. exact @no_exn_under_graph_ok_refuted. Qed.

Print Assumptions C17_total.
Print Assumptions C17_parsed_instructions_have_arity.
Print Assumptions C17_retsub_in_main_refuted.

(* ------------------------------------------------------------------------------------------------------------
   Extension (joint pass over all keys): theorems from Lemmas/JointGenLemmas.v and Lemmas/JointTotal.v.  tealer iterates
   ONE worklist for all keys of an analysis; the per-key model is related to that joint run here.  *)
From Coq Require Import String List NArith ZArith Bool Arith.
From Tealer Require Import JointGenLemmas JointTotal.

(* the joint pass terminates within joint_bound and agrees with the per-key solver *)
Theorem C17_joint_pass_total_peq :
      forall (T : Type) (t_eqb : T -> T -> bool) (univ null : string -> T)
         (union inter : string -> T -> T -> T)
         (single : string -> Syntax.instr -> nat -> list StackAst.sval -> T * T) 
         (f : Analysis.func),
       TotalSolver.defined_okb f = true ->
       SolverLemmas.cover_prev_P f ->
       GraphGenLemmas.main_name_fresh f ->
       forall L : forall k : string, TotalSolver.TLaws T t_eqb (univ k) (null k) (union k) (inter k),
       (forall (k : string) (pb : Cfg.block) (s : nat) (ec : T),
        In pb (Analysis.fn_blocks f) ->
        Analysis.edge_constraint T (univ k) (null k) (union k) (inter k) (single k) f pb s = Some ec ->
        TotalSolver.tl_okc T t_eqb (univ k) (null k) (union k) (inter k) (L k) ec) ->
       forall (k : string) (leq : T -> T -> Prop) (keys : list string) (fuel : nat) (d : SolverGen.gdict T),
       key_order T t_eqb (null k) (union k) (inter k) leq ->
       joint_graph_ok f ->
       NoDup (SolverLemmas.ids f) ->
       (forall l : list nat, In l (Analysis.postorders f) -> incl l (SolverLemmas.ids f)) ->
       NoDup keys ->
       In k keys ->
       (forall k0 : string, In k0 keys -> bc_ok T t_eqb univ null union inter f L d k0) ->
       joint_bound T t_eqb univ null union inter f L keys <= fuel ->
       exists (d' : SolverGen.gdict T) (lo : list (nat * T)),
         JointGen.joint_pass_gen T t_eqb univ null union inter single f fuel keys (Analysis.postorders f) d =
         Some (Some d') /\
         Domains.solve T t_eqb (univ k) (null k) (union k) (inter k) (single k) f fuel
           (SolverGen.ddict_get T d k) = Analysis.Done lo /\
         SolverLemmas.peq T t_eqb (SolverGen.ddict_get T d' k) lo.
Proof. exact @joint_pass_total_peq. Qed.

(* the joint pass may need more fuel than every per-key run *)
Theorem C17_joint_same_fuel_refuted :
      exists (f : Analysis.func) (bcs : SolverGen.gdict nat) (keys : list string) 
       (fuel : nat),
         NoDup keys /\
         SolverGen.forward_analyis_gen nat Nat.eqb (fun _ : string => 9) (fun _ : string => 0)
           (fun _ : string => Nat.max) (fun _ : string => Nat.min)
           (fun (_ : string) (_ : Syntax.instr) (_ : nat) (_ : list StackAst.sval) => (9, 9)) f fuel keys
           (Analysis.forward_worklist f) bcs = Some None /\
         (forall k : string,
          In k keys ->
          exists ro : Analysis.state nat,
            Analysis.forward nat Nat.eqb 9 0 Nat.max Nat.min
              (fun (_ : Syntax.instr) (_ : nat) (_ : list StackAst.sval) => (9, 9)) f
              (Analysis.lookup nat (SolverGen.ddict_get nat bcs k)) fuel (Analysis.forward_worklist f)
              (SolverLemmas.fwd_st0 nat 0 f) = Analysis.Done ro).
Proof. exact @joint_same_fuel_refuted. Qed.

Print Assumptions C17_joint_pass_total_peq.
Print Assumptions C17_joint_same_fuel_refuted.
