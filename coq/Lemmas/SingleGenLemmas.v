(* The wrappers REGENERATED from the tool's source (Gen/SingleGen.v, translate_single.py) agree with the
   hand-written wrappers of Model/Domains.v on every well-formed leaf; where they differ (malformed arity,
   the dead `Not` branch of txn_types) the witnesses are given and the generated function is the one that
   mirrors the Python.  Result type of the generated functions: option, None = a Python exception. *)
From Coq Require Import String List NArith ZArith Bool Lia.
From Tealer Require Import Tables LeafPrelude Leaves Syntax Parse Cfg StackAst Keys Analysis Domains SingleGen.
From Tealer Require Import StackLemmas LeafLemmas Eval SingleLemmas ExecLemmas TypeLemmas.
Import ListNotations.
Open Scope string_scope.
Open Scope list_scope.

(* ====================================================================== *)
(* glue coherence                                                          *)
(* ====================================================================== *)
Lemma cmpop_of_cmp_of : forall i, cmpop_of i = cmp_of i.
Proof. intros i. destruct i; reflexivity. Qed.

(* isinstance(ins, C) of the generated code and is_C of Gen/Leaves.v read the same class *)
Lemma isa_is : forall i,
  isa_Eq i = is_Eq (cmpop_of i) /\ isa_Neq i = is_Neq (cmpop_of i) /\ isa_Less i = is_Less (cmpop_of i) /\
  isa_LessE i = is_LessE (cmpop_of i) /\ isa_Greater i = is_Greater (cmpop_of i) /\
  isa_GreaterE i = is_GreaterE (cmpop_of i).
Proof. intros i. destruct i; repeat split; reflexivity. Qed.

(* the translated _mirrored_comparison is the hand-written mirror *)
Theorem mirrored_comparison_gen_mirror : forall i,
  cmpop_of (mirrored_comparison_gen i) = mirror (cmp_of i).
Proof. intros i. destruct i; reflexivity. Qed.

Lemma mirrored_comparison_gen_cmp : forall i, cmp_of i <> COther ->
  cmp_of (mirrored_comparison_gen i) <> COther.
Proof. intros i H. destruct i; cbn in *; congruence. Qed.

Definition is_cmp_ins (op : instr) : bool :=
  orb (isa_Eq op) (orb (isa_Neq op) (orb (isa_Less op) (orb (isa_LessE op) (orb (isa_Greater op) (isa_GreaterE op))))).

Lemma is_cmp_ins_false : forall op, cmp_of op = COther -> is_cmp_ins op = false.
Proof. intros op H. destruct op; try reflexivity; discriminate. Qed.
Lemma is_cmp_ins_true : forall op, cmp_of op <> COther -> is_cmp_ins op = true.
Proof. intros op H. destruct op; try reflexivity; exfalso; apply H; reflexivity. Qed.

Lemma py_is_int_cases : forall intcs o,
  py_is_int_push_ins intcs o =
  match is_int_push_ins intcs o with
  | NotInt => (false, PvNone) | IntUnknown => (true, PvNone) | IntNum n => (true, PvInt n) | IntName s => (true, PvStr s)
  end.
Proof. reflexivity. Qed.

(* comparison instructions have exactly two operands (the arity of the instruction table, see cmp_arity_table) *)
Definition cmp_arity_ok (op : instr) (args : list sval) : Prop := cmp_of op <> COther -> length args = 2.

Lemma cmp_arity_table : forall op args,
  stack_pop_size op = Some (length args) -> cmp_arity_ok op args.
Proof.
  intros op args H Hc. destruct op; try (exfalso; apply Hc; reflexivity);
    match type of H with stack_pop_size ?o = _ =>
      assert (E : stack_pop_size o = Some 2) by (vm_compute; reflexivity) end;
    rewrite E in H; inversion H; reflexivity.
Qed.

Lemma leaf_truth_arity : forall e op args b, leaf_truth e op args = Some b -> cmp_arity_ok op args.
Proof.
  intros e op args b H _. apply leaf_truth_inv in H. destruct H as (a1 & a2 & -> & _). reflexivity.
Qed.

Ltac two_args args H :=
  let a := fresh "v1" in let b := fresh "v2" in let c := fresh "v3" in let r := fresh "rest" in
  destruct args as [| a [| b [| c r]]]; try (cbn in H; discriminate H).

(* ====================================================================== *)
(* fee_field                                                               *)
(* ====================================================================== *)
Lemma fee_gen_other : forall intcs fam op pos args, cmp_of op = COther ->
  fee_get_asserted_fee_gen intcs fam op pos args = Some (fee_universal_set, fee_universal_set).
Proof.
  intros intcs fam op pos args H. unfold fee_get_asserted_fee_gen.
  fold (is_cmp_ins op). rewrite (is_cmp_ins_false op H). reflexivity.
Qed.

Lemma fee_gen_cmp : forall intcs fam op pos v1 v2, cmp_of op <> COther ->
  fee_get_asserted_fee_gen intcs fam op pos [v1; v2] =
  Some match fee_cv intcs fam (cmp_of op) [v1; v2] with
       | Some (v, c') => fee_get_asserted_max_value c' v
       | None => (fee_universal_set, fee_universal_set)
       end.
Proof.
  intros intcs fam op pos v1 v2 H. unfold fee_get_asserted_fee_gen.
  fold (is_cmp_ins op). rewrite (is_cmp_ins_true op H).
  cbn [nth_error]. cbv zeta.
  rewrite !mirrored_comparison_gen_mirror.
  unfold fee_cv.
  destruct v1 as [|o1 p1 a1 u1], v2 as [|o2 p2 a2 u2]; cbn [sv_is_unknown andb negb op_of opt_is_none].
  - reflexivity.
  - destruct (value_matches intcs fam "Fee" (SKnown o2 p2 a2 u2)); reflexivity.
  - destruct (value_matches intcs fam "Fee" (SKnown o1 p1 a1 u1)); reflexivity.
  - destruct (value_matches intcs fam "Fee" (SKnown o1 p1 a1 u1)).
    + rewrite py_is_int_cases. destruct (is_int_push_ins intcs o2); reflexivity.
    + destruct (value_matches intcs fam "Fee" (SKnown o2 p2 a2 u2)); [| reflexivity].
      rewrite py_is_int_cases. destruct (is_int_push_ins intcs o1); cbn;
        rewrite ?mirrored_comparison_gen_mirror; reflexivity.
Qed.

(* the generated _get_asserted_fee / _get_asserted_single is the hand-written fee_single on every leaf whose
   comparison has two operands; in particular no Python exception can occur there *)
Theorem fee_single_gen_eq : forall intcs fam op pos args,
  cmp_arity_ok op args ->
  fee_single_gen intcs fam op pos args = Some (fee_single intcs fam op pos args).
Proof.
  intros intcs fam op pos args Ha. unfold fee_single_gen.
  destruct (cmpop_eq_other (cmp_of op)) as [Hc | Hc].
  - rewrite (fee_gen_other _ _ _ _ _ Hc). unfold fee_single. rewrite Hc. reflexivity.
  - specialize (Ha Hc). two_args args Ha.
    rewrite (fee_gen_cmp _ _ _ _ _ _ Hc), fee_single_eq. reflexivity.
Qed.
Print Assumptions fee_single_gen_eq.

Corollary fee_single_gen_eq_table : forall intcs fam op pos args,
  stack_pop_size op = Some (length args) ->
  fee_single_gen intcs fam op pos args = Some (fee_single intcs fam op pos args).
Proof. intros. apply fee_single_gen_eq, cmp_arity_table. assumption. Qed.

(* finding (arity): without the hypothesis the two functions differ, and the generated one mirrors the Python:
   `args[0]` of an empty operand list raises IndexError (None), the hand-written wrapper answers (U, U);
   with a third operand the Python (and the generated function) reads args[0], args[1], the hand-written one gives up *)
Lemma fee_single_gen_arity_refuted :
  fee_single_gen None KSelf ILess 0 [] = None /\
  fee_single None KSelf ILess 0 [] = (fee_universal_set, fee_universal_set) /\
  (let args := [SKnown (ITxn ("Fee", None)) 0 [] 0; SKnown (IInt (IANum 5)) 1 [] 0; SUnknown] in
   fee_single_gen None KSelf ILess 2 args = Some (mkFee false 4, fee_universal_set) /\
   fee_single None KSelf ILess 2 args = (fee_universal_set, fee_universal_set)).
Proof. repeat split; reflexivity. Qed.

(* the single-leaf soundness theorem of SingleLemmas, for the generated wrapper *)
Theorem fee_single_gen_sound : forall e fam op pos args t x b r,
  key_txn e fam = Some t ->
  e_field e t "Fee" = VInt x -> (0 <= x <= MAX_UINT64z)%Z ->
  const_compared (e_intcs e) fam "Fee" args ->
  leaf_truth e op args = Some b ->
  fee_single_gen (e_intcs e) fam op pos args = Some r ->
  fee_gamma (if b then fst r else snd r) x.
Proof.
  intros e fam op pos args t x b r Hk Hf Hx Hcc Hb Hr.
  rewrite (fee_single_gen_eq _ _ _ _ _ (leaf_truth_arity _ _ _ _ Hb)) in Hr.
  inversion Hr; subst r. eapply fee_single_sound; eassumption.
Qed.
Print Assumptions fee_single_gen_sound.

(* no exception on an evaluable leaf *)
Corollary fee_single_gen_total : forall e fam op pos args b,
  leaf_truth e op args = Some b -> exists r, fee_single_gen (e_intcs e) fam op pos args = Some r.
Proof. intros e fam op pos args b Hb. eexists. apply fee_single_gen_eq. eapply leaf_truth_arity; eassumption. Qed.

(* ====================================================================== *)
(* int_fields                                                              *)
(* ====================================================================== *)
Lemma groupsize_read_gen : forall i, andb (isa_Global i) (field_isa i "GroupSize") = is_groupsize_read i.
Proof. intros i. destruct i; reflexivity. Qed.
Lemma groupindex_read_gen : forall i, andb (isa_Txn i) (field_isa i "GroupIndex") = is_groupindex_read i.
Proof. intros i. destruct i; reflexivity. Qed.

Lemma zset_diff_zdiff : forall a b, zset_diff a b = zdiff a b.
Proof. reflexivity. Qed.

Lemma int_groupsizes_gen_eq : forall intcs op pos args,
  cmp_arity_ok op args ->
  int_groupsizes_gen intcs op pos args = Some (int_single true intcs op pos args).
Proof.
  intros intcs op pos args Ha. unfold int_groupsizes_gen. cbv zeta. fold (is_cmp_ins op).
  destruct (cmpop_eq_other (cmp_of op)) as [Hc | Hc].
  - rewrite (is_cmp_ins_false _ Hc), (int_single_other _ _ _ _ _ Hc). reflexivity.
  - rewrite (is_cmp_ins_true _ Hc), (int_single_eq _ _ _ _ _ Hc). specialize (Ha Hc). two_args args Ha.
    cbn [nth_error]. unfold int_cv. cbn [int_isf int_U].
    destruct v1 as [|o1 p1 a1 u1], v2 as [|o2 p2 a2 u2]; cbn [sv_is_unknown orb op_of]; try reflexivity.
    rewrite !groupsize_read_gen, !py_is_int_cases.
    change (cmpop_of op) with (cmp_of op).
    generalize int_universal_groupsize (int_get_asserted_int_values (cmp_of op)); intros U gv.
    destruct (is_groupsize_read o1).
    + destruct (is_int_push_ins intcs o2); reflexivity.
    + destruct (is_groupsize_read o2); [| reflexivity].
      destruct (is_int_push_ins intcs o1); reflexivity.
Qed.

Lemma int_groupindices_gen_eq : forall intcs op pos args,
  cmp_arity_ok op args ->
  int_groupindices_gen intcs op pos args = Some (int_single false intcs op pos args).
Proof.
  intros intcs op pos args Ha. unfold int_groupindices_gen. cbv zeta. fold (is_cmp_ins op).
  destruct (cmpop_eq_other (cmp_of op)) as [Hc | Hc].
  - rewrite (is_cmp_ins_false _ Hc), (int_single_other _ _ _ _ _ Hc). reflexivity.
  - rewrite (is_cmp_ins_true _ Hc), (int_single_eq _ _ _ _ _ Hc). specialize (Ha Hc). two_args args Ha.
    cbn [nth_error]. unfold int_cv. cbn [int_isf int_U].
    destruct v1 as [|o1 p1 a1 u1], v2 as [|o2 p2 a2 u2]; cbn [sv_is_unknown orb op_of]; try reflexivity.
    rewrite !groupindex_read_gen, !py_is_int_cases.
    change (cmpop_of op) with (cmp_of op).
    generalize int_universal_groupindex (int_get_asserted_int_values (cmp_of op)); intros U gv.
    destruct (is_groupindex_read o1).
    + destruct (is_int_push_ins intcs o2); reflexivity.
    + destruct (is_groupindex_read o2); [| reflexivity].
      destruct (is_int_push_ins intcs o1); reflexivity.
Qed.

(* the generated GroupIndices._get_asserted_single is the hand-written int_single (which already follows the
   code in ignoring the operand order of < <= > >=, known finding D2) *)
Theorem int_single_gen_eq : forall size intcs op pos args,
  cmp_arity_ok op args ->
  int_single_gen size intcs op pos args = Some (int_single size intcs op pos args).
Proof.
  intros size intcs op pos args Ha. unfold int_single_gen.
  destruct size; [apply int_groupsizes_gen_eq | apply int_groupindices_gen_eq]; assumption.
Qed.
Print Assumptions int_single_gen_eq.

Corollary int_single_gen_eq_table : forall size intcs op pos args,
  stack_pop_size op = Some (length args) ->
  int_single_gen size intcs op pos args = Some (int_single size intcs op pos args).
Proof. intros. apply int_single_gen_eq, cmp_arity_table. assumption. Qed.

Lemma int_single_gen_arity_refuted :
  int_single_gen true None IEq 0 [] = None /\
  int_single true None IEq 0 [] = (int_universal_groupsize, int_universal_groupsize) /\
  (let args := [SKnown (IGlobal "GroupSize") 0 [] 0; SKnown (IInt (IANum 2)) 1 [] 0; SUnknown] in
   int_single_gen true None IEq 2 args <> Some (int_single true None IEq 2 args)).
Proof.
  split; [reflexivity|]. split; [reflexivity|]. cbv zeta. intros H. vm_compute in H. discriminate H.
Qed.

(* the generated wrapper inherits soundness (and the recorded D2 limitation: not for mirrored order comparisons) *)
Theorem int_single_gen_sound_partial : forall sz e op pos args b r,
  env_ok e ->
  leaf_truth e op args = Some b ->
  mirrored_ordered sz (e_intcs e) op args = false ->
  int_single_gen sz (e_intcs e) op pos args = Some r ->
  In (int_value sz e) (if b then fst r else snd r).
Proof.
  intros sz e op pos args b r Hok Hb Hm Hr.
  rewrite (int_single_gen_eq _ _ _ _ _ (leaf_truth_arity _ _ _ _ Hb)) in Hr.
  inversion Hr; subst r. apply int_single_sound_partial; assumption.
Qed.
Print Assumptions int_single_gen_sound_partial.

(* D2 for the generated function: the translation of what the code SAYS has the same defect *)
Lemma int_single_gen_mirrored_refuted :
  exists e op args r,
    env_ok e /\ leaf_truth e op args = Some true /\
    int_single_gen true (e_intcs e) op 0 args = Some r /\ ~ In (int_value true e) (fst r).
Proof.
  destruct int_single_mirrored_refuted as (e & op & args & Hok & Hb & _ & _ & Hn).
  exists e, op, args, (int_single true (e_intcs e) op 0 args).
  split; [exact Hok|]. split; [exact Hb|]. split; [| exact Hn].
  apply int_single_gen_eq. eapply leaf_truth_arity; eassumption.
Qed.

(* ====================================================================== *)
(* txn_types                                                               *)
(* ====================================================================== *)
Lemma assoc_N_assocN : forall A k (l : list (N * A)), assoc_N k l = assocN k l.
Proof. intros A k l. induction l as [| [k' v] t IH]; [reflexivity|]. cbn. rewrite IH. reflexivity. Qed.

Definition pv_of (r : intres) : pyval :=
  match r with NotInt | IntUnknown => PvNone | IntNum n => PvInt n | IntName s => PvStr s end.

Lemma py_to_tealer_type_eq : forall names ints r,
  py_to_tealer_type names ints (pv_of r) = to_tealer_type names ints r.
Proof.
  intros names ints r. destruct r; cbn; rewrite ?assoc_N_assocN; try reflexivity.
Qed.

(* the constant decoders handed to _known_constant are the model's decoders *)
Lemma known_constant_tt : forall r,
  known_constant_gen py_transaction_type_to_tealer_type (pv_of r) = transaction_type_to_tealer_type r.
Proof. intros r. apply py_to_tealer_type_eq. Qed.
Lemma known_constant_oc : forall r,
  known_constant_gen py_oncompletion_to_tealer_type (pv_of r) = oncompletion_to_tealer_type r.
Proof. intros r. apply py_to_tealer_type_eq. Qed.

Lemma py_is_int_pv : forall intcs o,
  py_is_int_push_ins intcs o = (res_is_int (is_int_push_ins intcs o), pv_of (is_int_push_ins intcs o)).
Proof. intros intcs o. rewrite py_is_int_cases. destruct (is_int_push_ins intcs o); reflexivity. Qed.

Lemma type_gen_appid : forall intcs fam op pos args,
  value_matches intcs fam "ApplicationID" (SKnown op pos args 0) = true ->
  type_get_asserted_transaction_types_gen intcs fam op pos args = Some (type_single intcs fam op pos args).
Proof.
  intros intcs fam op pos args H. unfold type_get_asserted_transaction_types_gen, type_single.
  cbv zeta. rewrite H. reflexivity.
Qed.

Lemma type_gen_eqneq : forall intcs fam op pos v1 v2, (op = IEq \/ op = INeq) ->
  type_get_asserted_transaction_types_gen intcs fam op pos [v1; v2] = Some (type_single intcs fam op pos [v1; v2]).
Proof.
  intros intcs fam op pos v1 v2 Hop.
  destruct (value_matches intcs fam "ApplicationID" (SKnown op pos [v1; v2] 0)) eqn:H0;
    [apply type_gen_appid; exact H0|].
  unfold type_get_asserted_transaction_types_gen, type_single. cbv zeta. rewrite H0.
  assert (Hn : isa_Not op = false) by (destruct Hop; subst op; reflexivity).
  assert (He : orb (isa_Eq op) (isa_Neq op) = true) by (destruct Hop; subst op; reflexivity).
  rewrite Hn, He. cbn [nth_error].
  destruct v1 as [|o1 p1 a1 u1], v2 as [|o2 p2 a2 u2]; cbn [sv_is_unknown orb op_of];
    try (destruct Hop; subst op; reflexivity).
  rewrite !py_is_int_pv.
  generalize (value_matches intcs fam "ApplicationID" (SKnown o1 p1 a1 u1))
             (value_matches intcs fam "ApplicationID" (SKnown o2 p2 a2 u2))
             (value_matches intcs fam "TypeEnum" (SKnown o1 p1 a1 u1))
             (value_matches intcs fam "TypeEnum" (SKnown o2 p2 a2 u2))
             (value_matches intcs fam "OnCompletion" (SKnown o1 p1 a1 u1))
             (value_matches intcs fam "OnCompletion" (SKnown o2 p2 a2 u2)).
  intros b1 b2 b3 b4 b5 b6.
  rewrite !known_constant_tt, !known_constant_oc.
  generalize (transaction_type_to_tealer_type (is_int_push_ins intcs o1))
             (transaction_type_to_tealer_type (is_int_push_ins intcs o2))
             (oncompletion_to_tealer_type (is_int_push_ins intcs o1))
             (oncompletion_to_tealer_type (is_int_push_ins intcs o2)).
  intros t1 t2 c1 c2.
  unfold appl_not_creation, appl_creation.
  generalize ALL_TRANSACTION_TYPES APPLICATION_TRANSACTION_TYPES TYPEENUM_TRANSACTION_TYPES. intros LU LA LT.
  destruct Hop; subst op; cbn [isa_Eq];
  (destruct (is_int_push_ins intcs o1) as [| | [|q1] | s1], (is_int_push_ins intcs o2) as [| | [|q2] | s2];
    cbn [res_is_int res_known pv_of pv_is_none pv_is_int pv_eq_int Bool.eqb andb orb negb Z.of_N Z.eqb];
    rewrite ?andb_false_r, ?andb_true_r;
    [> try reflexivity ..];
    unfold opt_is_none;
    repeat match goal with
           | |- context [if ?b then _ else _] => is_var b; destruct b
           | |- context [match ?t with Some _ => _ | None => _ end] => is_var t; destruct t
           end; reflexivity).
Qed.

Lemma type_gen_other : forall intcs fam op pos args, op <> IEq -> op <> INeq -> op <> INot ->
  type_get_asserted_transaction_types_gen intcs fam op pos args = Some (type_single intcs fam op pos args).
Proof.
  intros intcs fam op pos args H1 H2 H3.
  destruct (value_matches intcs fam "ApplicationID" (SKnown op pos args 0)) eqn:H0;
    [apply type_gen_appid; exact H0|].
  unfold type_get_asserted_transaction_types_gen, type_single. cbv zeta. rewrite H0.
  destruct op; try congruence; reflexivity.
Qed.

(* == and != have two operands *)
Definition eqneq_arity_ok (op : instr) (args : list sval) : Prop := op = IEq \/ op = INeq -> length args = 2.

Lemma cmp_arity_eqneq : forall op args, cmp_arity_ok op args -> eqneq_arity_ok op args.
Proof. intros op args H [-> | ->]; apply H; discriminate. Qed.

(* the generated TxnType._get_asserted_single is the hand-written type_single on every leaf that is not a `!`
   (and whose == / != has two operands) *)
Theorem type_single_gen_eq : forall intcs fam op pos args,
  op <> INot -> eqneq_arity_ok op args ->
  type_single_gen intcs fam op pos args = Some (type_single intcs fam op pos args).
Proof.
  intros intcs fam op pos args Hn Ha. unfold type_single_gen.
  assert (Hd : (op = IEq \/ op = INeq) \/ (op <> IEq /\ op <> INeq)).
  { destruct op; try (right; split; discriminate); left; auto. }
  destruct Hd as [Hop | [H1 H2]].
  - specialize (Ha Hop). two_args args Ha. apply type_gen_eqneq. exact Hop.
  - apply type_gen_other; assumption.
Qed.
Print Assumptions type_single_gen_eq.

(* finding (dead branch): the Python has a branch for `<ApplicationID field> !` which the hand-written wrapper
   omits; the generated function has it.  Witness: *)
Lemma type_single_gen_not_refuted :
  let args := [SKnown (ITxn ("ApplicationID", None)) 0 [] 0] in
  type_single_gen None KSelf INot 1 args = Some (["ApplCreation"], ldiff APPLICATION_TRANSACTION_TYPES ["ApplCreation"]) /\
  type_single None KSelf INot 1 args = (ALL_TRANSACTION_TYPES, ALL_TRANSACTION_TYPES) /\
  type_single_gen None KSelf INot 1 [] = None.
Proof. repeat split; reflexivity. Qed.

(* ... and it is dead in the analysis: a `!` with one operand (the arity of the table) never is a LEAF of the
   condition tree (cond_of turns it into CNot), at any depth *)
Lemma cond_of_leaf_not_Not : forall v pos args,
  cond_leaf (cond_of v) INot pos args -> length args <> 1.
Proof.
  induction v as [|o p a u IH] using sval_ind'; intros pos args H; [exact (False_ind _ H)|].
  destruct o; try (cbn in H; destruct H as (E & _); discriminate E).
  - (* And *)
    destruct a as [| x [| y [| z r]]]; cbn in H; try (destruct H as (E & _); discriminate E).
    inversion IH as [| ? ? Hx IH']; subst. inversion IH' as [| ? ? Hy _]; subst.
    destruct H as [H | H]; [eapply Hx | eapply Hy]; exact H.
  - (* Or *)
    destruct a as [| x [| y [| z r]]]; cbn in H; try (destruct H as (E & _); discriminate E).
    inversion IH as [| ? ? Hx IH']; subst. inversion IH' as [| ? ? Hy _]; subst.
    destruct H as [H | H]; [eapply Hx | eapply Hy]; exact H.
  - (* Not *)
    destruct a as [| x [| y r]]; cbn in H.
    + destruct H as (_ & _ & <-). discriminate.
    + inversion IH as [| ? ? Hx _]; subst. eapply Hx; exact H.
    + destruct H as (_ & _ & <-). discriminate.
Qed.

Corollary type_single_gen_eq_leaf : forall intcs fam v op pos args,
  cond_leaf (cond_of v) op pos args ->
  stack_pop_size op = Some (length args) ->
  type_single_gen intcs fam op pos args = Some (type_single intcs fam op pos args).
Proof.
  intros intcs fam v op pos args Hl Hs. apply type_single_gen_eq.
  - intros ->. apply (cond_of_leaf_not_Not v pos args Hl).
    assert (E : stack_pop_size INot = Some 1) by (vm_compute; reflexivity).
    rewrite E in Hs. inversion Hs. reflexivity.
  - apply cmp_arity_eqneq, cmp_arity_table. exact Hs.
Qed.
Print Assumptions type_single_gen_eq_leaf.

(* the per-pattern results of TypeLemmas (C07), for the generated wrapper *)
Corollary type_single_gen_side_set : forall intcs pat p q pos,
  type_single_gen intcs KSelf (pat_op pat false) pos (pat_args pat p q)
  = Some (side_set pat true, side_set pat false).
Proof.
  intros intcs pat p q pos. rewrite type_single_gen_eq.
  - rewrite type_single_side_set. reflexivity.
  - destruct pat; discriminate.
  - intros [E | E]; destruct pat; try reflexivity; discriminate E.
Qed.

(* ====================================================================== *)
(* addr_fields                                                             *)
(* ====================================================================== *)
Theorem addr_get_asserted_address_gen_eq : forall i, addr_get_asserted_address_gen i = asserted_address i.
Proof.
  intros i. unfold addr_get_asserted_address_gen, asserted_address.
  destruct i; reflexivity.
Qed.

Lemma addr_gen_eqneq : forall intcs fam fld op pos v1 v2, (op = IEq \/ op = INeq) ->
  addr_get_asserted_txn_gtxn_gen intcs fam fld op pos [v1; v2] = Some (addr_single intcs fam fld op pos [v1; v2]).
Proof.
  intros intcs fam fld op pos v1 v2 Hop. rewrite addr_single_eq.
  unfold addr_get_asserted_txn_gtxn_gen, addr_asserted. cbn [nth_error]. cbv zeta.
  generalize addr_universal_set; intros U.
  destruct v1 as [|o1 p1 a1 u1], v2 as [|o2 p2 a2 u2]; cbn [sv_is_unknown andb negb op_of];
    rewrite ?addr_get_asserted_address_gen_eq;
    repeat match goal with |- context [value_matches ?a ?b ?c ?d] => destruct (value_matches a b c d) end;
    destruct Hop; subst op; reflexivity.
Qed.

(* the generated AddrFields._get_asserted_single is the hand-written addr_single when == / != has two operands *)
Theorem addr_single_gen_eq : forall intcs fam fld op pos args,
  eqneq_arity_ok op args ->
  addr_single_gen intcs fam fld op pos args = Some (addr_single intcs fam fld op pos args).
Proof.
  intros intcs fam fld op pos args Ha. unfold addr_single_gen.
  assert (Hd : (op = IEq \/ op = INeq) \/ (op <> IEq /\ op <> INeq)).
  { destruct op; try (right; split; discriminate); left; auto. }
  destruct Hd as [Hop | [H1 H2]].
  - specialize (Ha Hop). two_args args Ha. apply addr_gen_eqneq. exact Hop.
  - unfold addr_get_asserted_txn_gtxn_gen. destruct op; try congruence; reflexivity.
Qed.
Print Assumptions addr_single_gen_eq.

Corollary addr_single_gen_eq_table : forall intcs fam fld op pos args,
  stack_pop_size op = Some (length args) ->
  addr_single_gen intcs fam fld op pos args = Some (addr_single intcs fam fld op pos args).
Proof. intros. apply addr_single_gen_eq, cmp_arity_eqneq, cmp_arity_table. assumption. Qed.

Lemma addr_single_gen_arity_refuted :
  addr_single_gen None KSelf "Sender" IEq 0 [] = None /\
  addr_single None KSelf "Sender" IEq 0 [] = (addr_universal_set, addr_universal_set) /\
  (let args := [SKnown (ITxn ("Sender", None)) 0 [] 0; SKnown (IGlobal "CreatorAddress") 1 [] 0; SUnknown] in
   addr_single_gen None KSelf "Sender" IEq 2 args = Some (set_of_list [CREATOR_ADDRESS], addr_universal_set) /\
   addr_single None KSelf "Sender" IEq 2 args = (addr_universal_set, addr_universal_set)).
Proof. repeat split; reflexivity. Qed.

Theorem addr_single_gen_sound : forall e fam fld op pos args t a b r,
  fld <> "GroupIndex" ->
  key_txn e fam = Some t ->
  e_field e t fld = VAddr a -> a <> "ZERO" -> is_marker a = false ->
  addr_const_compared (e_intcs e) fam fld args ->
  zero_literal_ok args ->
  creator_not_literal e args ->
  leaf_truth e op args = Some b ->
  addr_single_gen (e_intcs e) fam fld op pos args = Some r ->
  addr_gamma (if b then fst r else snd r) (abs_name e a).
Proof.
  intros e fam fld op pos args t a b r Hfld Hk Hf Ha Hm Hcc Hz Hcr Hb Hr.
  rewrite (addr_single_gen_eq _ _ _ _ _ _ (cmp_arity_eqneq _ _ (leaf_truth_arity _ _ _ _ Hb))) in Hr.
  inversion Hr; subst r. eapply addr_single_sound; eassumption.
Qed.
Print Assumptions addr_single_gen_sound.

Print Assumptions mirrored_comparison_gen_mirror.
Print Assumptions addr_get_asserted_address_gen_eq.
Print Assumptions fee_single_gen_arity_refuted.
Print Assumptions int_single_gen_arity_refuted.
Print Assumptions int_single_gen_mirrored_refuted.
Print Assumptions type_single_gen_not_refuted.
Print Assumptions cond_of_leaf_not_Not.
Print Assumptions type_single_gen_side_set.
Print Assumptions addr_single_gen_arity_refuted.
